"""Implementation-side helpers of the C06 check (container TOC <-> metadata sync).

* harness schema family registered in the live plugin group (``ensure_schemas``) and the
  schema environment in the wire format of coq/Toc/Sync.v (``load_env``);
* raw dumps of a container (``dump_raw``), the in-memory index of a ``MetadorContainer``
  (``index_of``, ``public_view``);
* ``sync_oracle``: an independent statement of "TOC and metadata are in one-to-one sync",
  written from the layout text in container/__init__.py and the docstrings of interface.py;
* application of one operation of a history (``apply_op``), nestable time limit.

Nothing here is derived from the Coq model.
"""
from __future__ import annotations

import contextlib
import json
import re
import signal
import time
from typing import Any, Dict, List, Optional, Tuple

import vlib
from ih5lib import dec, enc

PREF = "metador_"
META_PREF = "metador_meta_"
TOC = "/metador_container"
GUARD_MSG = "Trying to use a Metador-internal path"

PKG_NAME, PKG_VER = "c06-harness-pkg", (0, 1, 0)
S_AA, S_BB, S_CC, S_DD = "c06.aa", "c06.bb", "c06.cc", "c06.dd"
S_XX, S_FF, S_PP = "c06.xx", "c06.ff", "c06.pp"
HARNESS = [S_AA, S_BB, S_CC, S_DD, S_XX, S_FF, S_PP]
INSTALLED = {"core.person": {"name": "Jane Doe"}}
NOPE_EP = "c06.nope__0.1.0"
FAIL_FLAG = {S_FF: "1", S_PP: "2"}

_READY = False


def ep_of(name: str, ver=(0, 1, 0)) -> str:
    return f"{name}__{ver[0]}.{ver[1]}.{ver[2]}"


def name_of_ep(ep: str) -> str:
    return ep.split("__")[0]


def ensure_schemas():
    """Register the harness schemas in the live plugin group of this process (idempotent)."""
    global _READY
    if _READY:
        return
    from types import SimpleNamespace
    from metador_core.plugin.types import to_ep_name
    from metador_core.plugin.util import register_in_group
    from metador_core.plugins import schemas
    from metador_core.schema import MetadataSchema
    from metador_core.schema.plugins import PluginPkgMeta

    class AA(MetadataSchema):
        class Plugin:
            name = S_AA
            version = (0, 1, 0)
        x: int = 0

    class BB(AA):
        class Plugin:
            name = S_BB
            version = (0, 1, 0)

    class CC(BB):
        class Plugin:
            name = S_CC
            version = (0, 1, 0)

    class DD(AA):
        class Plugin:
            name = S_DD
            version = (0, 1, 0)

    class XX(MetadataSchema):
        class Plugin:
            name = S_XX
            version = (0, 1, 0)
            auxiliary = True
        x: int = 0

    class FF(MetadataSchema):
        class Plugin:
            name = S_FF
            version = (0, 1, 0)
        x: int = 0

        @classmethod
        def schema_json(cls, *a, **kw):
            raise RuntimeError("c06 harness: schema export fails")

    class PP(MetadataSchema):
        class Plugin:
            name = S_PP
            version = (0, 1, 0)
        x: int = 0

    refs = []
    for C in (AA, BB, CC, DD, XX, FF, PP):
        register_in_group(schemas, C, violently=True)
        ep = to_ep_name(C.Plugin.name, C.Plugin.version)
        if C is not PP:     # provider lookup of c06.pp raises (entry point object stays None)
            schemas._ENTRY_POINTS[ep] = SimpleNamespace(dist=SimpleNamespace(name=PKG_NAME))
        refs.append(schemas.PluginRef(name=C.Plugin.name, version=C.Plugin.version))
    schemas._PKG_META[PKG_NAME] = PluginPkgMeta(name=PKG_NAME, version=PKG_VER, plugins={"schema": refs})
    _READY = True


def load_env(_=None) -> List[list]:
    """Schema environment in the wire format of run_c06: [ep, pkg_ep, parent path, aux, fail]."""
    ensure_schemas()
    from metador_core.plugin.types import to_ep_name
    from metador_core.plugins import schemas
    out: Dict[str, list] = {}

    def add(name: str, ver):
        ep = str(to_ep_name(name, tuple(ver)))
        if ep in out:
            return
        cls = schemas.get(name, tuple(ver))
        path = [str(to_ep_name(r.name, tuple(r.version))) for r in schemas.parent_path(name, tuple(ver))]
        if name == S_PP:
            pkg = ep_of(PKG_NAME, PKG_VER)
        else:
            info = schemas.provider(cls.Plugin.ref())
            pkg = str(to_ep_name(str(info.name), tuple(info.version)))
        out[ep] = [ep, pkg, path, bool(cls.Plugin.auxiliary), FAIL_FLAG.get(name, "0")]
        for r in schemas.parent_path(name, tuple(ver)):
            add(r.name, r.version)

    for n in HARNESS:
        add(n, (0, 1, 0))
    for n in INSTALLED:
        add(n, schemas.get(n).Plugin.version)
    return sorted(out.values())


def installed_eps() -> Dict[str, str]:
    from metador_core.plugin.types import to_ep_name
    from metador_core.plugins import schemas
    return {str(to_ep_name(n, tuple(schemas.get(n).Plugin.version))): n for n in INSTALLED}


# ---------------------------------------------------------------------------- time limit

_LIMITS: List[Tuple[float, type]] = []


def _on_tick(signum, frame):
    now = time.time()
    for deadline, exc in _LIMITS:
        if now >= deadline:
            raise exc("time limit exceeded")


@contextlib.contextmanager
def limit(seconds: float, exc: type = vlib.CaseTimeout):
    """Nestable time limit with a repeating timer (an exception raised from a signal handler
    is swallowed when it lands in a weakref callback or __del__)."""
    _LIMITS.append((time.time() + seconds, exc))
    old = signal.signal(signal.SIGALRM, _on_tick) if len(_LIMITS) == 1 else None
    signal.setitimer(signal.ITIMER_REAL, 0.25, 0.25)
    try:
        yield
    finally:
        _LIMITS.pop()
        if not _LIMITS:
            signal.setitimer(signal.ITIMER_REAL, 0)
            if old is not None:
                signal.signal(signal.SIGALRM, old)


# ---------------------------------------------------------------------------- operations

def reserved(path: str) -> bool:
    return any(seg.startswith(PREF) for seg in path.split("/"))


def _is_ds(node) -> bool:
    import h5py
    return hasattr(node, "ndim") or isinstance(node, h5py.Dataset)


def classify(e: BaseException) -> str:
    if isinstance(e, vlib.CaseTimeout):
        return "timeout"
    if isinstance(e, ValueError) and GUARD_MSG in str(e):
        return "guard"
    return "fail"


def apply_op(m, op):
    """One operation of a history through the MetadorContainer `m` (not reopen / bnd)."""
    from metador_core.plugins import schemas
    k = op[0]
    if k == "sattach":
        node = m[op[1]]
        name = name_of_ep(op[2])
        if not op[4]:
            val: Any = {"x": "not-an-int"}
        elif name in INSTALLED:
            val = schemas.get(name)(**INSTALLED[name])
        elif name in HARNESS:
            val = schemas.get(name)(x=int(op[3]))
        else:
            val = {"x": int(op[3])}
        node.meta[name] = val
        return
    if k == "detach":
        node = m[op[1]]
        del node.meta[name_of_ep(op[2])]
        return
    g = m[op[1]]
    if k == "mkgrp":
        g.create_group(op[2])
    elif k == "reqgrp":
        g.require_group(op[2])
    elif k == "mkds":
        g.create_dataset(op[2], data=dec(op[3]))
    elif k == "reqds":
        g.require_dataset(op[2], shape=(), dtype="int64", data=dec(op[3]))
    elif k == "set":
        g[op[2]] = dec(op[3])
    elif k == "del":
        del g[op[2]]
    elif k == "move":
        g.move(op[2], op[3])
    elif k == "copy":
        g.copy(op[2], op[3], without_meta=bool(op[4]))
    elif k == "copyinto":
        dg = m[op[3]]
        if not hasattr(dg, "keys") or _is_ds(dg):
            raise TypeError("destination is not a group")
        kw: Dict[str, Any] = {"name": op[4][0]} if op[4] else {}
        kw["without_meta"] = bool(op[5])
        g.copy(op[2], dg, **kw)
    elif k == "aset":
        g[op[2]].attrs[op[3]] = dec(op[4])
    elif k == "adel":
        del g[op[2]].attrs[op[3]]
    elif k == "get":
        g[op[2]]
    else:
        raise ValueError(k)


MUTATING = {"mkgrp", "reqgrp", "mkds", "reqds", "set", "del", "move", "copy", "copyinto", "aset", "adel",
            "sattach", "detach"}


# ---------------------------------------------------------------------------- dumps

def dump_raw(root) -> Dict[str, list]:
    """name -> ["G", attrs] | ["D", bytes-or-encoded value, attrs] of the raw (unwrapped) tree.
    Values of nodes on reserved paths are kept as bytes, user values are encoded."""
    out: Dict[str, list] = {}

    def rec(name, node):
        at = sorted([k, enc(node.attrs[k])] for k in node.attrs.keys())
        if _is_ds(node):
            v = node[()]
            if reserved(name):
                v = bytes(v) if isinstance(v, (bytes, bytearray)) or hasattr(v, "tobytes") and not isinstance(v, str) else str(v).encode()
            else:
                v = enc(v)
            out[name] = ["D", v, at]
        else:
            out[name] = ["G", at]

    rec("/", root)
    pairs: List[Tuple[str, Any]] = []
    root.visititems(lambda n, o: pairs.append((n, o)) or None)
    for n, o in pairs:
        rec("/" + n.strip("/"), o)
    return out


def index_of(mc) -> Dict[str, Any]:
    """Canonical form of the in-memory index of a MetadorContainer (private state)."""
    toc = mc.metador
    eps = lambda r: ep_of(r.name, tuple(r.version))  # noqa: E731
    pk = lambda p: ep_of(str(p[0]), tuple(p[1]))  # noqa: E731
    S = toc.schemas
    return {
        "links": sorted([str(u), p] for u, p in toc._links._toc_path.items()),
        "schemas": sorted(eps(r) for r in S._schemas),
        "parents": {eps(k): [eps(r) for r in v] for k, v in sorted(S._parents.items(), key=lambda kv: eps(kv[0]))},
        "children": {eps(k): sorted(eps(r) for r in v) for k, v in sorted(S._children.items(), key=lambda kv: eps(kv[0]))},
        "pkgs": sorted(pk(p) for p in toc._packages._pkginfos.keys()),
        "used": {pk(k): sorted(eps(r) for r in v) for k, v in sorted(S._used.items(), key=lambda kv: pk(kv[0]))},
        "providers": {eps(k): sorted(pk(p) for p in v) for k, v in sorted(toc._packages._providers.items(), key=lambda kv: eps(kv[0]))},
    }


def public_view(mc, env_names: List[Tuple[str, tuple]]) -> Dict[str, Any]:
    """What the public interface of the container index answers."""
    S = mc.metador.schemas
    eps = lambda r: ep_of(r.name, tuple(r.version))  # noqa: E731
    out: Dict[str, Any] = {"keys": sorted(eps(r) for r in S.keys()),
                           "packages": sorted(ep_of(str(p[0]), tuple(p[1])) for p in S.packages.keys()),
                           "children": {}, "parent_path": {}, "versions": {}, "query": {}, "provider": {}}
    keys = {(r.name, tuple(r.version)) for r in S.keys()}
    for name, ver in env_names:
        try:
            out["versions"][name] = sorted(eps(r) for r in S.versions(name))
        except Exception as e:  # noqa: BLE001
            out["versions"][name] = "EXC " + type(e).__name__
        try:
            out["children"][name] = sorted(eps(r) for r in S.children(name))
        except Exception as e:  # noqa: BLE001
            out["children"][name] = "EXC " + type(e).__name__
        if (name, tuple(ver)) in keys:
            try:
                out["children"][name + "@v"] = sorted(eps(r) for r in S.children(name, tuple(ver)))
            except Exception as e:  # noqa: BLE001
                out["children"][name + "@v"] = "EXC " + type(e).__name__
            try:
                out["parent_path"][name] = [eps(r) for r in S.parent_path(name, tuple(ver))]
            except Exception as e:  # noqa: BLE001
                out["parent_path"][name] = "EXC " + type(e).__name__
            try:
                from metador_core.plugins import schemas
                info = S.provider(schemas.PluginRef(name=name, version=tuple(ver)))
                out["provider"][name] = ep_of(str(info.name), tuple(info.version))
            except Exception as e:  # noqa: BLE001
                out["provider"][name] = "EXC " + type(e).__name__
        try:
            out["query"][name] = sorted(n.name for n in mc.metador.query(name))
        except Exception as e:  # noqa: BLE001
            out["query"][name] = "EXC " + type(e).__name__
    return out


# ---------------------------------------------------------------------------- the oracle

_UUID_RE = re.compile(r"^[0-9a-f]{8}-[0-9a-f]{4}-[0-9a-f]{4}-[0-9a-f]{4}-[0-9a-f]{12}$")


def _valid_ep(ep: str) -> bool:
    from metador_core.plugin.types import from_ep_name, to_ep_name
    try:
        n, v = from_ep_name(ep)
        return str(to_ep_name(n, v)) == ep
    except Exception:  # noqa: BLE001
        return False


def _json(v) -> Tuple[bool, Any]:
    try:
        return True, json.loads(v.decode("utf-8") if isinstance(v, (bytes, bytearray)) else v)
    except Exception:  # noqa: BLE001
        return False, None


def _text(v) -> Optional[str]:
    try:
        return v.decode("utf-8") if isinstance(v, (bytes, bytearray)) else str(v)
    except Exception:  # noqa: BLE001
        return None


def sync_oracle(dump: Dict[str, list], check_env: bool = True) -> List[str]:
    """Complaints about a raw dump (empty list = TOC and metadata are in sync).

    Written from the container layout text (container/__init__.py: one ``metador_meta_*``
    group per annotated node, objects ``<schema ep>=<uuid>`` inside; the TOC lists exactly
    those objects; no empty entry-point named groups; all listed paths exist) and from the
    docstrings of TOCLinks / TOCSchemas / TOCPackages in container/interface.py."""
    bad: List[str] = []
    kind = {n: e[0] for n, e in dump.items()}
    children: Dict[str, List[str]] = {n: [] for n in dump}
    for n in dump:
        if n != "/":
            par = n.rsplit("/", 1)[0] or "/"
            children.setdefault(par, []).append(n)

    objects: Dict[str, Tuple[str, str]] = {}      # object path -> (ep, uuid)
    links: Dict[str, Tuple[str, str]] = {}        # link path -> (ep, uuid)
    link_eps, schema_eps, pkg_recs = set(), set(), {}

    for n, e in sorted(dump.items()):
        segs = n.strip("/").split("/") if n != "/" else []
        ridx = [i for i, s in enumerate(segs) if s.startswith(PREF)]
        if not ridx:
            continue
        i = ridx[0]
        if i == 0 and segs[0] == "metador_container":
            r = segs[1:]
            want = None
            if r == []:
                want = "G"
            elif r in (["version"], ["uuid"]):
                want = "D"
            elif r in (["links"], ["schemas"], ["packages"]):
                want = "G"
            elif len(r) == 2 and r[0] in ("links", "schemas"):
                want = "G"
                if not _valid_ep(r[1]):
                    bad.append(f"{n}: not a schema entry-point name")
                (link_eps if r[0] == "links" else schema_eps).add(r[1])
            elif len(r) == 2 and r[0] == "packages":
                want = "D"
                pkg_recs[r[1]] = e[1] if e[0] == "D" else None
            elif len(r) == 3 and r[0] == "links":
                want = "D"
                if not _UUID_RE.match(r[2]):
                    bad.append(f"{n}: link name is not a UUID")
                links[n] = (r[1], r[2])
            elif len(r) == 3 and r[0] == "schemas" and r[2] in ("jsonschema.json", "compat"):
                want = "D"
            if want is None:
                bad.append(f"{n}: unexpected node in the TOC")
            elif want != e[0]:
                bad.append(f"{n}: wrong node kind {e[0]}")
            continue
        # metadata directory or object
        if len(ridx) > 1 or not segs[i].startswith(META_PREF) or i < len(segs) - 2:
            bad.append(f"{n}: reserved name that is neither a TOC node nor a metadata directory/object")
            continue
        dirname = "/" + "/".join(segs[:i + 1])
        if i == len(segs) - 1:
            if e[0] != "G":
                bad.append(f"{n}: metadata directory is not a group")
                continue
            owner = segs[i][len(META_PREF):]
            if owner == "":
                par = "/" + "/".join(segs[:i])
                if kind.get(par) != "G":
                    bad.append(f"{n}: metadata directory of a missing group")
            else:
                ds = "/" + "/".join(segs[:i] + [owner])
                if kind.get(ds) != "D":
                    bad.append(f"{n}: metadata directory beside {ds}, which is {'missing' if ds not in kind else 'a group'}")
            if not children.get(n):
                bad.append(f"{n}: empty metadata directory")
            continue
        # object
        if kind.get(dirname) != "G":
            bad.append(f"{n}: object outside a metadata directory")
        nm = segs[-1]
        parts = nm.split("=")
        if e[0] != "D" or len(parts) != 2 or not _valid_ep(parts[0]) or not _UUID_RE.match(parts[1]):
            bad.append(f"{n}: not a metadata object dataset named <schema ep>=<uuid>")
            continue
        if not _json(e[1])[0]:
            bad.append(f"[content] {n}: object content is not JSON")
        objects[n] = (parts[0], parts[1])

    # one object per schema name per directory
    per_dir: Dict[Tuple[str, str], int] = {}
    for p, (ep, _u) in objects.items():
        key = (p.rsplit("/", 1)[0], name_of_ep(ep))
        per_dir[key] = per_dir.get(key, 0) + 1
    for (d, s), c in sorted(per_dir.items()):
        if c > 1:
            bad.append(f"{d}: {c} objects of schema {s}")

    # links <-> objects
    by_obj: Dict[str, List[str]] = {}
    for lp, (ep, u) in sorted(links.items()):
        tgt = _text(dump[lp][1]) if dump[lp][0] == "D" else None
        if tgt is None or tgt not in objects:
            bad.append(f"{lp}: link target {tgt!r} is not an existing metadata object")
            continue
        if objects[tgt] != (ep, u):
            bad.append(f"{lp}: link target {tgt} has another schema/uuid")
        by_obj.setdefault(tgt, []).append(lp)
    for p in sorted(objects):
        c = len(by_obj.get(p, []))
        if c != 1:
            bad.append(f"{p}: object has {c} TOC links")
    for what, coll in (("objects", objects), ("links", links)):
        seen: Dict[str, str] = {}
        for p, (_ep, u) in sorted(coll.items()):
            if u in seen:
                bad.append(f"uuid {u} used by two {what}: {seen[u]} and {p}")
            seen[u] = p

    # bookkeeping groups
    for g in ("links", "schemas", "packages"):
        gp = f"{TOC}/{g}"
        if gp in dump and not children.get(gp):
            bad.append(f"{gp}: empty group")
    for ep in sorted(link_eps):
        if not children.get(f"{TOC}/links/{ep}"):
            bad.append(f"{TOC}/links/{ep}: empty group")
    for ep in sorted(link_eps ^ schema_eps):
        bad.append(f"schema {ep}: " + ("links without schema record" if ep in link_eps else "schema record without links"))
    used_refs = []
    for ep in sorted(schema_eps):
        sp = f"{TOC}/schemas/{ep}"
        kids = sorted(c.rsplit("/", 1)[1] for c in children.get(sp, []))
        if kids != ["compat", "jsonschema.json"]:
            bad.append(f"{sp}: holds {kids}, expected compat + jsonschema.json")
            continue
        if not _json(dump[sp + "/jsonschema.json"][1])[0]:
            bad.append(f"[content] {sp}/jsonschema.json: not JSON")
        ok, compat = _json(dump[sp + "/compat"][1])
        refs = None
        if ok and isinstance(compat, list) and compat:
            try:
                refs = [ep_of(r["name"], tuple(r["version"])) for r in compat]
            except Exception:  # noqa: BLE001
                refs = None
        if refs is None or refs[-1] != ep:
            bad.append(f"[content] {sp}/compat: not a parent path ending in the schema itself")
        elif check_env and _valid_ep(ep):
            from metador_core.plugin.types import from_ep_name
            from metador_core.plugins import schemas
            try:
                n_, v_ = from_ep_name(ep)
                want = [ep_of(r.name, tuple(r.version)) for r in schemas.parent_path(n_, tuple(v_))]
            except Exception:  # noqa: BLE001
                want = None
            if want is not None and want != refs:
                bad.append(f"[content] {sp}/compat: {refs} differs from the environment's parent path {want}")
        used_refs.append(ep)
    provided: Dict[str, List[str]] = {}
    for p, val in sorted(pkg_recs.items()):
        try:
            from metador_core.schema.plugins import PluginPkgMeta
            info = PluginPkgMeta.parse_raw(val)
            lst = [ep_of(r.name, tuple(r.version)) for r in info.plugins.get("schema", [])]
            if ep_of(str(info.name), tuple(info.version)) != p:
                bad.append(f"[content] {TOC}/packages/{p}: record describes another package")
        except Exception:  # noqa: BLE001
            bad.append(f"[content] {TOC}/packages/{p}: does not parse as package info")
            continue
        provided[p] = lst
        if not any(s in used_refs for s in lst):
            bad.append(f"{TOC}/packages/{p}: provides no schema in use")
    for ep in used_refs:
        if not any(ep in lst for lst in provided.values()):
            bad.append(f"schema {ep}: no package record lists it")
    for req in ("version", "uuid"):
        if kind.get(f"{TOC}/{req}") != "D":
            bad.append(f"{TOC}/{req}: missing")
    return bad


# ---------------------------------------------------------------------------- translation to the model's vocabulary

_UUID_ANY = re.compile(r"[0-9a-f]{8}-[0-9a-f]{4}-[0-9a-f]{4}-[0-9a-f]{4}-[0-9a-f]{12}")


def object_label(ep: str, val) -> str:
    """The value label of a stored metadata object (see apply_op: x of the harness schemas)."""
    ok, js = _json(val)
    if not ok:
        return "?not-json"
    if name_of_ep(ep) in HARNESS:
        return str(js.get("x")) if isinstance(js, dict) else "?"
    return "0"


def normalise_dump(dump: Dict[str, list]) -> Dict[str, list]:
    """name -> ["G", attrs] | ["D", value, attrs] with the constant contents of the model."""
    out: Dict[str, list] = {}
    for n, e in dump.items():
        if not reserved(n):
            out[n] = list(e)
            continue
        if e[0] == "G":
            out[n] = ["G", []]
            continue
        segs = n.strip("/").split("/")
        v = e[1]
        if n == f"{TOC}/uuid":
            val = "container-uuid"
        elif segs[0] == "metador_container" and len(segs) == 4 and segs[1] == "schemas":
            val = {"jsonschema.json": "jsonschema", "compat": "compat"}.get(segs[3], _text(v))
        elif segs[0] == "metador_container" and len(segs) == 3 and segs[1] == "packages":
            val = "pkginfo"
        elif segs[0] != "metador_container" and "=" in segs[-1]:
            val = object_label(segs[-1].split("=")[0], v)
        else:
            val = _text(v)
        out[n] = ["D", val, []]
    return out


def model_tree(tree: list) -> Dict[str, list]:
    out = {}
    for e in tree:
        res = reserved(e[0])
        if e[1] == "G":
            out[e[0]] = ["G", [] if res else sorted([list(kv) for kv in e[2]])]
        else:
            out[e[0]] = ["D", e[2], [] if res else sorted([list(kv) for kv in e[3]])]
    return out


def _objects_of(names) -> Dict[Tuple[str, str], str]:
    """(directory, ep) -> uuid part of the object names in a tree."""
    out = {}
    for n in names:
        segs = n.strip("/").split("/")
        if segs and segs[0] != "metador_container" and len(segs) >= 2 and segs[-2].startswith(META_PREF) and "=" in segs[-1]:
            ep, _, u = segs[-1].partition("=")
            out[("/".join(segs[:-1]), ep)] = u
    return out


def uuid_renaming(impl_names, model_names) -> Dict[str, str]:
    """real uuid -> model uuid, from the object datasets (same directory and schema)."""
    a, b = _objects_of(impl_names), _objects_of(model_names)
    return {u: b[k] for k, u in a.items() if k in b}


def rename_uuids(norm: Dict[str, list], ren: Dict[str, str]) -> Dict[str, list]:
    sub = lambda s: _UUID_ANY.sub(lambda m: ren.get(m.group(0), m.group(0)), s)  # noqa: E731
    out = {}
    for n, e in norm.items():
        if reserved(n):
            e = [e[0], sub(e[1]) if isinstance(e[1], str) else e[1], e[2]] if e[0] == "D" else e
            out[sub(n)] = e
        else:
            out[n] = e
    return out


def check_case(dump: Dict[str, list], env: List[list]) -> list:
    """The `check` case of run_c06 for a real dump: uuids renamed to u0, u1, ..."""
    uu: Dict[str, str] = {}
    for n in sorted(dump):
        if reserved(n):
            for m in _UUID_ANY.findall(n):
                uu.setdefault(m, f"u{len(uu)}")
    sub = lambda s: _UUID_ANY.sub(lambda m: uu.get(m.group(0), "zz" + m.group(0)[:6]), s)  # noqa: E731
    tree, eps = [], set()
    for n in sorted(dump):
        e = dump[n]
        name = sub(n) if reserved(n) else n
        if e[0] == "G":
            tree.append([name, "G"])
        else:
            v = "v"
            if n.startswith(f"{TOC}/links/"):
                v = sub(_text(e[1]) or "?")
            tree.append([name, "D", v])
        segs = n.strip("/").split("/")
        if segs[0] == "metador_container" and len(segs) == 3 and segs[1] in ("links", "schemas"):
            eps.add(segs[2])
    pkg = {d[0]: d[1] for d in env}
    prov = [[ep, pkg.get(ep, "")] for ep in sorted(eps)]
    return ["check", env, str(len(uu)), prov, tree]


def canon_index(ix: Dict[str, Any], ren: Optional[Dict[str, str]] = None, strict: bool = False) -> Dict[str, Any]:
    """Implementation index in the vocabulary of the model: links as [uuid, schema ep]."""
    ren = ren or {}
    links = []
    for u, p in ix["links"]:
        if p is None:
            if strict:
                links.append([ren.get(u, u), None])
            continue
        segs = p.strip("/").split("/")
        links.append([ren.get(segs[-1], segs[-1]), segs[-2]] if ren.get(u, u) == ren.get(segs[-1], segs[-1])
                     else [ren.get(u, u), "MISMATCH " + p])
    return {"links": sorted(links, key=str), "schemas": sorted(ix["schemas"]),
            "parents": dict(ix["parents"]), "children": {k: sorted(v) for k, v in ix["children"].items()},
            "pkgs": sorted(ix["pkgs"]),
            "used": {k: sorted(v) for k, v in ix["used"].items() if v or strict}}


def model_index(mx: list) -> Dict[str, Any]:
    links, schemas_, parents, children_, pkgs, used = mx
    return {"links": sorted([list(x) for x in links], key=str), "schemas": sorted(schemas_),
            "parents": {k: list(v) for k, v in parents}, "children": {k: sorted(v) for k, v in children_},
            "pkgs": sorted(pkgs), "used": {k: sorted(v) for k, v in used if v}}


# ---------------------------------------------------------------------------- generator

SEGS = ["a", "b", "c", "d", "x", "y", "meta", "A", "0d", "Mb", "~t"]
# ("A", "0d", "Mb" sort before their "metador_meta_<name>" sidecars, "x", "y", "~t" after: a listing
#  that is iterated while sidecars are removed meets the vanished sidecar between the two kinds)
RES_SEGS = ["metador_x", "metador_meta_", "metador_meta_x", "metador_container"]
VALUES = ["i:0", "i:1", "i:7"]
ATTR_KEYS = ["k", "m"]
LABELS = ["0", "1", "2"]
PERSON_EP = "core.person__0.1.0"
GOOD_EPS = [ep_of(S_AA), ep_of(S_BB), ep_of(S_CC), ep_of(S_DD), PERSON_EP]
BAD_EPS = [ep_of(S_XX), ep_of(S_FF), ep_of(S_PP), NOPE_EP]


def absname(segs) -> str:
    return "/" + "/".join(segs)


class Mirror:
    """Rough mirror of the user tree and the attachments; only biases the generator."""

    def __init__(self):
        self.nodes: Dict[Tuple[str, ...], str] = {(): "G"}
        self.meta: set = set()
        self.freed: List[Tuple[str, ...]] = []   # paths that held an annotated node earlier (moved away / deleted)

    def groups(self):
        return [p for p, k in self.nodes.items() if k == "G"]

    def datasets(self):
        return [p for p, k in self.nodes.items() if k == "D"]

    def annotated(self):
        """Nodes that carry metadata themselves or contain a node that does."""
        out = set()
        for (q, _s) in self.meta:
            for i in range(1, len(q) + 1):
                if q[:i] in self.nodes:
                    out.add(q[:i])
        return sorted(out)

    def mk(self, p, kind):
        p = tuple(p)
        for i in range(1, len(p)):
            if self.nodes.get(p[:i]) == "D":
                return
            self.nodes.setdefault(p[:i], "G")
        if p and p not in self.nodes:
            self.nodes[p] = kind

    def free_again(self):
        """Previously used paths that are free now and whose parent still is a group."""
        return [p for p in self.freed if p not in self.nodes and self.nodes.get(p[:-1]) == "G"]

    def rm(self, p):
        p = tuple(p)
        if not p:
            return
        if p in self.nodes and any(q[:len(p)] == p for (q, _s) in self.meta) and p not in self.freed:
            self.freed.append(p)
        for q in [q for q in self.nodes if q[:len(p)] == p]:
            del self.nodes[q]
        self.meta = {(q, s) for (q, s) in self.meta if q[:len(p)] != p}

    def cp(self, s, d, move=False, with_meta=True):
        s, d = tuple(s), tuple(d)
        if s not in self.nodes or d in self.nodes or not s or not d or (move and d[:len(s)] == s):
            return          # (a COPY below the source itself grafts a snapshot of the source)
        for i in range(1, len(d)):
            if self.nodes.get(d[:i]) == "D":
                return
        sub = {q: k for q, k in self.nodes.items() if q[:len(s)] == s}
        msub = {(q, sc) for (q, sc) in self.meta if q[:len(s)] == s}
        for i in range(1, len(d)):
            self.nodes.setdefault(d[:i], "G")
        if move:
            self.rm(s)
        for q, k in sub.items():
            self.nodes[d + q[len(s):]] = k
        if with_meta or move:
            self.meta |= {(d + q[len(s):], sc) for (q, sc) in msub}


def _spell(rng, cwd: List[str], target: List[str]) -> str:
    """User paths are spelled canonically (IH5 does not resolve "./x" and "a//b": property C09)."""
    if target[:len(cwd)] == cwd and len(target) > len(cwd) and rng.random() < 0.7:
        return "/".join(target[len(cwd):])
    return absname(target)


def _reserved_path(rng, mir: Mirror) -> str:
    r = rng.random()
    grp = list(rng.choice(mir.groups()))
    if r < 0.25:
        return rng.choice(RES_SEGS)
    if r < 0.45:
        return "/metador_container/" + rng.choice(["links", "version", "schemas", "packages"])
    if r < 0.7 and mir.datasets():
        d = list(rng.choice(mir.datasets()))
        return absname(d[:-1] + ["metador_meta_" + d[-1]])
    return absname(grp + ["metador_meta_"])


def gen_history(rng, nops: int, p_bnd: float = 0.06, p_reserved: float = 0.03) -> List[list]:
    """Random history: data operations as in the C08 check (same restrictions: canonical user
    paths, absolute copy destinations only from the root group, copyinto never into the root
    group; copies - not moves - may go below the source itself) + attach/detach over the harness schema family
    + reopen (read-only phases) + IH5 patch boundaries."""
    mir = Mirror()
    ops: List[list] = []
    ro = 0          # remaining operations of a read-only phase
    ro_acl = False  # flavour of the phase: file opened read-only / restrict(read_only=True)
    # a few nodes to work with (nested groups with datasets inside)
    for _ in range(rng.randint(2, 4)):
        base = list(rng.choice(mir.groups()))
        t = base + [rng.choice(SEGS) for _ in range(1 if rng.random() < 0.6 else 2)]
        if tuple(t) in mir.nodes:
            continue
        if rng.random() < 0.45:
            ops.append(["mkgrp", "/", absname(t)])
            mir.mk(t, "G")
        else:
            ops.append(["set", "/", absname(t), rng.choice(VALUES)])
            mir.mk(t, "D")
    while len(ops) < nops:
        if ro == 1:
            # end of the read-only phase: really close and reopen, or (soft flavour) wrap the
            # same raw object in a new unrestricted MetadorContainer
            ops.append(["reopen", False, "acl" if ro_acl and rng.random() < 0.5 else "file"])
            ro, ro_acl = 0, False
            continue
        groups = mir.groups()
        cwd = list(rng.choice(groups)) if rng.random() < 0.5 else []
        if rng.random() < 0.02:
            cwd = [rng.choice(SEGS), "zz"]                    # missing group
        cwds = absname(cwd)
        existing = [list(p) for p in mir.nodes if p]
        annotated = [list(p) for p in mir.annotated()]

        def fresh():
            base = list(rng.choice(groups))
            return base + [rng.choice(SEGS) for _ in range(1 if rng.random() < 0.7 else 2)]

        def below(s):
            # a destination strictly below the source itself: directly, via new intermediate
            # groups, or inside one of its existing sub-groups
            inner = [list(g) for g in groups if len(g) > len(s) and list(g[:len(s)]) == s]
            base = rng.choice(inner) if inner and rng.random() < 0.5 else list(s)
            return base + [rng.choice(SEGS) for _ in range(1 if rng.random() < 0.5 else 2)]

        def fresh_or_reused(p_reuse):
            # a path where an annotated node lived earlier in this history (moved away or deleted)
            again = mir.free_again()
            return list(rng.choice(again)) if again and rng.random() < p_reuse else fresh()

        def some_existing():
            return rng.choice(existing) if existing and rng.random() < 0.94 else fresh()

        def some_annotated():
            return rng.choice(annotated) if annotated and rng.random() < 0.7 else some_existing()

        r = rng.random()
        op: Optional[list] = None
        upd = None
        if 0.20 <= r < 0.49 and not annotated and rng.random() < 0.6:
            continue        # delete / move / copy mostly once something carries metadata
        if r < 0.04 and not ro:
            if rng.random() < 0.45:
                ro_acl = rng.random() < 0.4
                op, ro = ["reopen", True, "acl" if ro_acl else "file"], rng.randint(3, 6)
                ops.append(op)
                continue
            op = ["reopen", False, "file"]
        elif r < 0.04 + p_bnd and not ro:
            op = ["bnd"]
        elif r < 0.17:
            t = fresh_or_reused(0.3)
            if rng.random() < 0.45:
                op = [rng.choice(["mkgrp", "mkgrp", "reqgrp"]), cwds, _spell(rng, cwd, t)]
                upd = lambda: mir.mk(t, "G")  # noqa: E731
            else:
                op = [rng.choice(["set", "set", "mkds", "reqds"]), cwds, _spell(rng, cwd, t), rng.choice(VALUES)]
                upd = lambda: mir.mk(t, "D")  # noqa: E731
        elif r < 0.20:
            if ro:
                continue        # require_* of an existing node succeeds on a read-only file
            t = some_existing()
            if rng.random() < 0.5:
                op = ["reqgrp", cwds, _spell(rng, cwd, t)]
                upd = lambda: mir.mk(t, "G")  # noqa: E731
            else:
                op = ["reqds", cwds, _spell(rng, cwd, t), rng.choice(VALUES)]
                upd = lambda: mir.mk(t, "D")  # noqa: E731
        elif r < 0.27:
            t = some_annotated()
            op = ["del", cwds, _spell(rng, cwd, t)]
            upd = lambda: mir.rm(t)  # noqa: E731
        elif r < 0.35:
            s, d = some_annotated(), fresh_or_reused(0.5)
            if d[:len(s)] == s:
                continue
            op = ["move", cwds, _spell(rng, cwd, s), _spell(rng, cwd, d)]
            upd = lambda: mir.cp(s, d, move=True)  # noqa: E731
        elif r < 0.44:
            if ro and not ro_acl:
                continue        # HDF5 attempts the write of a copy on a read-only file descriptor
            s, d = some_annotated(), fresh_or_reused(0.45)
            if rng.random() < 0.14:
                d = below(s)        # copy to a place below the source itself (move there stays excluded)
            wm = rng.random() < 0.35
            if cwd and (d[:len(cwd)] != cwd or (not wm and mir.nodes.get(tuple(s)) != "G")):
                # HDF5 checks an absolute destination relative to the calling group; the wrapper
                # itself passes the absolute sidecar paths of a dataset to the calling group's copy
                cwd, cwds = [], "/"
            op = ["copy", cwds, _spell(rng, cwd, s), "/".join(d[len(cwd):]) if cwd else _spell(rng, cwd, d), wm]
            upd = lambda: mir.cp(s, d, with_meta=not wm)  # noqa: E731
        elif r < 0.49:
            nonroot = [g for g in groups if g]
            if not nonroot or (ro and not ro_acl):
                continue
            s, dg = some_annotated(), list(rng.choice(nonroot))
            name = [rng.choice(SEGS)] if rng.random() < 0.7 else []
            again = [q for q in mir.free_again() if len(q) >= 2]
            if again and rng.random() < 0.4:
                q = list(rng.choice(again))
                dg, name = q[:-1], q[-1:]
            own = [list(g) for g in nonroot if list(g[:len(s)]) == s]
            if own and rng.random() < 0.15:
                dg = rng.choice(own)        # into the source group itself or one of its sub-groups
            d = dg + (name if name else s[-1:])
            wm = rng.random() < 0.35
            cwd, cwds = [], "/"
            op = ["copyinto", cwds, _spell(rng, cwd, s), absname(dg), name, wm]
            upd = lambda: mir.cp(s, d, with_meta=not wm)  # noqa: E731
        elif r < 0.52:
            t = some_existing() if rng.random() < 0.8 else []
            if rng.random() < 0.7:
                op = ["aset", cwds, _spell(rng, cwd, t) if t else "/", rng.choice(ATTR_KEYS), rng.choice(VALUES)]
            else:
                op = ["adel", cwds, _spell(rng, cwd, t) if t else "/", rng.choice(ATTR_KEYS)]
        elif r < 0.54:
            op = ["get", cwds, _spell(rng, cwd, some_existing())]
        elif r < 0.86:
            t = some_existing() if rng.random() < 0.92 else []
            have = {sc for (q, sc) in mir.meta if q == tuple(t)}
            q = rng.random()
            if q < 0.08 and have:
                sc = rng.choice(sorted(have))                   # duplicate
            elif q < 0.24:
                sc = rng.choice(BAD_EPS)
            else:
                cand = [s for s in GOOD_EPS if s not in have] or GOOD_EPS
                sc = rng.choice(cand)
            valid = rng.random() > 0.05
            v = "0" if sc == PERSON_EP else rng.choice(LABELS)
            op = ["sattach", absname(t), sc, v, valid]
            if sc in GOOD_EPS and valid and tuple(t) in mir.nodes:
                upd = lambda: mir.meta.add((tuple(t), sc))  # noqa: E731
        else:
            have = sorted(mir.meta)
            if have and rng.random() < 0.85:
                t, sc = rng.choice(have)
                upd = lambda: mir.meta.discard((t, sc))  # noqa: E731
            elif have and rng.random() < 0.6:
                # a schema that is in use elsewhere, at a node that does not carry it
                t, sc = tuple(some_existing()), rng.choice(have)[1]
            elif not have and rng.random() < 0.8:
                continue
            else:
                t, sc = tuple(some_existing()), rng.choice(GOOD_EPS + BAD_EPS[:1])
            op = ["detach", absname(list(t)), sc]
        if not ro and op[0] not in ("reopen", "bnd") and rng.random() < p_reserved:
            idx = {"copyinto": [2, 3], "move": [2, 3], "copy": [2, 3], "sattach": [1], "detach": [1]}.get(op[0], [2])
            op[rng.choice(idx)] = _reserved_path(rng, mir)
            upd = None
        if ro:
            ro -= 1
        elif upd is not None:
            upd()
        ops.append(op)
    return ops


def _subject(rng_or_none, base: List[str], name: str, kind: str, depth: int, eps: List[str], labels=None) -> List[list]:
    """Operations creating a dataset, or a group with metadata down to `depth` (1..3) levels below it,
    at base/name; the same call re-creates the identical structure later."""
    P = base + [name]
    lab = labels or LABELS
    if kind == "D":
        return [["set", "/", absname(P), "i:1"]] + [["sattach", absname(P), ep, lab[i % len(lab)], True] for i, ep in enumerate(eps[:2])]
    ops: List[list] = [["mkgrp", "/", absname(P + ["h", "i"][:max(0, depth - 1)])] if depth > 1 else ["mkgrp", "/", absname(P)]]
    nodes = [P + ["d"], P + ["h", "e"], P + ["h", "i", "f"]][:depth]
    for i, q in enumerate(nodes):
        ops.append(["set", "/", absname(q), f"i:{i}"])
    carriers = [P] + nodes + ([P + ["h"]] if depth > 1 else [])
    for i, q in enumerate(carriers):
        if i == 0 and len(eps) % 2 == 0:
            continue            # sometimes the group itself stays bare
        ops.append(["sattach", absname(q), eps[i % len(eps)], lab[i % len(lab)], True])
    return ops


def reuse_shapes(base: List[str], kind: str, depth: int, eps: List[str]) -> List[List[list]]:
    """Histories in which a node with metadata REAPPEARS at a path that held one before."""
    rel = lambda n: "/".join(base + [n])  # noqa: E731
    pre: List[list] = [["mkgrp", "/", absname(base)]] if base else []
    mk = lambda n: _subject(None, base, n, kind, depth, eps)  # noqa: E731
    H: List[List[list]] = []
    # away and back
    H.append(pre + mk("x") + [["move", "/", rel("x"), rel("y")], ["move", "/", rel("y"), rel("x")], ["reopen", False, "file"],
                              ["move", "/", rel("x"), rel("y")], ["del", "/", rel("y")]])
    # a -> b -> c -> a -> b
    H.append(pre + mk("x") + [["move", "/", rel("x"), rel("y")], ["move", "/", rel("y"), rel("A")], ["move", "/", rel("A"), rel("x")],
                              ["bnd"], ["move", "/", rel("x"), rel("y")], ["copy", "/", rel("y"), rel("A"), False], ["del", "/", rel("y")]])
    # a -> b, then copy b -> a with metadata; and once more onto the intermediate name
    H.append(pre + mk("x") + [["move", "/", rel("x"), rel("y")], ["copy", "/", rel("y"), rel("x"), False],
                              ["move", "/", rel("y"), rel("~t")], ["copy", "/", rel("x"), rel("y"), False], ["reopen", False, "file"],
                              ["del", "/", rel("x")]])
    # a -> b, copy b -> a WITHOUT metadata, attach afresh, copy with metadata elsewhere, move back over the old name
    H.append(pre + mk("x") + [["move", "/", rel("x"), rel("y")], ["copy", "/", rel("y"), rel("x"), True],
                              ["sattach", absname(base + ["x"]), eps[0], "2", True], ["del", "/", rel("x")],
                              ["move", "/", rel("y"), rel("x")], ["copy", "/", rel("x"), rel("y"), False]])
    # delete, re-create the same structure with the same schemas at the same path
    H.append(pre + mk("x") + [["del", "/", rel("x")]] + mk("x") + [["move", "/", rel("x"), rel("y")], ["copy", "/", rel("y"), rel("x"), False],
                                                                     ["del", "/", rel("y")], ["move", "/", rel("x"), rel("y")]])
    # swap two annotated nodes via a temporary name
    H.append(pre + mk("x") + _subject(None, base, "y", kind, min(depth, 1), list(reversed(eps)), ["2", "0", "1"])
             + [["move", "/", rel("x"), rel("tmp")], ["move", "/", rel("y"), rel("x")], ["move", "/", rel("tmp"), rel("y")],
                ["move", "/", rel("x"), rel("tmp")], ["move", "/", rel("y"), rel("x")], ["move", "/", rel("tmp"), rel("y")],
                ["reopen", False, "file"]])
    # copy into a group object under the name that was vacated
    H.append(pre + [["mkgrp", "/", absname(base + ["o"])]] + _subject(None, base + ["o"], "x", kind, depth, eps)
             + [["move", "/", rel("o/x"), rel("y")], ["copyinto", "/", rel("y"), absname(base + ["o"]), ["x"], False],
                ["del", "/", rel("y")], ["move", "/", rel("o/x"), rel("y")], ["copyinto", "/", rel("y"), absname(base + ["o"]), ["x"], True]])
    if kind == "G":
        # the same inside the moved group: a child goes away and comes back while the parent stays
        inner = "d" if depth == 1 else "h"
        H.append(pre + mk("x") + [["move", "/" + rel("x"), inner, "q"], ["move", "/" + rel("x"), "q", inner],
                                  ["move", "/", rel("x"), rel("y")], ["move", "/" + rel("y"), inner, "q"],
                                  ["copy", "/", rel("y") + "/q", rel("y") + "/" + inner, False], ["move", "/", rel("y"), rel("x")]])
    return H


def gen_reuse_history(rng) -> List[list]:
    """Random history over a handful of names in one group: an annotated dataset / group (metadata at
    depth 1..3) is moved, copied (with and without metadata), deleted and re-created, always
    preferring destinations that were occupied earlier in the same session."""
    base = rng.choice([[], ["b"], ["a", "c"]])
    kind = rng.choice(["D", "G", "G"])
    depth = rng.randint(1, 3)
    eps = rng.sample(GOOD_EPS[:4], rng.randint(2, 4))
    names = ["x", "y", "A", "~t"]
    rel = lambda n: "/".join(base + [n])  # noqa: E731
    ops: List[list] = ([["mkgrp", "/", absname(base)]] if base else []) + _subject(None, base, "x", kind, depth, eps)
    here = {"x"}            # names occupied by a (copy of the) subject
    used = ["x"]            # names that were occupied at some time
    for _ in range(rng.randint(3, 7)):
        free_used = [n for n in used if n not in here]
        free = [n for n in names if n not in here]
        r = rng.random()
        if not here:
            n = rng.choice(free_used or names)
            ops += _subject(None, base, n, kind, depth, eps)
            here.add(n)
            continue
        s = rng.choice(sorted(here))
        d = rng.choice(free_used) if free_used and rng.random() < 0.75 else (rng.choice(free) if free else None)
        if r < 0.08:
            ops.append(["reopen", False, "file"] if rng.random() < 0.6 else ["bnd"])
        elif r < 0.50 and d:
            ops.append(["move", "/", rel(s), rel(d)])
            here.discard(s)
            here.add(d)
        elif r < 0.78 and d:
            ops.append(["copy", "/", rel(s), rel(d), rng.random() < 0.25])
            here.add(d)
        elif r < 0.90:
            ops.append(["del", "/", rel(s)])
            here.discard(s)
        elif d:
            ops += _subject(None, base, d, kind, depth, eps)
            here.add(d)
        for n in here:
            if n not in used:
                used.append(n)
    return ops


def reuse_patterns() -> List[List[list]]:
    aa, bb, cc, dd = (ep_of(s) for s in (S_AA, S_BB, S_CC, S_DD))
    H: List[List[list]] = []
    H += reuse_shapes([], "D", 1, [bb, dd])
    H += reuse_shapes([], "G", 3, [aa, cc, bb])
    g1, g2, d2 = reuse_shapes(["b"], "G", 1, [bb, aa]), reuse_shapes(["b"], "G", 2, [cc, dd, aa, bb]), reuse_shapes(["a", "c"], "D", 1, [cc, aa])
    H += [g1[0], g1[2], g1[4], g2[1], g2[3], g2[5], g2[7], d2[1], d2[2]]
    return H


def pattern_histories() -> List[List[list]]:
    aa, bb, cc, dd, ff, pp, xx = (ep_of(s) for s in (S_AA, S_BB, S_CC, S_DD, S_FF, S_PP, S_XX))
    H: List[List[list]] = []
    H.append([["set", "/", "x", "i:1"], ["sattach", "/x", ff, "1", True]])
    H.append([["set", "/", "x", "i:1"], ["sattach", "/x", pp, "1", True]])
    H.append([["set", "/", "x", "i:1"], ["set", "/", "y", "i:2"], ["sattach", "/x", bb, "1", True],
              ["sattach", "/y", cc, "2", True], ["detach", "/x", bb], ["reopen", False, "file"]])
    H.append([["set", "/", "x", "i:1"], ["copy", "/", "x", "y", False]])
    H.append([["mkgrp", "/", "g/h"], ["set", "/", "g/d", "i:1"], ["set", "/", "g/h/e", "i:2"],
              ["sattach", "/g", aa, "0", True], ["sattach", "/g/d", bb, "1", True], ["sattach", "/g/h/e", cc, "2", True],
              ["sattach", "/g/h", PERSON_EP, "0", True], ["sattach", "/g/d", dd, "2", True],
              ["copy", "/", "g", "g2", False], ["bnd"], ["copy", "/", "g", "g3", True], ["copyinto", "/", "g/d", "/g3", ["dd"], False],
              ["move", "/", "g", "m"], ["reopen", False, "file"], ["move", "/m", "d", "d2"], ["del", "/", "m"], ["del", "/g2", "h"],
              ["del", "/", "g2"], ["del", "/", "g3"]])
    H.append([["set", "/", "x", "i:1"], ["mkgrp", "/", "g"], ["sattach", "/x", bb, "1", True], ["sattach", "/g", PERSON_EP, "0", True],
              ["reopen", True, "file"], ["sattach", "/x", cc, "1", True], ["sattach", "/g", bb, "1", True], ["detach", "/x", bb],
              ["del", "/", "x"], ["move", "/", "x", "z"], ["set", "/", "n", "i:1"], ["mkgrp", "/", "q"], ["aset", "/", "x", "k", "i:1"],
              ["get", "/", "x"], ["sattach", "/x", ff, "1", True], ["reopen", False, "file"], ["detach", "/x", bb], ["detach", "/g", PERSON_EP]])
    H.append([list(o) if o[0] != "reopen" else ["reopen", o[1], "acl"] for o in H[-1]] + [["copy", "/", "g", "g2", False]])
    H[-1].insert(6, ["copy", "/", "x", "x2", False])
    # failing attachments of every kind in a populated state, then clean-up of everything
    H.append([["set", "/", "x", "i:1"], ["sattach", "/x", aa, "0", True], ["sattach", "/x", aa, "1", True], ["sattach", "/x", xx, "1", True],
              ["sattach", "/x", NOPE_EP, "1", True], ["sattach", "/x", bb, "1", False], ["sattach", "/zz", bb, "1", True],
              ["sattach", "/x", ff, "1", True], ["sattach", "/x", pp, "1", True], ["sattach", "/", ff, "1", True],
              ["detach", "/x", bb], ["detach", "/x", aa], ["bnd"], ["sattach", "/", pp, "2", True]])
    # groups whose children carry metadata and sort on both sides of the "metador_meta_*" sidecars:
    # recursive destruction (delete) and stripping (copy without metadata) iterate the listing
    # while removing sidecars
    for names in (["A", "0d", "Mb", "x", "~t"], ["Mb", "y", "x"], ["0d", "a", "~t", "y"]):
        h: List[list] = [["mkgrp", "/", "g"]]
        for i, nm in enumerate(names):
            h.append(["set", "/g", nm, f"i:{i}"])
        for i, nm in enumerate(names):
            if not (len(names) == 5 and nm == "0d"):
                h.append(["sattach", "/g/" + nm, [aa, bb, cc, dd][i % 4], str(i % 3), True])
        H.append([list(o) for o in h] + [["del", "/", "g"]])
        h += [["copy", "/", "g", "g2", True], ["copy", "/", "g", "g3", False], ["mkgrp", "/", "o"], ["move", "/", "g3", "o/g4"],
              ["del", "/", "g"], ["del", "/", "g2"], ["del", "/", "o"]]
        H.append(h)
    # nested trees with BARE intermediate groups: metadata at several depths, none on the groups between
    nest = [["mkgrp", "/", "t/u/v/w"], ["set", "/", "t/u/v/w/e", "i:1"], ["set", "/", "t/u/k", "i:2"], ["mkgrp", "/", "t/u/v/z"],
            ["sattach", "/t", aa, "0", True], ["sattach", "/t/u/v/w/e", bb, "1", True], ["sattach", "/t/u/k", cc, "2", True],
            ["sattach", "/t/u/v/z", dd, "0", True]]
    H.append([list(o) for o in nest] + [["del", "/", "t"]])
    H.append([list(o) for o in nest] + [["copy", "/", "t", "t2", True], ["del", "/", "t2"], ["del", "/t", "u"]])
    H.append([list(o) for o in nest] + [["copy", "/", "t/u", "u2", False], ["move", "/", "t", "m/n"], ["reopen", False, "file"],
                                         ["del", "/m/n/u", "v"], ["del", "/", "u2"], ["del", "/", "m"]])
    H.append([["mkgrp", "/", "p/q"], ["set", "/", "p/q/e", "i:1"], ["sattach", "/p/q/e", aa, "0", True],
              ["copy", "/", "p", "p2", True], ["del", "/", "p"]])
    # children index chains
    H.append([["set", "/", "x", "i:1"], ["set", "/", "y", "i:2"], ["sattach", "/x", cc, "1", True], ["sattach", "/y", dd, "2", True],
              ["sattach", "/y", bb, "2", True], ["detach", "/x", cc], ["detach", "/y", bb], ["sattach", "/x", aa, "0", True],
              ["detach", "/y", dd], ["detach", "/x", aa]])
    H += reuse_patterns()
    # copies to places strictly below the source itself (a snapshot of the source is grafted): new
    # intermediate groups, an existing sub-group, into the own group object; with / without metadata
    for wm in (False, True):
        H.append([list(o) for o in nest] + [["copy", "/", "t", "t/n1/n2", wm], ["copy", "/", "t/u", "t/u/v/cp", wm],
                                             ["copyinto", "/", "t/u/v", "/t/u/v/w", ["in"], wm], ["copyinto", "/", "t", "/t", [], not wm],
                                             ["reopen", False, "file"], ["copy", "/", "t/n1", "t/n1/n2/t/again", False],
                                             ["move", "/", "t/u", "u3"], ["del", "/", "t"], ["del", "/", "u3"]])
    H.append([["set", "/", "x", "i:1"], ["sattach", "/x", aa, "0", True], ["copy", "/", "x", "x/y", False], ["copy", "/", "x", "x", False],
              ["mkgrp", "/", "g"], ["sattach", "/g", bb, "1", True], ["copy", "/", "g", "g/g", False], ["copy", "/", "g", "g/g", False],
              ["copy", "/", "g/g", "g/g/g/h", True], ["copy", "/g", "g", "g/k", False], ["del", "/g", "g"], ["del", "/", "g"]])
    return H
