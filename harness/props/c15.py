"""C15 — node restrictions cannot be escaped by navigating the container.

Correspondence: on a small fixed container (two groups, three datasets, HDF5 attributes and
metadata objects attached to a group and to a dataset), for both drivers (h5py.File and
IH5Record with a committed base plus an open patch), for every start node {container, group,
dataset} and each of the 8 flag combinations, every chain of navigation primitives up to the
tier's length is executed on the real wrappers (depth-first, sharing prefixes) and on the
extracted Gallina model (coq/Toc/Acl.v):

  navigation primitives: node[p] and node.get(p) with relative and absolute paths, parent,
  file, the nodes handed out by items(), values(), visititems callbacks, the return values
  of create_group / require_group / create_dataset / require_dataset, the results of
  node.metador.query(schema), restrict(flag).

Compared per step: refused / error / node, and for a node its path, kind and ``acl``.
On the nodes reached the operations of the group / dataset protocol, of ``attrs`` and of
``meta`` are attempted (all of them on every node of chains shorter than the maximum and on
the first node of every distinct (path, acl, last primitive) at maximal length, a witness
subset on all others) and their refusal class is compared with the model's guard table.

Oracle on the code alone (no model): with read_only among the start flags every reached
node reports read_only and every mutating operation is refused with an identical raw
(unwrapped) dump before and after; with skel_only no revealing operation returns; with
local_only every reached node's name lies at or below the start node, and ``file``,
``parent`` at the local root and absolute paths are refused; no step ever drops a flag.
Metadata listings: the primitives ``meta_node node|file|parent`` (terminal) are compared with the
model's PINNED rule nav_meta_pinned (the code hands out raw driver objects: recorded known
finding, refuted by C15_pinned_meta_node_refuted / _lo_refuted); the DEMANDED rule nav_meta is
what the closure theorems cover, and a step that follows it instead is reported in the notes.
Oracle (code alone): what the public metadata listings hand out -- ``.node`` of the
StoredMetadata items of ``meta.values()`` / ``meta.items()`` and its ``.file`` / ``.parent`` must lie
at or below a local_only start node, and no mutation may succeed through them below a
read_only start node (probe_meta; one canonical signature per escape, independent of driver,
start node, route and listing method).
"""
from __future__ import annotations

import json
import os
from typing import Any, Dict, List, Optional, Tuple

import vlib

SCHEMA = "core.person"      # attached in the fixed container
SCHEMA2 = "core.org"        # sacrificial schema for metadata set/delete attempts
SAC = "zsac"                # name of the sacrificial subtree (group + child dataset, both with metadata)

# ---------------------------------------------------------------------------- the fixed container

# (path, kind, carries SCHEMA)
# (path, kind, carries SCHEMA, carries any metadata object)
TREE0 = [
    (["g"], "g", True, True),
    (["g", "e"], "d", False, False),
    (["top"], "d", False, True),          # carries the permanent SCHEMA2 object
    (["g", "h"], "g", False, False),
    (["g", "h", "d"], "d", True, True),
]
STARTS = {"container": ([], "g"), "group": (["g"], "g"), "dataset": (["g", "h", "d"], "d")}
FLAGS = [(r, l, s) for r in (False, True) for l in (False, True) for s in (False, True)]
FLAG_NAMES = ("read_only", "local_only", "skel_only")
DRIVERS = ["hdf5", "ih5"]


def flag_kwargs(f) -> Dict[str, bool]:
    return {n: True for n, v in zip(FLAG_NAMES, f) if v}


def _abs(segs: List[str]) -> str:
    return "/" + "/".join(segs)


def parg_str(ab: bool, segs: List[str]) -> str:
    return _abs(segs) if ab else "/".join(segs)


# ---------------------------------------------------------------------------- alphabets

def _prims() -> List[list]:
    P: List[list] = []
    for r in (["h"], ["e"], ["h", "d"], ["d"], ["g"], ["top"], ["zn"]):
        P.append(["getitem", False, r])
    for a in ([], ["g", "h", "d"]):
        P.append(["getitem", True, a])
    for r in (["h"], ["nope"]):
        P.append(["get", False, r])
    for a in (["g", "h"],):
        P.append(["get", True, a])
    P.append(["parent"])
    P.append(["file"])
    for nm in ("h", "e", "d"):
        P.append(["items", nm])
    for nm in ("h", "d"):
        P.append(["values", nm])
    for r in (["h"], ["h", "d"], ["g", "e"]):
        P.append(["visit", r])
    P += [
        ["create_group", False, ["zn"]],
        ["create_group", False, ["h"]],
        ["require_group", False, ["h"]], ["require_group", False, ["zn"]],
        ["require_group", True, ["g"]], ["require_group", False, ["e"]],
        ["create_dataset", False, ["zd"]], ["create_dataset", False, ["e"]],
        ["require_dataset", False, ["e"]],
        ["require_dataset", True, ["top"]],
    ]
    for t in (["g"], ["g", "h", "d"], ["g", "h"], []):
        P.append(["query", t])
    for f in ((True, False, False), (False, True, False), (False, False, True)):
        P.append(["restrict", list(f)])
    # terminal: what the public metadata listing hands out (compared with the model's PINNED rule)
    for hop in ("node", "file", "parent"):
        P.append(["meta_node", hop])
    return P


PRIMS = _prims()
CREATORS = {"create_group", "require_group", "create_dataset", "require_dataset"}

ATTR_METHODS = ["keys", "values", "items", "get", "create", "modify", "update", "pop", "popitem",
                "clear", "setdefault", "get_id"]
DS_MEMBERS = ["resize", "make_scale", "write_direct", "flush", "get", "ndim"]
RO_FORBIDDEN = {"resize", "make_scale", "write_direct", "flush"}
ATTR_MUTATORS = {"create", "modify", "update", "pop", "popitem", "clear", "setdefault"}
ATTR_READERS = {"get", "values", "items"}


def _ops_for(kind: str, present: Dict[str, bool]) -> List[list]:
    O: List[list] = []
    if kind == "g":
        for g in ("create_group", "require_group", "create_dataset", "require_dataset", "setitem", "delitem"):
            O.append(["grp", g, False, ["zz"]])
            O.append(["grp", g, True, ["zz"]])
        for name in ("move", "copy"):
            O.append([name, False, ["zz"], False, ["zy"]])
            O.append([name, True, ["zz"], False, ["zy"]])
            O.append([name, False, ["zz"], True, ["zy"]])
        O.append(["copy_nodes"])
        O.append(["contains", False, ["h"]])
        O.append(["contains", True, ["g"]])
        O.append(["listing"])
        # users of the sacrificial subtree: the non-consuming one first, the deleting one last
        # (it has a name of its own, so that no other operation's preparation or clean-up touches it)
        plain = [["copy", False, ["zz"], False, ["zy"]], ["move", False, ["zz"], False, ["zy"]],
                 ["grp", "delitem", False, ["zz"]]]
        first = [["copy", False, [SAC], False, ["zy"]], ["move", False, [SAC], False, ["zy"]]]
        last = [["grp", "delitem", False, [SAC]]]
        O = first + [o for o in O if o not in plain] + last
    else:
        O.append(["ds_read"])
        O.append(["ds_write"])
        for m in DS_MEMBERS:
            O.append(["ds_member", m])
    for a in ("getitem", "setitem", "delitem", "contains", "iter", "len"):
        O.append(["attr", a])
    for m in ATTR_METHODS:
        O.append(["attr_method", m, bool(present.get(m, False))])
    for m in ("get", "getitem", "values", "items", "query_all", "setitem", "delitem", "keys", "len",
              "iter", "contains", "query"):
        O.append(["meta", m])
    return O


def op_is_mutating(op) -> bool:
    t = op[0]
    if t in ("grp", "move", "copy", "copy_nodes", "ds_write"):
        return True
    if t == "ds_member":
        return op[1] in RO_FORBIDDEN
    if t == "attr":
        return op[1] in ("setitem", "delitem")
    if t == "attr_method":
        return bool(op[2]) and op[1] in ATTR_MUTATORS
    if t == "meta":
        return op[1] in ("setitem", "delitem")
    return False


def op_is_revealing(op) -> bool:
    t = op[0]
    if t == "ds_read":
        return True
    if t == "attr":
        return op[1] == "getitem"
    if t == "attr_method":
        return bool(op[2]) and op[1] in ATTR_READERS
    if t == "meta":
        return op[1] in ("get", "getitem", "values", "items", "query_all")
    return False


def op_is_upward(op) -> bool:
    t = op[0]
    if t in ("grp",):
        return bool(op[2])
    if t == "contains":
        return bool(op[1])
    if t in ("move", "copy"):
        return bool(op[1]) or bool(op[3])
    return False


def op_is_witness(op) -> bool:
    """Cheap subset attempted on every reached node."""
    return (op[:2] in (["grp", "create_group"], ["grp", "setitem"], ["attr", "setitem"], ["attr", "getitem"],
                       ["meta", "setitem"], ["meta", "get"])
            or op[0] in ("ds_read", "ds_write", "contains") or op[:2] == ["attr_method", "items"])


# ---------------------------------------------------------------------------- impl side

class Env:
    """One raw container opened by one worker."""

    def __init__(self, driver: str, wd):
        import h5py
        from metador_core.container import MetadorContainer
        from metador_core.ih5.container import IH5Record
        from metador_core.plugins import schemas
        self.driver = driver
        self.Person = schemas.get(SCHEMA)
        self.Org = schemas.get(SCHEMA2)
        if driver == "hdf5":
            raw = h5py.File(str(wd / "c.h5"), "w")
            raw.create_group("g")
            raw["g/e"] = b"hello"
            raw["top"] = b"t"
            raw["g"].attrs["ga"] = 1
        else:
            raw = IH5Record(wd / "rec", "w")
            raw.create_group("g")
            raw["g/e"] = b"hello"
            raw["top"] = b"t"
            raw["g"].attrs["ga"] = 1
            raw.commit_patch()
            raw.create_patch()
        raw.create_group("g/h")
        raw["g/h/d"] = [1, 2, 3]
        raw["g/h/d"].attrs["da"] = 2
        mc = MetadorContainer(raw)
        mc["g"].meta[SCHEMA] = self.Person(name="Jane")
        mc["g/h/d"].meta[SCHEMA] = self.Person(name="Joe")
        mc["top"].meta[SCHEMA2] = self.Org(name="Keep")   # keeps SCHEMA2 registered (cheap set/delete attempts)
        self.raw = raw
        a = raw["g"].attrs
        self.present = {m: hasattr(a, m) for m in ATTR_METHODS}

    def close(self):
        try:
            self.raw.close()
        except Exception:  # noqa: BLE001
            pass

    def fingerprint(self):
        """Cheap exact state fingerprint: the bytes of the container file(s) after a flush.
        Equal bytes = equal raw content; unequal bytes are confirmed with `dump` by the caller."""
        import hashlib
        try:
            if self.driver == "hdf5":
                self.raw.flush()
                paths = [self.raw.filename]
            else:
                for f in self.raw.__files__:
                    f.flush()
                paths = [str(p) for p in self.raw.ih5_files]
            h = hashlib.sha1()
            for p in paths:
                with open(p, "rb") as fh:
                    h.update(fh.read())
            return h.digest()
        except Exception:  # noqa: BLE001
            return repr(self.dump())

    def dump(self) -> List[Any]:
        """Raw (unwrapped) content: every node with kind, value and attributes."""
        out = []

        def enc(v):
            try:
                import numpy as np
                if isinstance(v, np.ndarray):
                    return "arr:" + v.dtype.str + ":" + v.tobytes().hex()
                if isinstance(v, (bytes, np.bytes_)):
                    return "b:" + bytes(v).hex()
            except Exception:  # noqa: BLE001
                pass
            return repr(v)

        def attrs_of(n):
            return sorted((k, enc(n.attrs[k])) for k in n.attrs.keys())

        def visit(name, node):
            if hasattr(node, "ndim"):
                out.append((name, "d", enc(node[()]), attrs_of(node)))
            else:
                out.append((name, "g", None, attrs_of(node)))

        self.raw.visititems(visit)
        out.append(("", "g", None, attrs_of(self.raw["/"])))
        out.sort(key=lambda x: x[0])
        return out


class Session:
    """One MetadorContainer wrapper over the raw container plus an unrestricted handle bound
    to the same wrapper (obtained before any restriction), and the start node."""

    def __init__(self, env: Env, start: str, flags):
        from metador_core.container import MetadorContainer
        self.env = env
        self.W = MetadorContainer(env.raw)
        self.U = self.W["/"]
        path, _ = STARTS[start]
        kw = flag_kwargs(flags)
        if start == "container":
            self.node = self.W.restrict(**kw)
        else:
            self.node = self.W[_abs(path)].restrict(**kw)


def is_refusal(e: BaseException) -> bool:
    from metador_core.container.wrappers import UnsupportedOperationError
    if isinstance(e, UnsupportedOperationError):
        return True
    return isinstance(e, ValueError) and "local_only" in str(e)


def node_obs(n) -> Tuple[List[str], str, Tuple[bool, bool, bool]]:
    from metador_core.container.interface import NodeAcl
    from metador_core.container.wrappers import MetadorDataset
    acl = n.acl
    segs = [s for s in n.name.split("/") if s]
    return (segs, "d" if isinstance(n, MetadorDataset) else "g",
            (bool(acl[NodeAcl.read_only]), bool(acl[NodeAcl.local_only]), bool(acl[NodeAcl.skel_only])))


def _cached(cache: Optional[dict], key: str, fn):
    """Listing-type calls are made once per node and shared by the primitives selecting from them."""
    if cache is None:
        return fn()
    if key not in cache:
        try:
            cache[key] = ("ok", fn())
        except vlib.CaseTimeout:
            raise
        except Exception as e:  # noqa: BLE001
            cache[key] = ("exc", e)
    st, v = cache[key]
    if st == "exc":
        raise v
    return v


def meta_obs(obj) -> Tuple[List[str], str, Tuple[bool, bool, bool]]:
    """Abstraction of an object handed out by a metadata listing: the path of the data node the
    metadata path belongs to (paths of metadata objects / directories are identified with the
    node they describe), its kind, and its flags (a raw object of the driver has none)."""
    from metador_core.container.wrappers import MetadorNode
    segs = [x for x in str(obj.name).split("/") if x]
    for i, sg in enumerate(segs):
        if sg.startswith("metador_meta_"):
            suffix = sg[len("metador_meta_"):]
            segs = segs[:i] + ([suffix] if suffix else [])
            break
    kind = "d" if hasattr(obj, "ndim") else "g"
    if isinstance(obj, MetadorNode):
        return (segs, kind, node_obs(obj)[2])
    return (segs, kind, (False, False, False))


def apply_prim(env: Env, node, prim, as_lookup: bool = False, cache: Optional[dict] = None):
    """-> ("O", node) | ("R", msg) | ("E", msg) | ("U", msg: a raw unwrapped node was returned)"""
    from metador_core.container.wrappers import MetadorNode
    t = prim[0]
    try:
        if t in CREATORS and as_lookup:
            res = node[parg_str(prim[1], prim[2])]
        elif t == "getitem":
            res = node[parg_str(prim[1], prim[2])]
        elif t == "get":
            res = node.get(parg_str(prim[1], prim[2]))
        elif t == "parent":
            res = node.parent
        elif t == "file":
            res = node.file
        elif t == "items":
            res = _cached(cache, "items", lambda: dict(node.items())).get(prim[1])
        elif t == "values":
            res = _cached(cache, "values", lambda: {v.name.split("/")[-1]: v for v in node.values()}).get(prim[1])
        elif t == "visit":
            def collect():
                acc = {}
                node.visititems(lambda name, x: acc.__setitem__(name, x))
                return acc
            res = _cached(cache, "visit", collect).get("/".join(prim[1]))
        elif t == "create_group":
            res = node.create_group(parg_str(prim[1], prim[2]))
        elif t == "require_group":
            res = node.require_group(parg_str(prim[1], prim[2]))
        elif t == "create_dataset":
            res = node.create_dataset(parg_str(prim[1], prim[2]), data=1)
        elif t == "require_dataset":
            p = parg_str(prim[1], prim[2])
            tgt = _abs(prim[2]) if prim[1] else (node.name.rstrip("/") + "/" + "/".join(prim[2]))
            shape, dtype, data = (), "i8", 1
            try:
                ex = env.raw[tgt] if tgt in env.raw else None
            except Exception:  # noqa: BLE001
                ex = None
            if ex is not None and hasattr(ex, "ndim"):
                v = ex[()]
                import numpy as np
                arr = np.asarray(v)
                shape, dtype, data = arr.shape, arr.dtype, v
            res = node.require_dataset(p, shape=shape, dtype=dtype, data=data)
        elif t == "query":
            res = _cached(cache, "query", lambda: {x.name: x for x in node.metador.query(SCHEMA)}).get(_abs(prim[1]))
        elif t == "restrict":
            res = node.restrict(**flag_kwargs(prim[1]))
        elif t == "meta_node":
            objs = _cached(cache, "meta_values", lambda: list(node.meta.values()))
            if not objs:
                return ("E", "no metadata objects")
            res = objs[0].node
            if prim[1] == "file":
                res = res.file
            elif prim[1] == "parent":
                res = res.parent
            return ("O", res)      # raw or wrapped: observed with meta_obs
        else:
            raise RuntimeError(f"unknown primitive {prim}")
    except vlib.CaseTimeout:
        raise
    except Exception as e:  # noqa: BLE001
        return ("R" if is_refusal(e) else "E", f"{type(e).__name__}: {e}"[:160])
    if isinstance(res, MetadorNode):
        return ("O", res)
    if res is not None and hasattr(res, "attrs") and hasattr(res, "name"):
        # a raw (unwrapped) group / dataset / file of the driver was handed out
        return ("U", f"unwrapped {type(res).__name__} {getattr(res, 'name', '?')}")
    return ("E", f"no node: {type(res).__name__}")


def _raw_del(env: Env, path: str):
    try:
        if path in env.raw:
            del env.raw[path]
    except Exception:  # noqa: BLE001
        pass


def _raw_attr_del(env: Env, path: str, key: str):
    try:
        a = env.raw[path].attrs
        if key in a:
            del a[key]
    except Exception:  # noqa: BLE001
        pass


def _make_sacrifice(env: Env, sess: Session, full: str):
    """A nested group with metadata on itself and on a child dataset (delete / move / copy target)."""
    U = sess.U
    U.create_group(full)
    U[full + "/c"] = 1
    U[full].meta[SCHEMA2] = env.Org(name="SacG")
    U[full + "/c"].meta[SCHEMA2] = env.Org(name="SacC")


def _drop_sacrifice(env: Env, sess: Session, full: str):
    try:
        if full in env.raw:
            del sess.U[full]          # wrapper-level delete: metadata and TOC links go too
    except Exception:  # noqa: BLE001
        _raw_del(env, full)


def run_op(env: Env, sess: Session, node, op, check_state: bool = False, logical: bool = False,
           keep: Optional[set] = None, rich: bool = True):
    """Attempt one protocol operation on the node; every effect of a passing operation is
    undone through the raw container (or, for metadata, through the unrestricted handle of
    the same wrapper).  -> ("refused" | "passed", detail, state changed by a refused op?)

    With `check_state` the raw state right before the operation proper (after the harness's own
    preparation: sacrificial children, attributes, metadata) is compared with the state right
    after a refusal, before any clean-up: by file bytes first, confirmed by a second execution
    with full raw dumps (`logical`).  `keep`: the sacrificial subtree is left in place for the
    next operation of the suite (its paths are collected there; the suite drops them)."""
    raw = env.raw
    name = node.name
    base = name.rstrip("/")
    t = op[0]
    cleanup: List[Any] = []
    pre: List[Any] = []

    def snap():
        return env.dump() if logical else env.fingerprint()

    def mark():
        if check_state:
            pre.append(snap())

    def tgt(ab, segs):
        return _abs(segs) if ab else base + "/" + "/".join(segs)

    detail = ""
    try:
        if t == "grp":
            g, ab, segs = op[1], op[2], op[3]
            p, full = parg_str(ab, segs), tgt(ab, segs)
            if g == "delitem" and not ab and segs == [SAC] and rich:
                if keep is None:
                    cleanup.append(lambda: _drop_sacrifice(env, sess, full))
                else:
                    keep.add(full)
                if full not in raw:
                    _make_sacrifice(env, sess, full)
            else:
                cleanup.append(lambda: _raw_del(env, full))
                if g == "delitem":
                    raw[full] = 1
            mark()
            if g == "create_group":
                node.create_group(p)
            elif g == "require_group":
                node.require_group(p)
            elif g == "create_dataset":
                node.create_dataset(p, data=1)
            elif g == "require_dataset":
                node.require_dataset(p, shape=(), dtype="i8", data=1)
            elif g == "setitem":
                node[p] = 1
            elif g == "delitem":
                del node[p]
        elif t in ("move", "copy"):
            pa, fa = parg_str(op[1], op[2]), tgt(op[1], op[2])
            pb, fb = parg_str(op[3], op[4]), tgt(op[3], op[4])
            if not op[1] and not op[3] and op[2] == [SAC] and rich:
                cleanup.append(lambda: _drop_sacrifice(env, sess, fb))
                if keep is None:
                    cleanup.append(lambda: _drop_sacrifice(env, sess, fa))
                else:
                    keep.add(fa)
                if fa not in raw:
                    _make_sacrifice(env, sess, fa)
            else:
                cleanup.append(lambda: (_raw_del(env, fa), _raw_del(env, fb)))
                raw[fa] = 1
            mark()
            if t == "move":
                node.move(pa, pb)
            else:
                node.copy(pa, pb)
        elif t == "copy_nodes":
            fa, fb = base + "/zz", base + "/zy"
            cleanup.append(lambda: (_raw_del(env, fa), _raw_del(env, fb)))
            raw[fa] = 1
            src = sess.U[fa]
            mark()
            node.copy(src, "zy")                 # a node object as the source argument
        elif t == "contains":
            _ = parg_str(op[1], op[2]) in node
        elif t == "listing":
            list(node.keys())
            len(node)
            list(iter(node))
            node.visit(lambda n: None)
        elif t == "ds_read":
            v = node[()]
            detail = "value"
            del v
        elif t == "ds_write":
            v0 = raw[name][()]

            def restore():
                try:
                    raw[name][()] = v0
                except Exception:  # noqa: BLE001
                    pass
            cleanup.append(restore)
            import numpy as np
            v1 = (np.asarray(v0) + 1) if np.asarray(v0).dtype.kind in "iu" else b"other"
            mark()
            node[()] = v1
        elif t == "ds_member":
            mark()
            getattr(node, op[1])
        elif t == "attr":
            a = node.attrs
            which = op[1]
            if which == "getitem":
                raw[name].attrs["zk"] = 7
                cleanup.append(lambda: _raw_attr_del(env, name, "zk"))
                _ = a["zk"]
                detail = "value"
            elif which == "setitem":
                cleanup.append(lambda: _raw_attr_del(env, name, "zn"))
                mark()
                a["zn"] = 1
            elif which == "delitem":
                raw[name].attrs["zk"] = 7
                cleanup.append(lambda: _raw_attr_del(env, name, "zk"))
                mark()
                del a["zk"]
            elif which == "contains":
                _ = "ga" in a
            elif which == "iter":
                list(iter(a))
            elif which == "len":
                len(a)
        elif t == "attr_method":
            mark()
            getattr(node.attrs, op[1])
        elif t == "meta":
            which = op[1]
            un = sess.U[name] if name != "/" else sess.U

            have = list(un.meta.keys())
            sac, Sac = (SCHEMA2, env.Org) if SCHEMA2 not in have else (SCHEMA, env.Person)
            if sac in have:
                raise RuntimeError("no sacrificial schema available at " + name)

            def drop2():
                try:
                    um = un.meta
                    if sac in list(um.keys()):
                        del um[sac]
                except Exception:  # noqa: BLE001
                    pass
            m = node.meta
            if which == "get":
                r = m.get(have[0] if have else SCHEMA)
                detail = "value" if r is not None else ""
            elif which == "getitem":
                r = m[have[0] if have else SCHEMA]
                detail = "value"
            elif which == "values":
                list(m.values())
                detail = "value"
            elif which == "items":
                list(m.items())
                detail = "value"
            elif which == "query_all":
                list(m.query())
                detail = "value"
            elif which == "setitem":
                cleanup.append(drop2)
                mark()
                m[sac] = Sac(name="Sac")
            elif which == "delitem":
                cleanup.append(drop2)
                un.meta[sac] = Sac(name="Sac")
                m = node.meta
                mark()
                del m[sac]
            elif which == "keys":
                list(m.keys())
            elif which == "len":
                len(m)
            elif which == "iter":
                list(iter(m))
            elif which == "contains":
                _ = SCHEMA in m
            elif which == "query":
                list(m.query(SCHEMA))
        else:
            raise RuntimeError(f"unknown op {op}")
        res = "passed"
    except vlib.CaseTimeout:
        raise
    except Exception as e:  # noqa: BLE001
        res = "refused" if is_refusal(e) else "passed"
        detail = f"{type(e).__name__}: {e}"[:120]
    changed = None
    try:
        if check_state and res == "refused" and op_is_mutating(op):
            changed = (snap() != pre[-1]) if pre else False
    finally:
        for c in cleanup:
            c()
    if changed and not logical:
        # file bytes differ: confirm on the raw content with a second execution (fresh sacrifice)
        for full in list(keep or ()):
            _drop_sacrifice(env, sess, full)
        return run_op(env, sess, node, op, check_state=True, logical=True, keep=keep, rich=rich)
    return res, detail, changed


META_HOPS = [["values", "node"], ["values", "file"], ["values", "parent"], ["items", "node"], ["items", "file"]]
LO_META_CLAIM = ("an item of meta.values()/items() of a node below a local_only start node yields an object "
                 "above/outside the local root")
RO_META_CLAIM = ("a mutation succeeds through an object yielded by an item of meta.values()/items() of a node "
                 "below a read_only start node")


def probe_meta(env: Env, node, try_write: bool) -> List[list]:
    """`.node` of the StoredMetadata items a node's meta listing hands out, and `.node.file` /
    `.node.parent`: -> per META_HOPS entry [status, name, wrote] with status in
    refused | none | raw | wrapped | err."""
    out = []
    listing: Dict[str, Any] = {}
    for via, hop in META_HOPS:
        try:
            if via not in listing:
                try:
                    m = node.meta
                    listing[via] = ("ok", list(m.values()) if via == "values" else [v for _, v in m.items()])
                except vlib.CaseTimeout:
                    raise
                except Exception as e:  # noqa: BLE001
                    listing[via] = ("refused" if is_refusal(e) else "err", f"{type(e).__name__}: {e}"[:100])
            st, objs = listing[via]
            if st != "ok":
                out.append([st, "", False])
                continue
            if not objs:
                out.append(["none", "", False])
                continue
            obj = objs[0].node
            if hop == "file":
                obj = obj.file
            elif hop == "parent":
                obj = obj.parent
            from metador_core.container.wrappers import MetadorNode
            status = "wrapped" if isinstance(obj, MetadorNode) else "raw"
            name = str(getattr(obj, "name", "?"))
            wrote = False
            if try_write:
                base = name.rstrip("/")
                try:
                    if hasattr(obj, "ndim"):
                        obj.attrs["zz_escaped"] = 1
                        wrote = "zz_escaped" in env.raw[name].attrs
                    else:
                        obj.create_group("zz_escaped")
                        wrote = (base + "/zz_escaped") in env.raw
                except vlib.CaseTimeout:
                    raise
                except Exception:  # noqa: BLE001
                    wrote = False
                if wrote:
                    if hasattr(obj, "ndim"):
                        _raw_attr_del(env, name, "zz_escaped")
                    else:
                        _raw_del(env, base + "/zz_escaped")
            out.append([status, name, wrote])
        except vlib.CaseTimeout:
            raise
        except Exception as e:  # noqa: BLE001
            out.append(["refused" if is_refusal(e) else "err", f"{type(e).__name__}: {e}"[:100], False])
    return out


def claims_meta(flags, start_path, hop_result) -> List[str]:
    """The property's statements about what a metadata listing hands out."""
    status, name, wrote = hop_result
    probs = []
    if status not in ("raw", "wrapped"):
        return probs
    segs = [x for x in name.split("/") if x]
    if flags[1] and segs[:len(start_path)] != list(start_path):
        probs.append(LO_META_CLAIM)
    if flags[0] and wrote:
        probs.append(RO_META_CLAIM)
    return probs


def run_suite(env: Env, sess: Session, node, ops: List[list], baseline, only=None, rich: bool = True):
    """Attempt the operations (all, or those selected by `only`) and compare the raw dump
    with the baseline.  -> (results per op ('-' = not attempted), new baseline, state problems)"""
    results = []
    early: List[Dict[str, Any]] = []
    keep: set = set()
    for op in ops:
        if only is not None and not only(op):
            results.append("-")
            continue
        r, _, changed = run_op(env, sess, node, op, check_state=baseline is not None, keep=keep, rich=rich)
        results.append(r)
        if changed:
            early.append({"op": op, "outcome": r, "state_changed": True})
    for full in keep:
        _drop_sacrifice(env, sess, full)
    if baseline is None:
        return results, None, []
    after = env.dump()
    problems = list(early)
    if after != baseline:
        # find the culprit(s) by re-running one by one
        cur = after
        for op, r in zip(ops, results):
            if r == "-":
                continue
            r2 = run_op(env, sess, node, op)[0]
            nxt = env.dump()
            if nxt != cur:
                if not any(q["op"] == op for q in problems):
                    problems.append({"op": op, "outcome": r2, "state_changed": True})
                cur = nxt
        if len(problems) == len(early):
            problems.append({"op": None, "outcome": "?", "state_changed": True})
        after = cur
    return results, after, problems


def witness_selector(flags, kind: str):
    """On nodes that do not get the full suite: one cheap operation per claim of the start flags."""
    want = []
    if flags[0]:
        want.append(["grp", "create_group", False, ["zz"]] if kind == "g" else ["ds_write"])
    if flags[2]:
        want.append(["attr_method", "items", True])
        if kind == "d":
            want.append(["ds_read"])
    if flags[1] and kind == "g":
        want.append(["contains", True, ["g"]])
    return (lambda op: op in want) if want else None


def config_ops(env: Env) -> Dict[str, List[list]]:
    return {"g": _ops_for("g", env.present), "d": _ops_for("d", env.present)}


class Sessions:
    """Hands out wrappers for replays.  One MetadorContainer wrapper is shared between the
    replays that never restrict the wrapper object itself (restrict mutates in place); a
    replay that does gets a private wrapper."""

    def __init__(self, env: Env, start: str, flags):
        self.env, self.start, self.flags = env, start, flags
        self.shared: Optional[Session] = None

    def fresh(self, private: bool = False) -> Session:
        if private:
            return Session(self.env, self.start, self.flags)
        if self.shared is None:
            self.shared = Session(self.env, self.start, self.flags)
        s = self.shared
        t = Session.__new__(Session)
        t.env, t.W, t.U = s.env, s.W, s.U
        if self.start == "container":
            t.node = s.W            # carries exactly the start flags: nothing ever restricts a shared wrapper
        else:
            t.node = t.W[_abs(STARTS[self.start][0])].restrict(**flag_kwargs(self.flags))
        return t


def replay_chain(env: Env, pool: Sessions, chain: List[list], then_restrict: bool = False, private: bool = False):
    """Fresh wrapper objects, same chain (creating steps become lookups of what exists already).
    `then_restrict`: the caller is going to apply restrict to the node returned."""
    sess = pool.fresh(private)
    node = sess.node
    for prim in list(chain) + ([["restrict", None]] if then_restrict else []):
        if prim[0] == "restrict" and node is sess.W and not private:
            return replay_chain(env, pool, chain, then_restrict, private=True)
        if prim[1:] == [None]:
            break
        st, res = apply_prim(env, node, prim, as_lookup=True)
        if st != "O":
            return sess, None
        node = res
    return sess, node


def w_explore(task) -> Dict[str, Any]:
    """task = (driver, start, flags, maxlen, slice index, slice count, sampling spec, seed)."""
    driver, start, flags, maxlen, sl, nsl, sample, seed = task
    suite_by_prim = driver == "hdf5"
    import random
    rng = random.Random(f"{seed}/{driver}/{start}/{flags}/{sl}")
    import time as _t
    t_start = _t.time()
    out: Dict[str, Any] = {"task": [driver, start, list(flags), sl], "recs": [], "error": None,
                           "suites": 0, "witness_suites": 0, "steps": 0, "state_drift": 0}
    try:
        with vlib.workdir("c15") as wd, vlib.time_limit(1500):
            env = Env(driver, wd)
            try:
                OPS = config_ops(env)
                out["present"] = env.present
                state = {"baseline": env.dump()}
                seen_full = set()
                pool = Sessions(env, start, flags)

                def explore(sess: Session, node, chain: List[list], depth: int):
                    rec = {"chain": chain, "fan": []}
                    out["recs"].append(rec)
                    cache: dict = {}
                    prims = list(enumerate(PRIMS))
                    if depth == 0 and nsl > 1:
                        prims = [x for x in prims if x[0] % nsl == sl]
                    for idx, prim in prims:
                        s2, n2 = sess, node
                        if prim[0] == "restrict":
                            s2, n2 = replay_chain(env, pool, chain, then_restrict=True)
                            if n2 is None:
                                rec["fan"].append([idx, "X", "replay failed"])
                                continue
                        undo = None
                        if prim[0] in CREATORS:
                            base = n2.name.rstrip("/")
                            segs = prim[2]
                            full = segs if prim[1] else [s for s in base.split("/") if s] + segs
                            for i in range(1, len(full) + 1):
                                p = _abs(full[:i])
                                try:
                                    exists = p in env.raw
                                except Exception:  # noqa: BLE001
                                    exists = True
                                if not exists:
                                    undo = p
                                    break
                        st, res = apply_prim(env, n2, prim, cache=cache)
                        out["steps"] += 1
                        if st != "O":
                            rec["fan"].append([idx, st, res])
                            if undo is not None:
                                _raw_del(env, undo)
                                state["baseline"] = None
                            continue
                        if undo is not None:
                            state["baseline"] = None        # the tree has grown
                        if prim[0] == "meta_node":
                            segs, kind, acl = meta_obs(res)
                            rec["fan"].append([idx, "O", segs, kind, list(acl), None, [], None])
                            continue
                        segs, kind, acl = node_obs(res)
                        item: List[Any] = [idx, "O", segs, kind, list(acl)]
                        nchain = chain + [prim]
                        last = depth + 1 >= maxlen
                        key = (kind, acl, prim[0] if suite_by_prim else None)
                        full_suite = (depth == 0 and suite_by_prim) or key not in seen_full
                        seen_full.add(key)
                        if full_suite:
                            if state["baseline"] is None:
                                state["baseline"] = env.dump()
                            # the metadata-bearing sacrificial subtree matters where refusals are expected
                            results, b2, problems = run_suite(env, s2, res, OPS[kind], state["baseline"],
                                                              rich=bool(flags[0] or acl[0]))
                            state["baseline"] = b2
                            out["suites"] += 1
                            item_meta = probe_meta(env, res, bool(flags[0]))
                        else:
                            item_meta = None
                            sel = witness_selector(flags, kind)
                            if sel is None:
                                results, problems = ["-"] * len(OPS[kind]), []
                            else:
                                results, _, problems = run_suite(env, s2, res, OPS[kind], None, only=sel)
                            out["witness_suites"] += 1
                        if problems:
                            out["state_drift"] += 1
                        item.append(results)
                        item.append(problems)
                        item.append(item_meta)
                        rec["fan"].append(item)
                        if not last:
                            go = True
                            if sample is not None and depth + 1 >= sample[0]:
                                go = rng.random() < sample[1]
                            if go:
                                explore(s2, res, nchain, depth + 1)
                        if undo is not None:
                            _raw_del(env, undo)
                            state["baseline"] = None

                sess0 = Session(env, start, flags)      # never shared with replays
                segs, kind, acl = node_obs(sess0.node)
                results, b2, problems = run_suite(env, sess0, sess0.node, OPS[kind], state["baseline"],
                                                  rich=bool(flags[0] or acl[0]))
                state["baseline"] = b2
                out["start"] = [segs, kind, list(acl), results, problems,
                                probe_meta(env, sess0.node, bool(flags[0]))]
                out["suites"] += 1
                explore(sess0, sess0.node, [], 0)
                out["wall"] = _t.time() - t_start
            finally:
                env.close()
    except Exception as e:  # noqa: BLE001
        import traceback
        out["error"] = f"{type(e).__name__}: {e}\n{traceback.format_exc()[-1500:]}"
    return out


# ---------------------------------------------------------------------------- single-case oracle (replay / shrinking)

def eval_case(case: Dict[str, Any]) -> Dict[str, Any]:
    """Run one chain (+ optionally one operation) on a fresh container and evaluate the
    property's claims on the code alone.  case = {driver, start, flags, chain, op?}."""
    driver, start, flags, chain = case["driver"], case["start"], tuple(case["flags"]), case["chain"]
    op = case.get("op")
    res: Dict[str, Any] = {"problems": [], "trace": []}
    with vlib.workdir("c15r") as wd, vlib.time_limit(120):
        env = Env(driver, wd)
        try:
            sess = Session(env, start, flags)
            node = sess.node
            start_path = STARTS[start][0]
            prev_acl = node_obs(node)[2]
            last_raw = None
            for i, prim in enumerate(chain):
                st, r = apply_prim(env, node, prim)
                if st == "U":
                    last_raw = _raw_result(node, prim)
                if st != "O":
                    res["trace"].append([prim, st, r])
                    res["stopped"] = i
                    if st == "U" and any(flags):
                        res["problems"].append(RAW_CLAIM)
                    node = None
                    break
                node = r
                segs, kind, acl = node_obs(node)
                res["trace"].append([prim, "O", _abs(segs), kind, list(acl)])
                res["problems"] += claims_node(flags, start_path, prev_acl, segs, acl, prim)
                prev_acl = acl
            if res["problems"] and case.get("demo"):
                res["demo"] = _demo_write(env, node if node is not None else last_raw)
            if node is not None and op is not None and op[0] == "meta_node":
                hops = probe_meta(env, node, bool(flags[0]))
                got = hops[META_HOPS.index(list(op[1:3]))]
                res["op"] = [op, got]
                res["problems"] += claims_meta(flags, start_path, got)
            elif node is not None and op is not None:
                before = env.dump()
                out, detail, changed = run_op(env, sess, node, op, check_state=True, logical=True)
                after = env.dump()
                res["op"] = [op, out, detail, {"state_changed_by_refused_op": bool(changed),
                                               "state_differs_after_cleanup": before != after}]
                res["problems"] += claims_op(flags, op, out, bool(changed) or before != after)
        finally:
            env.close()
    return res


REFUSED_CHANGED_CLAIM = "refused operation changed the raw container"
RAW_CLAIM = "navigation from a restricted node handed out a raw (unwrapped, unrestricted) object"


def _raw_result(node, prim):
    try:
        return node.parent if prim[0] == "parent" else node.file if prim[0] == "file" else None
    except Exception:  # noqa: BLE001
        return None


def _demo_write(env: Env, obj) -> str:
    """What the escape is worth: try to create a group through the object reached."""
    if obj is None or hasattr(obj, "ndim"):
        return "no group-like object to write through"
    before = env.dump()
    try:
        obj.create_group("zz_escaped")
    except Exception as e:  # noqa: BLE001
        return f"create_group on the object reached: {type(e).__name__}: {e}"[:200]
    changed = env.dump() != before
    return f"create_group('zz_escaped') on the object reached SUCCEEDED (raw container changed: {changed})"


def claims_node(flags, start_path, prev_acl, segs, acl, prim) -> List[str]:
    """The property's statements about a node reached by one more step."""
    probs = []
    names = ("read_only", "local_only", "skel_only")
    for i, nm in enumerate(names):
        if flags[i] and not acl[i]:
            probs.append(f"node reached from a {nm} start node is not {nm}")
        if prev_acl[i] and not acl[i]:
            probs.append(f"step {prim[0]} removed the restriction {nm}")
    if flags[1] and segs[:len(start_path)] != list(start_path):
        probs.append("node reached from a local_only start node lies above/outside it: " + _abs(segs))
    return probs


def claims_op(flags, op, outcome: str, state_changed: bool) -> List[str]:
    """The property's statements about one operation attempted on a node reached from a start
    node with `flags`."""
    probs = []
    if flags[0] and op_is_mutating(op):
        if outcome != "refused":
            probs.append("mutating operation not refused below a read_only start node")
        if state_changed and outcome != "refused":
            probs.append("raw container changed by an operation below a read_only start node")
    if flags[2] and op_is_revealing(op) and outcome != "refused":
        probs.append("revealing operation not refused below a skel_only start node")
    if flags[1] and op_is_upward(op) and outcome != "refused":
        probs.append("operation with an absolute path not refused below a local_only start node")
    if outcome == "refused" and state_changed:
        probs.append(REFUSED_CHANGED_CLAIM)
    return probs


def w_eval(case):
    try:
        return eval_case(case)
    except Exception as e:  # noqa: BLE001
        return {"problems": [], "error": f"{type(e).__name__}: {e}"[:300]}


# ---------------------------------------------------------------------------- model side

def enc_prim(p) -> list:
    return list(p)


def model_start(start: str, flags) -> list:
    path, kind = STARTS[start]
    return [path, kind, list(flags)]


def decode_navres(x):
    """-> ("R"|"E",) or ("O", segs, kind, flags)"""
    if x == "R" or x == "E":
        return (x,)
    tag, n = x
    segs, kind, fl, _stack = n
    return ("O", list(segs), kind, tuple(b == "T" for b in fl))


def canon_sig(case: Dict[str, Any]) -> Dict[str, Any]:
    """Signature of a shrunk failing case: primitive kinds in order (with absolute/relative),
    start kind, the start flags that matter, operation kind, and the failing claim."""
    if case.get("op") and case["op"][0] == "meta_node":
        # the same escape whatever the driver, the start node, the route and the listing method
        return {"escape": "meta-listing-node", "claim": case.get("claim")}
    if case.get("claim") == REFUSED_CHANGED_CLAIM:
        # the same defect whatever the start node and the route to the node
        return {"escape": "refused-op-changed-state", "op": case["op"][:2] if case.get("op") else None}
    return {
        "start": case["start"],
        "chain": [[p[0]] + ([bool(p[1])] if len(p) == 3 else []) + ([p[1]] if p[0] == "restrict" else [])
                  for p in case["chain"]],
        "op": (case["op"][:2] if case.get("op") else None),
        "claim": case.get("claim"),
    }


# ---------------------------------------------------------------------------- main

def run(ctx: vlib.Ctx):
    proof = ctx.check_proofs()
    cov = ctx.coverage
    cov["trusted_base"] = vlib.TRUSTED_COMMON + [
        "modelled, not verified: HDF5 / IH5 path lookup and create/require semantics on the fixed container "
        "(coq/Toc/Acl.v tree_create / tree_require / lookup; compared step by step with h5py.File and IH5Record), "
        "wrapt.ObjectProxy attribute dispatch (__getattr__ only for names not defined on the proxy classes), "
        "which methods the raw attribute manager offers (passed to the model as the `present` bit per method)",
        "the repaired rules for `parent` below a local root and for `file` (model = repaired behaviour; "
        "pinned rules kept as nav1_pinned and refuted in Properties/C15.v)",
        "refusal = UnsupportedOperationError, or ValueError naming local_only (harness classification)",
    ]
    # chain length and sampling per driver: (max length, (from this length on a node's fan is explored with probability p))
    # IH5 path resolution is ~40x slower than h5py, the wrapper code under test is the same for both drivers.
    plan = {
        "hdf5": (3, None) if ctx.quick else (4, (3, 0.10)),
        "ih5": (2, (1, 0.1)) if ctx.quick else (3, (2, 0.1)),
    }
    nslices = {"hdf5": 4, "ih5": 2}
    tasks = [(d, s, f, plan[d][0], sl, nslices[d], plan[d][1], ctx.seed)
             for d in DRIVERS for s in STARTS for f in FLAGS for sl in range(nslices[d])]
    # biggest first (unrestricted configurations branch most)
    tasks.sort(key=lambda t: (t[0] != "ih5", sum(t[2]), t[1] == "dataset"))
    import time as _t
    t0 = _t.time()
    outs = vlib.pmap(w_explore, tasks)
    vlib.log(f"c15: explored {len(tasks)} tasks in {_t.time() - t0:.1f}s; slowest: "
             + str(sorted(((round(o.get('wall', 0), 1), o['task']) for o in outs), reverse=True)[:4])
             + " cpu-seconds per driver: "
             + str({d: round(sum(o.get('wall', 0) for o in outs if o['task'][0] == d)) for d in DRIVERS})
             + " slowest hdf5: " + str(max((round(o.get('wall', 0), 1), o['task']) for o in outs if o['task'][0] == 'hdf5')))

    disagreements: List[Dict[str, Any]] = []
    candidates: List[Dict[str, Any]] = []       # oracle failures (code alone)
    errors = [o["error"] for o in outs if o.get("error")]
    if errors:
        raise RuntimeError("worker failed: " + errors[0])

    # ---- model: one nav case per explored node, one guard case per (driver, kind, flags)
    nav_cases, nav_index = [], []
    tree_sx = [[p, k, m, o] for (p, k, m, o) in TREE0]
    fan_all = [enc_prim(p) for p in PRIMS]
    for oi, o in enumerate(outs):
        driver, start, flags, sl = o["task"]
        for ri, rec in enumerate(o["recs"]):
            nav_cases.append(["nav", tree_sx, model_start(start, flags), [enc_prim(p) for p in rec["chain"]], fan_all])
            nav_index.append((oi, ri))
    t0 = _t.time()
    nav_res = vlib.run_model("c15", nav_cases)
    vlib.log(f"c15: model ran {len(nav_cases)} nav cases in {_t.time() - t0:.1f}s")
    present_by_driver = {}
    for o in outs:
        present_by_driver.setdefault(o["task"][0], o["present"])
    guard_cases, guard_key = [], []
    for d in DRIVERS:
        for k in ("g", "d"):
            ops = _ops_for(k, present_by_driver[d])
            for f in FLAGS:
                guard_cases.append(["guard", k, list(f), ops])
                guard_key.append((d, k, f))
    guard_res = vlib.run_model("c15", guard_cases)
    gtable = {key: res for key, res in zip(guard_key, guard_res)}
    opsets = {(d, k): _ops_for(k, present_by_driver[d]) for d in DRIVERS for k in ("g", "d")}

    evals = 0
    reached = set()
    dist = {"steps": 0, "nodes_reached": 0, "refused_steps": 0, "error_steps": 0, "op_attempts": 0,
            "ops_refused": 0, "full_suites": sum(o["suites"] for o in outs),
            "witness_suites": sum(o["witness_suites"] for o in outs), "by_len": {}}

    def note_dis(d):
        if len(disagreements) < 40:
            disagreements.append(d)

    def check_ops(driver, start, flags, chain, kind, mflags, results, problems, node_ok=True):
        nonlocal evals
        ops = opsets[(driver, kind)]
        want = gtable[(driver, kind, tuple(mflags))] if mflags is not None else None
        for i, (op, got) in enumerate(zip(ops, results)):
            if got == "-":
                continue
            evals += 1
            dist["op_attempts"] += 1
            dist["ops_refused"] += got == "refused"
            if want is not None and want[i] != "na" and want[i] != got:
                note_dis({"kind": "op", "driver": driver, "start": start, "flags": flags, "chain": chain,
                          "op": op, "model": want[i], "impl": got})
            for pr in (claims_op(flags, op, got, False) if node_ok else []):
                candidates.append({"driver": driver, "start": start, "flags": list(flags), "chain": chain,
                                   "op": op, "claim": pr})
        for p in problems:
            if p.get("op") is not None:
                for pr in claims_op(flags, p["op"], p["outcome"], True):
                    candidates.append({"driver": driver, "start": start, "flags": list(flags), "chain": chain,
                                       "op": p["op"], "claim": pr})

    def check_meta(driver, start, flags, chain, hops):
        nonlocal evals
        if hops is None:
            return
        for (via, hop), got in zip(META_HOPS, hops):
            evals += 1
            dist["meta_listing_probes"] = dist.get("meta_listing_probes", 0) + 1
            for pr in claims_meta(flags, STARTS[start][0], got):
                candidates.append({"driver": driver, "start": start, "flags": list(flags), "chain": chain,
                                   "op": ["meta_node", via, hop], "claim": pr})

    for o in outs:
        driver, start, flags, sl = o["task"]
        if sl == 0:
            segs, kind, acl, results, problems, hops = o["start"]
            check_meta(driver, start, flags, [], hops)
            if tuple(acl) != tuple(flags) or segs != STARTS[start][0]:
                note_dis({"kind": "start", "driver": driver, "start": start, "flags": flags, "impl": [segs, acl]})
            check_ops(driver, start, flags, [], kind, tuple(flags), results, problems)

    for (oi, ri), mres in zip(nav_index, nav_res):
        o = outs[oi]
        driver, start, flags, sl = o["task"]
        rec = o["recs"][ri]
        chain = rec["chain"]
        final, fan, _tree = mres
        mfinal = decode_navres(final)
        if mfinal[0] != "O":
            note_dis({"kind": "chain", "driver": driver, "start": start, "flags": flags, "chain": chain,
                      "model": mfinal[0], "impl": "O"})
            continue
        start_path = STARTS[start][0]
        # acl of the node the fan starts from, as the model sees it (for the monotonicity claim)
        for item in rec["fan"]:
            idx, st = item[0], item[1]
            prim = PRIMS[idx]
            evals += 1
            dist["steps"] += 1
            L = str(len(chain) + 1)
            dist["by_len"][L] = dist["by_len"].get(L, 0) + 1
            if prim[0] == "meta_node":
                # compared with the PINNED rule (known finding); the DEMANDED rule is what a repair must give
                pinned, demanded = decode_navres(fan[idx][1]), decode_navres(fan[idx][2])
                impl = (st,) if st != "O" else ("O", item[2], item[3], tuple(item[4]))
                if impl == pinned:
                    dist["meta_steps_pinned_rule"] = dist.get("meta_steps_pinned_rule", 0) + 1
                elif impl == demanded:
                    dist["meta_steps_demanded_rule"] = dist.get("meta_steps_demanded_rule", 0) + 1
                else:
                    note_dis({"kind": "meta-step", "driver": driver, "start": start, "flags": flags,
                              "chain": chain + [prim], "model_pinned": list(pinned),
                              "model_demanded": list(demanded), "impl": list(impl)})
                continue
            m = decode_navres(fan[idx])
            if st == "X":
                note_dis({"kind": "replay", "driver": driver, "start": start, "flags": flags, "chain": chain + [prim]})
                continue
            if st != "O":
                dist["refused_steps" if st == "R" else "error_steps"] += 1
                if m[0] != st:
                    note_dis({"kind": "step", "driver": driver, "start": start, "flags": flags,
                              "chain": chain + [prim], "model": list(m), "impl": [st, item[2]]})
                if st == "U" and any(flags):
                    candidates.append({"driver": driver, "start": start, "flags": list(flags),
                                       "chain": chain + [prim], "op": None, "claim": RAW_CLAIM})
                continue
            _, _, segs, kind, acl, results, problems, hops = item
            dist["nodes_reached"] += 1
            reached.add((driver, start, tuple(flags), json.dumps(chain + [prim])))
            impl = ("O", segs, kind, tuple(acl))
            if m != impl:
                note_dis({"kind": "step", "driver": driver, "start": start, "flags": flags,
                          "chain": chain + [prim], "model": list(m), "impl": list(impl)})
            # oracle on the code alone
            for pr in claims_node(flags, start_path, (False, False, False), segs, tuple(acl), prim):
                candidates.append({"driver": driver, "start": start, "flags": list(flags),
                                   "chain": chain + [prim], "op": None, "claim": pr})
            if flags[1] and prim[0] == "file":
                candidates.append({"driver": driver, "start": start, "flags": list(flags),
                                   "chain": chain + [prim], "op": None,
                                   "claim": "file not refused below a local_only start node"})
            node_ok = all(a or not f for a, f in zip(acl, flags)) and \
                (not flags[1] or segs[:len(start_path)] == list(start_path))
            check_ops(driver, start, flags, chain + [prim], kind, m[3] if m[0] == "O" else None, results, problems,
                      node_ok)
            if node_ok:
                check_meta(driver, start, flags, chain + [prim], hops)

    # monotonicity along steps on the code alone: compare every reached node with its predecessor
    acl_of: Dict[Tuple, Tuple] = {}
    for o in outs:
        driver, start, flags, sl = o["task"]
        acl_of[(driver, start, tuple(flags), "[]")] = tuple(flags)
        for rec in o["recs"]:
            for item in rec["fan"]:
                if item[1] == "O":
                    acl_of[(driver, start, tuple(flags), json.dumps(rec["chain"] + [PRIMS[item[0]]]))] = tuple(item[4])
    for o in outs:
        driver, start, flags, sl = o["task"]
        for rec in o["recs"]:
            prev = acl_of.get((driver, start, tuple(flags), json.dumps(rec["chain"])))
            if prev is None:
                continue
            for item in rec["fan"]:
                if item[1] != "O" or PRIMS[item[0]][0] == "meta_node":
                    continue
                acl = item[4]
                for i, nm in enumerate(FLAG_NAMES):
                    if prev[i] and not acl[i]:
                        candidates.append({"driver": driver, "start": start, "flags": list(flags),
                                           "chain": rec["chain"] + [PRIMS[item[0]]], "op": None,
                                           "claim": f"step {PRIMS[item[0]][0]} removed the restriction {nm}"})

    # ---- confirm, shrink and report oracle failures (one per root cause)
    by_group: Dict[str, Dict[str, Any]] = {}
    order = sorted(candidates, key=lambda c: (c["op"] is not None, not c["claim"].startswith("step "),
                                              len(c["chain"]), sum(c["flags"]), [-int(x) for x in c["flags"]],
                                              c["driver"]))
    for c in order:
        if c["op"] and c["op"][0] == "meta_node":
            k = json.dumps([c["claim"]])
        else:
            k = json.dumps([c["claim"], c["chain"][-1][0] if c["chain"] else None, c["op"][:2] if c["op"] else None])
        by_group.setdefault(k, c)
    kept: List[Dict[str, Any]] = []
    seen_sig = set()

    def kinds(c):
        return [p[0] for p in c["chain"]]

    def contains(cc, kk):
        return any(cc[i:i + len(kk)] == kk for i in range(len(cc) - len(kk) + 1))

    for c in list(by_group.values())[:80]:
        # derived from an escape already reported?  (same or longer chain through the same steps)
        if any(k["op"] is None and contains(kinds(c), kinds(k)) for k in kept):
            for k in kept:
                if k["op"] is None and contains(kinds(c), kinds(k)) and c["claim"] not in k["also"]:
                    k["also"].append(c["claim"])
            continue
        small = shrink_case(c)
        if small is None:
            ctx.notes.append(f"oracle candidate not reproduced alone: {c}")
            continue
        if any(k["op"] is None and contains(kinds(small), kinds(k)) for k in kept):
            continue
        s_ = vlib.signature(canon_sig(small))
        if s_ in seen_sig:
            continue
        seen_sig.add(s_)
        small["also"] = []
        kept.append(small)
    for c in kept:
        ctx.violation(
            f"{c['claim']}: driver={c['driver']} start={c['start']} flags={flag_kwargs(c['flags'])} "
            f"chain={[p[0] for p in c['chain']]} op={c['op']}"
            + (f" (consequences seen: {c['also'][:4]})" if c["also"] else ""),
            {"kind": "escape", **c}, sig_obj=canon_sig(c))

    # ---- cross-check extraction on a sample
    step = max(1, len(nav_cases) // 25)
    xc_cases = nav_cases[::step][:25] + guard_cases[:6]
    xc_res = nav_res[::step][:25] + guard_res[:6]
    xc = vlib.coq_crosscheck("c15", xc_cases, xc_res, "c15", max_cases=31)
    if not xc["ok"] and "inconsistent assumptions" in xc.get("log", ""):
        # another check rebuilt a library under our feet: rebuild and try once more
        vlib.ensure_built(need=["Properties/C15.vo"])
        xc = vlib.coq_crosscheck("c15", xc_cases, xc_res, "c15", max_cases=31)

    # ---- coverage
    for i in (5, len(nav_cases) // 2):
        if i < len(nav_cases):
            ctx.sample({"case": nav_cases[i][2:4], "model_final": nav_res[i][0],
                        "model_fan_head": nav_res[i][1][:4]})
    ctx.sample({"guard_case": guard_cases[9][:3], "ops_head": guard_cases[9][3][:5], "model": guard_res[9][:5]})
    cov["evaluations"] = evals
    cov["distinct_nontrivial"] = len(reached)
    cov["rule"] = ("an evaluation is one navigation step or one attempted operation compared with the model; "
                   "distinct non-trivial = distinct (driver, start node, flags, chain) whose every step yielded a node "
                   "(chain length >= 1)")
    cov["exhaustive"] = False
    cov["exhaustive_part"] = "hdf5: all chains up to length 3; ih5: all chains up to length 2; longer chains sampled"
    cov["input_distribution"] = {
        "drivers": DRIVERS, "starts": list(STARTS), "flag_combinations": len(FLAGS),
        "primitives": len(PRIMS),
        "plan": {d: {"max_chain_length": plan[d][0],
                     "sampling": None if plan[d][1] is None else
                     f"nodes reached by chains of length >= {plan[d][1][0]} are expanded with p={plan[d][1][1]}"}
                 for d in DRIVERS},
        "ops_group": len(opsets[("hdf5", "g")]), "ops_dataset": len(opsets[("hdf5", "d")]), **dist,
        "state_drift_suites": sum(o["state_drift"] for o in outs),
        "explored_internal_nodes": len(nav_cases),
    }
    if dist.get("meta_steps_demanded_rule"):
        ctx.notes.append(
            f"metadata listings follow the model's DEMANDED rule (nav_meta) on {dist['meta_steps_demanded_rule']} steps and "
            f"the PINNED rule (nav_meta_pinned) on {dist.get('meta_steps_pinned_rule', 0)}: the known finding looks repaired -- "
            "mark its known_findings.json entries fixed; C15_ro/lo/so_closed then cover this primitive on the code too")
    cov["coq_crosscheck"] = xc
    cov["disagreements"] = len(disagreements)
    cov["observations"] = observations()
    ctx.assumptions += [
        "segment names are ASCII without '/' and never start with 'metador_' (reserved names are C08's subject)",
        "the container is not modified by anyone else while a chain runs",
    ]

    if not xc["ok"]:
        ctx.violation("extracted runner and in-Coq evaluation of the model disagree (stale or wrong extraction)",
                      {"kind": "crosscheck", "xc": xc}, found_input=False)
    if not proof["ok"]:
        ctx.violation("proof obligations of Properties/C15.v do not check: " + "; ".join(proof["problems"])[:500],
                      {"kind": "proof", "theorem_file": "coq/Properties/C15.v", "problems": proof["problems"]},
                      found_input=False)
    if disagreements and not ctx.violations and not ctx.known_hits:
        ctx.violation("model/implementation correspondence broken but the property oracle found no failing input",
                      {"kind": "correspondence",
                       "correspondence": "coq/Toc/Acl.v run_c15 (nav1 / guard) vs metador_core.container.wrappers",
                       "smallest_disagreement": min(disagreements, key=lambda d: len(d.get("chain", []))),
                       "count": len(disagreements)},
                      found_input=False)
    elif disagreements:
        first = min(disagreements, key=lambda d: len(d.get("chain", [])))
        ctx.notes.append(f"{len(disagreements)} model/impl disagreements (shortest: {first})")


def still_fails(case: Dict[str, Any]) -> Optional[Dict[str, Any]]:
    """Evaluate a single case on a fresh container; returns the evaluation if the case's claim
    (or any claim, when none is named) fails."""
    ev = eval_case(case)
    probs = ev.get("problems", [])
    if case.get("claim"):
        return ev if case["claim"] in probs else None
    return ev if probs else None


def shrink_case(c: Dict[str, Any]) -> Optional[Dict[str, Any]]:
    base = {k: c[k] for k in ("driver", "start", "flags", "chain", "op", "claim")}
    ev = still_fails(base)
    if ev is None:
        return None
    chain = list(base["chain"])
    if chain and still_fails({**base, "chain": []}) is not None:
        chain = []
    if len(chain) > 1:
        def fails(sub):
            return still_fails({**base, "chain": sub}) is not None
        chain = vlib.ddmin(chain, fails, budget=30)
    # drop start flags that are not needed
    flags = list(base["flags"])
    for i in range(3):
        if flags[i]:
            trial = list(flags)
            trial[i] = False
            if still_fails({**base, "chain": chain, "flags": trial}) is not None:
                flags = trial
    small = {**base, "chain": chain, "flags": flags}
    ev = still_fails(small)
    if ev is None:
        small, ev = base, still_fails(base)
    small["evaluation"] = ev
    return small


def observations() -> List[str]:
    """Members outside the group/dataset protocol that the restrictions do not cover
    (recorded, not counted as violations)."""
    obs = []
    try:
        with vlib.workdir("c15o") as wd, vlib.time_limit(120):
            env = Env("hdf5", wd)
            try:
                sess = Session(env, "dataset", (True, True, True))
                d = sess.node
                import numpy as np
                try:
                    v = np.array(d)
                    obs.append(f"numpy.array(skel_only dataset) yields the content via __array__: {v.tolist()}")
                except Exception as e:  # noqa: BLE001
                    obs.append(f"numpy.array(skel_only dataset): {type(e).__name__}")
                try:
                    obs.append(f"iter(skel_only dataset) yields elements via ObjectProxy.__iter__: {[int(x) for x in d]}")
                except Exception as e:  # noqa: BLE001
                    obs.append(f"iter(skel_only dataset): {type(e).__name__}")
                for nm in ("read_direct", "asstr", "astype", "fields", "id", "ref", "dims"):
                    try:
                        getattr(d, nm)
                        obs.append(f"h5py-only dataset member `{nm}` passes through on a fully restricted dataset")
                    except Exception:  # noqa: BLE001
                        pass
                try:
                    w = d.__wrapped__
                    obs.append(f"__wrapped__ hands out the raw {type(w).__name__} (documented soft restriction)")
                except Exception:  # noqa: BLE001
                    pass
                sess2 = Session(env, "group", (True, True, False))
                try:
                    sm = next(iter(sess2.node.meta.values()))
                    obs.append("meta.values() of a read_only+local_only node returns StoredMetadata whose `.node` is the raw "
                               f"{type(sm.node).__name__} {sm.node.name} (its .file/.parent are unrestricted raw objects)")
                except Exception as e:  # noqa: BLE001
                    obs.append(f"meta.values(): {type(e).__name__}")
                try:
                    env.raw["g/zq"] = 1
                    lo_g = Session(env, "group", (False, True, False)).node
                    before = "zq2" in env.raw["g"]
                    try:
                        lo_g.copy(sess.U["g/zq"], lo_g, name="zq2")
                        outcome = "succeeded"
                    except Exception as e:  # noqa: BLE001
                        outcome = f"raised {type(e).__name__}: {e}"[:110]
                    after = "zq2" in env.raw["g"]
                    obs.append("copy(source node, DESTINATION GROUP OBJECT) on a local_only (not read_only) group "
                               f"{outcome}; /g/zq2 exists before={before} after={after} (the raw copy is done before "
                               "`self[dst_path]` is looked up with an absolute path)")
                except Exception as e:  # noqa: BLE001
                    obs.append(f"copy with destination object probe: {type(e).__name__}: {e}"[:160])
                try:
                    sess2.node.metador.source
                    obs.append("node.metador (TOC interface) of a restricted node exposes source / driver / schemas of the container")
                except Exception:  # noqa: BLE001
                    pass
            finally:
                env.close()
    except Exception as e:  # noqa: BLE001
        obs.append(f"observation probe failed: {type(e).__name__}: {e}"[:200])
    return obs


def replay(rep) -> int:
    """Re-evaluate the recorded failing case on the current tree; exit 1 if it still fails."""
    vlib._pool_init()
    if rep.get("kind") != "escape":
        print("replay names a proof obligation or correspondence; re-run the check itself")
        return 1
    case = {k: rep[k] for k in ("driver", "start", "flags", "chain", "op", "claim")}
    case["demo"] = True
    ev = eval_case(case)
    for t in ev.get("trace", []):
        print("step", t)
    if "op" in ev:
        print("op", ev["op"])
    if "demo" in ev:
        print("demo:", ev["demo"])
    probs = ev.get("problems", [])
    bad = (case["claim"] in probs) if case.get("claim") else bool(probs)
    print("\n".join(probs) if probs else "no claim of the property fails")
    print("still failing" if bad else "no longer failing")
    return 1 if bad else 0
