"""C19 — directory hashsums identify directory content.

Correspondence: generated directory trees (files, in-directory symlinks spelled relatively,
with detours, through the parent and absolutely, symlinks to files and to directories,
dangling links, empty and nested directories, out-of-directory links of several kinds) are
materialised on disk in random creation order with random mtimes under different base names;
the real `dir_hashsums` is compared with the extracted Gallina model (coq/Util/DirHash.v).
The model's digest of a file is the file content itself; the harness substitutes
`<alg>:` + hashlib one-shot digest, which is also the check of the "standard digest with
algorithm prefix" claim.  The read loop of `hashsum` is compared with the model's `chunks`
through recording streams / a recording hash object, for sizes around every block boundary.

Oracle evaluated on the code alone (no model): equal trees => equal hashsum dicts (whatever
spelling, order, mtimes, location), any single edit => different dicts, any outside link =>
ValueError, every file entry = prefix + hashlib digest; plus an exhaustive small domain on
which "dicts equal <=> trees equal" is checked over all pairs.

Process-level state (memoisation, module-level caches) is a failure class of its own for
"independent of creation order, timestamps": inside ONE worker process one directory path goes
through a sequence of states — hashed, hashed again unchanged (absolute, relative, other
algorithm), every single edit applied in place with all mtimes/atimes put back and sizes kept
for content flips, undone again, all bytes changed with sizes kept, removed and rebuilt at the
same path, and the same relative path under another working directory — and after every step
the result must be what that content demands (hashlib / model / previous step).

Symlink chains (links to links, link texts through symlinked directories, loops, chains that
leave the directory through a link lying outside and come back) are compared with the realpath
model coq/Util/DirHashChain.v (entry c19c); the oracle judges them on their FINAL trees
(`final_of_spec`, whose result is itself compared with the model's skeleton).  Trees produced by
`gen_tree`/`gen_edits` stay chain-free and are compared with the lexical model.
"""
from __future__ import annotations

import copy
import hashlib
import io
import itertools
import json
import os
from pathlib import Path
from typing import Any, Dict, List, Optional, Tuple

import gentie
import vlib

ALGS = ["sha256", "sha512"]
BLOCK = {"sha256": 64, "sha512": 128}          # hashlib block sizes = read sizes of `hashsum`
SIZES_QUICK = [0, 1, 2, 63, 64, 65, 127, 128, 129, 191, 192, 193, 255, 256, 257,
               4095, 4096, 4097, 8191, 8192, 8193, 65535, 65536, 65537]
SIZES_MORE = [16383, 16384, 16385, 131071, 131072, 131073, 1048575, 1048576, 1048577]
MODEL_MAX = 70000                               # larger contents: code vs hashlib only
TL = 60                                         # per-call time limit (s), CPU is contended
OUT_KINDS = ["file", "dir", "file-in-dir", "dangling", "sibling-prefix", "sibling-file",
             "parent", "root", "abs-file", "abs-dir", "far-up"]
OUT_CLASS = {"chain": "chain-end", "loop": "loop", "file": "file", "file-in-dir": "file", "sibling-file": "file", "abs-file": "file",
             "dir": "dir", "sibling-prefix": "dir", "parent": "dir", "root": "dir", "abs-dir": "dir",
             "far-up": "dir", "dangling": "dangling"}
BASENAMES = ["base", "b", "data dir", "x.y", "Base-2"]
NAME_POOL = ["a", "b", "c", "d", "f", "g", "sub", "dir", "x.txt", "a.b", ".hid", "...", " sp ace",
             "sha256:0", "symlink:f", "\xfct\xb5", "nl\nx", "-", "_", "data", "A", "B", "0", "f.", "~"]

# ------------------------------------------------------------------ abstract trees
# node = ("f", bytes) | ("l", ("in", path-tuple)) | ("l", ("out", kind)) | ("d", {name: node})


def F(b: bytes):
    return ("f", bytes(b))


def D(d=None):
    return ("d", dict(d or {}))


def LIN(p):
    return ("l", ("in", tuple(p)))


def LOUT(kind: str):
    return ("l", ("out", kind))


def walk(T, pre=()):
    for k, n in T[1].items():
        yield pre + (k,), n
        if n[0] == "d":
            yield from walk(n, pre + (k,))


def lookup(T, path):
    n = T
    for s in path:
        if n[0] != "d" or s not in n[1]:
            return None
        n = n[1][s]
    return n


def pdict(T, path) -> Dict[str, Any]:
    return lookup(T, path[:-1])[1]


def has_outside(T) -> bool:
    return any(n[0] == "l" and n[1][0] == "out" for _, n in walk(T))


def chain_free(T) -> bool:
    """No in-directory link target ends at or passes through another symlink."""
    for _, n in walk(T):
        if n[0] == "l" and n[1][0] == "in":
            p = n[1][1]
            for i in range(1, len(p) + 1):
                m = lookup(T, p[:i])
                if m is None or m[0] == "f":
                    break
                if m[0] == "l":
                    return False
    return True


def node_kind(T, n) -> str:
    if n is None:
        return "absent"
    if n[0] == "f":
        return "file"
    if n[0] == "d":
        return "dir"
    if n[1][0] == "out":
        return "link-outside-" + n[1][1]
    p = n[1][1]
    if p == ():
        return "link-to-base"
    m = lookup(T, p)
    return {"f": "link-to-file", "d": "link-to-dir", "l": "link-to-link"}.get(m[0] if m else "", "link-dangling")


def diff_kinds(A, B, pre=()) -> List[List[str]]:
    """Node kinds at the topmost paths where two trees differ."""
    out = []
    da, db = lookup(A, pre)[1], lookup(B, pre)[1]
    for k in sorted(set(da) | set(db)):
        a, b = da.get(k), db.get(k)
        if a == b:
            continue
        if a is not None and b is not None and a[0] == "d" and b[0] == "d":
            out += diff_kinds(A, B, pre + (k,))
        else:
            out.append(sorted([node_kind(A, a), node_kind(B, b)]))
    return sorted(out)


def tree_json(n) -> Any:
    if n[0] == "f":
        return ["f", n[1].decode("latin-1")]
    if n[0] == "l":
        return ["l", n[1][0], list(n[1][1]) if n[1][0] == "in" else n[1][1]]
    return ["d", [[k, tree_json(v)] for k, v in sorted(n[1].items())]]


def tree_unjson(x):
    if x[0] == "f":
        return F(x[1].encode("latin-1"))
    if x[0] == "l":
        return LIN(x[2]) if x[1] == "in" else LOUT(x[2])
    return D({k: tree_unjson(v) for k, v in x[1]})


def remove_paths(T, keep: set):
    """Sub-tree with only the entries in `keep` and their ancestors."""
    keep_all = set()
    for p in keep:
        for i in range(1, len(p) + 1):
            keep_all.add(p[:i])

    def go(n, pre):
        if n[0] != "d":
            return n
        return D({k: go(v, pre + (k,)) for k, v in n[1].items() if pre + (k,) in keep_all})
    return go(T, ())


# ------------------------------------------------------------------ concretisation (spelling, order, mtimes)

def spell(rng, loc: Tuple[str, ...], tgt, basename: str) -> Tuple[str, str]:
    """Link text for a link lying in directory `loc` (relative to the base). Returns (text, style)."""
    up_root = "../" * len(loc)
    if tgt[0] == "out":
        k = tgt[1]
        out = "../" * (len(loc) + 1)
        text = {
            "file": out + "out.txt", "dir": out + "outd", "file-in-dir": out + "outd/inner.txt",
            "dangling": out + "nonexist-out", "sibling-prefix": out + basename + "x",
            "sibling-file": out + basename + "x/f.txt", "parent": "/".join([".."] * (len(loc) + 1)),
            "root": "/", "abs-file": "@W@/out.txt", "abs-dir": "@W@/outd/", "far-up": "../" * 40 + "..",
        }[k]
        return text, "out-" + k
    p = list(tgt[1])
    style = rng.choice(["rel", "rel", "rel-root", "detour", "via-parent", "abs", "abs-detour"])
    if style == "rel":
        k = 0
        while k < len(loc) and k < len(p) and loc[k] == p[k]:
            k += 1
        segs = [".."] * (len(loc) - k) + p[k:]
        text = "/".join(segs) if segs else "."
    elif style == "rel-root":
        text = (up_root + "/".join(p)) if (loc or p) else "."
        text = text.rstrip("/") if text.rstrip("/") else "."
    elif style == "detour":
        segs = [".."] * len(loc) + p
        outl = []
        for s in segs:
            r = rng.random()
            if r < 0.25:
                outl.append(".")
            elif r < 0.45:
                outl += ["nx-%d" % rng.randrange(9), ".."]
            elif r < 0.55:
                outl.append("")                     # doubled slash
            outl.append(s)
        if not outl or outl[0] == "":
            outl.insert(0, ".")
        tail = rng.choice(["", "", "/", "/.", "/nx-0/.."])
        text = "/".join(outl) + tail
    elif style == "via-parent":
        text = "../" * (len(loc) + 1) + "/".join([basename] + p)
    elif style == "abs":
        text = "/".join(["@W@", basename] + p)
    else:
        text = "/".join(["@W@", "outd", "..", ".", basename] + p) + rng.choice(["", "/"])
    return text, style


def concretise(rng, T, basename: str, alg: str, relcall: bool = False) -> Dict[str, Any]:
    """JSON-able materialisation spec: entries in creation order, link texts, mtimes."""
    entries, styles = [], []
    for path, n in walk(T):
        if n[0] == "f":
            entries.append([list(path), "f", n[1].decode("latin-1")])
        elif n[0] == "d":
            entries.append([list(path), "d", None])
        else:
            text, style = spell(rng, path[:-1], n[1], basename)
            styles.append(style)
            entries.append([list(path), "l", text])
    rng.shuffle(entries)
    return {"name": basename, "alg": alg, "entries": entries, "relcall": relcall,
            "mtimes": [rng.randrange(0, 2_000_000_000) for _ in range(len(entries) + 1)],
            "styles": styles}


def restrict_spec(spec, keep: set):
    keep_all = set()
    for p in keep:
        for i in range(1, len(p) + 1):
            keep_all.add(tuple(p[:i]))
    s = dict(spec)
    idx = [i for i, e in enumerate(spec["entries"]) if tuple(e[0]) in keep_all]
    s["entries"] = [spec["entries"][i] for i in idx]
    s["mtimes"] = [spec["mtimes"][i] for i in idx] + [spec["mtimes"][-1]]
    return s


# ------------------------------------------------------------------ implementation side

def fixtures_of(spec) -> Dict[Tuple[str, ...], str]:
    """Files and directories next to the base (made when some link text refers to them)."""
    name = spec["name"]
    texts = [e[2] for e in spec["entries"] if e[1] == "l"] + [t for _, t in spec.get("outside_links", [])]
    fx: Dict[Tuple[str, ...], str] = {("out.txt",): "f"}
    if any("outd" in t for t in texts):
        fx[("outd",)] = "d"
        fx[("outd", "inner.txt")] = "f"
    if any(name + "x" in t for t in texts):
        fx[(name + "x",)] = "d"
        fx[(name + "x", "f.txt")] = "f"
    return fx


def materialise(spec, W: Path) -> Path:
    name = spec["name"]
    base = W / name
    base.mkdir()
    for fpath, fkind in fixtures_of(spec).items():
        if fkind == "d":
            W.joinpath(*fpath).mkdir(exist_ok=True)
        else:
            W.joinpath(*fpath).write_bytes(b"outside")
    for oname, otext in spec.get("outside_links", []):      # symlinks lying next to the base
        if not os.path.lexists(W / oname):
            os.symlink(otext.replace("@W@", str(W)), W / oname)
    made = []
    for path, kind, payload in spec["entries"]:
        p = base.joinpath(*path)
        p.parent.mkdir(parents=True, exist_ok=True)
        if kind == "d":
            p.mkdir(exist_ok=True)
        elif kind == "f":
            p.write_bytes(payload.encode("latin-1"))
        else:
            os.symlink(payload.replace("@W@", str(W)), p)
        made.append(p)
    for p, t in zip(made + [base], spec["mtimes"]):
        os.utime(p, (t, t), follow_symlinks=False)
    return base


def impl_tree(spec) -> Tuple[str, Any, str]:
    """-> (status, result, real work dir); status in ok | outside | timeout | exc:<Type>."""
    from metador_core.util.hashsums import dir_hashsums
    with vlib.workdir("c19") as W0:
        W = Path(os.path.realpath(W0))
        base = materialise(spec, W)
        cwd = os.getcwd()
        try:
            with vlib.time_limit(spec.get("tl", TL)):
                if spec.get("relcall"):
                    os.chdir(W)
                    res = dir_hashsums(Path(spec["name"]), spec["alg"])
                else:
                    res = dir_hashsums(base, spec["alg"])
            return ("ok", res, str(W))
        except vlib.CaseTimeout:
            return ("timeout", None, str(W))
        except ValueError as e:
            st = "outside" if "points to the outside" in str(e) else "exc:ValueError"
            return (st, str(e)[:200], str(W))
        except RuntimeError as e:
            st = "loop" if "Symlink loop" in str(e) else "exc:RuntimeError"
            return (st, str(e)[:200], str(W))
        except Exception as e:  # noqa: BLE001
            return ("exc:" + type(e).__name__, str(e)[:200], str(W))
        finally:
            os.chdir(cwd)


T_FIXED = 1_600_000_000     # every entry of the same-process sequences keeps this mtime/atime


def _sync_in_place(base: Path, W: Path, cur: Dict[Tuple[str, ...], Tuple[str, Any]], spec):
    """Turn the directory at `base` (content `cur`) into `spec` by editing it IN PLACE: untouched
    entries keep their inode, changed files are overwritten (not re-created), then every mtime and
    atime is put back to the fixed value."""
    tgt = {tuple(e[0]): (e[1], e[2]) for e in spec["entries"]}
    for p in sorted(cur, key=len, reverse=True):
        keep = p in tgt and tgt[p][0] == cur[p][0] and (cur[p][0] != "l" or tgt[p][1] == cur[p][1])
        if not keep:
            fp = base.joinpath(*p)
            if cur[p][0] == "d":
                os.rmdir(fp)
            else:
                os.unlink(fp)
            del cur[p]
    for p in sorted(tgt, key=len):
        kind, payload = tgt[p]
        fp = base.joinpath(*p)
        if p not in cur:
            fp.parent.mkdir(parents=True, exist_ok=True)
            if kind == "d":
                fp.mkdir(exist_ok=True)
            elif kind == "f":
                fp.write_bytes(payload.encode("latin-1"))
            else:
                os.symlink(payload.replace("@W@", str(W)), fp)
        elif kind == "f" and cur[p][1] != payload:
            with open(fp, "r+b") as fh:
                fh.write(payload.encode("latin-1"))
                fh.truncate()
        cur[p] = (kind, payload)
    for p in list(cur) + [()]:
        os.utime(base.joinpath(*p), (T_FIXED, T_FIXED), follow_symlinks=False)


def impl_inplace(job):
    """A sequence of states of ONE directory path, hashed again after every step inside one
    process.  step = {op, spec, rel}; op: fresh | rebuild (rmtree, build anew at the same path) |
    sync (edit in place) | repeat (nothing changes) | other-cwd (same relative path under another
    working directory).  -> per step (status, result, root, extras)."""
    import shutil
    from metador_core.util import hashsums as H
    out = []
    with vlib.workdir("c19p") as W0, vlib.workdir("c19q") as W1:
        W, W2 = Path(os.path.realpath(W0)), Path(os.path.realpath(W1))
        cur: Dict[Tuple[str, ...], Tuple[str, Any]] = {}
        home = os.getcwd()
        for st in job["steps"]:
            op, spec = st["op"], st["spec"]
            root = W2 if op == "other-cwd" else W
            base = root / spec["name"]
            if op in ("fresh", "rebuild", "other-cwd"):
                if base.exists():
                    shutil.rmtree(base)
                materialise(spec, root)
                if root is W:
                    cur = {tuple(e[0]): (e[1], e[2]) for e in spec["entries"]}
            elif op == "sync":
                _sync_in_place(base, W, cur, spec)
            extras = []
            try:
                with vlib.time_limit(TL):
                    if st.get("rel"):
                        os.chdir(root)
                        res = H.dir_hashsums(Path(spec["name"]), spec["alg"])
                    else:
                        res = H.dir_hashsums(base, spec["alg"])
                r = ("ok", res)
            except vlib.CaseTimeout:
                r = ("timeout", None)
            except ValueError as e:
                r = ("outside" if "points to the outside" in str(e) else "exc:ValueError", str(e)[:200])
            except RuntimeError as e:
                r = ("loop" if "Symlink loop" in str(e) else "exc:RuntimeError", str(e)[:200])
            except Exception as e:  # noqa: BLE001
                r = ("exc:" + type(e).__name__, str(e)[:200])
            finally:
                os.chdir(home)
            try:
                with vlib.time_limit(TL):
                    for path, kind, payload in spec["entries"]:
                        if kind == "f":
                            fp = base.joinpath(*path)
                            with open(fp, "rb") as fh:
                                extras.append([path, H.file_hashsum(fp, spec["alg"]),
                                               H.qualified_hashsum(fh, spec["alg"]),
                                               H.qualified_hashsum(payload.encode("latin-1"), spec["alg"])])
            except Exception as e:  # noqa: BLE001
                extras.append([["?"], "exc:" + type(e).__name__, str(e)[:100], ""])
            out.append((r[0], r[1], str(root), extras))
    return out


def judge_job(job, res) -> List[Tuple[int, str, str]]:
    """Property oracle on a same-process sequence: every step's result is what the directory
    content at that moment demands, whatever was hashed before.  -> [(step, kind, why)]."""
    if any(r[0] == "timeout" for r in res):
        return []
    bad = []
    steps = job["steps"]
    for k, (st, r) in enumerate(zip(steps, res)):
        T, alg = tree_unjson(st["tree"]), st["spec"]["alg"]
        j = judge_pair(T, T, r, r, alg)
        if j is None:
            for path, fh, sh, bh in r[3]:
                n = lookup(T, tuple(path))
                want = std_digest(alg, n[1]) if n is not None and n[0] == "f" else None
                for fn, got in (("file_hashsum", fh), ("qualified_hashsum(stream)", sh), ("qualified_hashsum(bytes)", bh)):
                    if got != want and j is None:
                        j = ("digest-nonstandard", f"{fn} of {'/'.join(path)!r} is {got!r:.90}, standard digest is {want!r}")
        if j is None and k > 0 and steps[k - 1]["spec"]["alg"] == alg:
            j = judge_pair(tree_unjson(steps[k - 1]["tree"]), T, res[k - 1], r, alg)
        if j:
            bad.append((k, j[0], j[1]))
    return bad


def same_size_variant(T):
    """The same names, sizes (and, in the sequences, mtimes) with different bytes."""
    if T[0] == "f":
        return F(bytes(b ^ 1 for b in T[1]))
    if T[0] == "d":
        return D({k: same_size_variant(v) for k, v in T[1].items()})
    return T


def gen_job(rng, T, pool, alg):
    name = rng.choice(BASENAMES)
    other = [a for a in ALGS if a != alg][0]

    def sp(tree, a=alg):
        s = concretise(rng, tree, name, a)
        s["mtimes"] = [T_FIXED] * len(s["mtimes"])
        return s
    sT = sp(T)
    tj = tree_json(T)
    V = same_size_variant(T)
    steps = [{"op": "fresh", "spec": sT, "tree": tj, "what": "first call"},
             {"op": "repeat", "spec": sT, "tree": tj, "what": "unchanged, called again"},
             {"op": "repeat", "spec": sT, "tree": tj, "rel": True, "what": "unchanged, relative dir argument"},
             {"op": "repeat", "spec": dict(sT, alg=other), "tree": tj, "what": "unchanged, other algorithm"},
             {"op": "repeat", "spec": sT, "tree": tj, "what": "unchanged, first algorithm again"}]
    for ek, T2 in gen_edits(rng, T, pool):
        steps.append({"op": "sync", "spec": sp(T2), "tree": tree_json(T2), "what": "in place: " + ek})
        steps.append({"op": "sync", "spec": sT, "tree": tj, "what": "in place: undo " + ek})
    if V != T:
        sV = sp(V)
        vj = tree_json(V)
        steps += [{"op": "sync", "spec": sV, "tree": vj, "what": "in place: all file bytes changed, sizes kept"},
                  {"op": "rebuild", "spec": sT, "tree": tj, "what": "rmtree, original rebuilt at the same path"},
                  {"op": "rebuild", "spec": sV, "tree": vj, "what": "rmtree, same-size variant rebuilt at the same path"},
                  {"op": "repeat", "spec": sV, "tree": vj, "rel": True, "what": "unchanged, relative dir argument"},
                  {"op": "other-cwd", "spec": sT, "tree": tj, "rel": True,
                   "what": "original under another working directory, same relative path"},
                  {"op": "other-cwd", "spec": sV, "tree": vj, "rel": True,
                   "what": "variant under the other working directory, same relative path"}]
    return {"steps": steps}


def shrink_job(job, k, kind):
    """Smallest sequence and smallest trees on which step k still fails in the same way."""
    steps = job["steps"]
    prev = dict(steps[k - 1], op="fresh") if k > 0 else None
    pair = {"steps": ([prev] if prev else []) + [steps[k]]}

    def still(j):
        b = judge_job(j, impl_inplace(j))
        return any(x[0] == len(j["steps"]) - 1 and x[1] == kind for x in b)
    if not still(pair):
        cut = {"steps": steps[:k + 1]}
        return cut if still(cut) else job
    paths = sorted({tuple(e[0]) for st in pair["steps"] for e in st["spec"]["entries"]})

    def build(keep):
        ks = set(keep)
        return {"steps": [dict(st, spec=restrict_spec(st["spec"], ks),
                               tree=tree_json(remove_paths(tree_unjson(st["tree"]), ks))) for st in pair["steps"]]}

    def fails(keep):
        j = build(keep)
        return all(chain_free(tree_unjson(st["tree"])) for st in j["steps"]) and still(j)
    keep = vlib.ddmin(paths, fails, budget=60) if len(paths) > 1 and fails(paths) else paths
    return build(keep)


# ------------------------------------------------------------------ symlink chains
# A chain world is a materialisation spec whose link texts may name other links, pass through
# symlinked directories, loop, or leave the directory through ../<outside link> and come back.
# What a link finally leads to is computed by `final_of_spec` (the walk of posixpath.realpath on
# the spec, "@W@" standing for the work directory); the Coq model's skeleton is compared with it.

FUEL = 400


def _node_at(spec, path):
    """What lies at the absolute symbolic path: ("l", text) | ("f",) | ("d",) | None."""
    name = spec["name"]
    if path in ([], ["@W@"], ["@W@", name]):
        return ("d",)
    if path[0] != "@W@":
        return None
    if path[1] == name:
        return spec["_nodes"].get(tuple(path[2:]))
    if len(path) == 2 and path[1] in spec["_out"]:
        return ("l", spec["_out"][path[1]])
    k = spec["_fx"].get(tuple(path[1:]))
    return (k,) if k else None


def _is_abs(text):
    return text.startswith("/") or text.startswith("@W@")


def _py_resolve(spec, cur, segs, stk, budget):
    """posixpath._joinrealpath, non-strict: ("ok", path) | ("loop", unresolved path)."""
    for i, s in enumerate(segs):
        budget[0] -= 1
        if budget[0] < 0:
            raise RecursionError("resolver budget")
        if s in ("", "."):
            continue
        if s == "..":
            cur = cur[:-1]
            continue
        np_ = cur + [s]
        n = _node_at(spec, np_)
        if n is None or n[0] != "l":
            cur = np_
            continue
        rest = list(segs[i + 1:])
        if tuple(np_) in stk:
            return ("loop", np_ + rest)
        r = _py_resolve(spec, [] if _is_abs(n[1]) else cur, n[1].split("/"), stk | {tuple(np_)}, budget)
        if r[0] == "loop":
            return ("loop", r[1] + rest)
        cur = r[1]
    return ("ok", cur)


def _py_kwalk(spec, cur, segs, stk, budget):
    """The kernel's walk for stat(): "ok" path | "loop" (ELOOP) | "stop" (ENOENT/ENOTDIR)."""
    for i, s in enumerate(segs):
        budget[0] -= 1
        if budget[0] < 0:
            raise RecursionError("resolver budget")
        if s in ("", "."):
            continue
        if s == "..":
            cur = cur[:-1]
            continue
        np_ = cur + [s]
        n = _node_at(spec, np_)
        if n is None:
            return ("stop", None)
        if n[0] == "f":
            return ("ok", np_) if i == len(segs) - 1 else ("stop", None)
        if n[0] == "d":
            cur = np_
            continue
        if tuple(np_) in stk:
            return ("loop", None)
        r = _py_kwalk(spec, [] if _is_abs(n[1]) else cur, n[1].split("/"), stk | {tuple(np_)}, budget)
        if r[0] != "ok":
            return r
        cur = r[1]
    return ("ok", cur)


def _py_path_resolve(spec, start, text):
    """Path.resolve(): absolute symbolic path, or None for RuntimeError (symlink loop)."""
    budget = [20000]
    r = _py_resolve(spec, [] if _is_abs(text) else start, text.split("/"), frozenset(), budget)
    if r[0] == "ok":
        return r[1]
    p: List[str] = []
    for seg in r[1]:                         # abspath(): lexical
        if seg in ("", "."):
            continue
        if seg == "..":
            p = p[:-1]
        else:
            p.append(seg)
    return None if _py_kwalk(spec, [], p, frozenset(), budget)[0] == "loop" else p


def final_of_spec(spec):
    """-> (abstract tree with every link replaced by its final target, has_loop)."""
    spec["_nodes"] = {tuple(e[0]): ((e[1], e[2]) if e[1] == "l" else (e[1],)) for e in spec["entries"]}
    spec["_out"] = dict(spec.get("outside_links", []))
    spec["_fx"] = fixtures_of(spec)
    root: Dict[str, Any] = {}
    loop = False
    home = ["@W@", spec["name"]]
    for path, kind, payload in sorted(spec["entries"], key=lambda e: len(e[0])):
        d = root
        for seg in path[:-1]:
            d = d.setdefault(seg, D())[1]
        if kind == "f":
            d[path[-1]] = F(payload.encode("latin-1"))
        elif kind == "d":
            d.setdefault(path[-1], D())
        else:
            r = _py_path_resolve(spec, home + list(path[:-1]), payload)
            if r is None:
                loop = True
                d[path[-1]] = LOUT("loop")
            elif r[:2] == home:
                d[path[-1]] = LIN(r[2:])
            else:
                d[path[-1]] = LOUT("chain")
    for k in ("_nodes", "_out", "_fx"):
        del spec[k]
    return D(root), loop


def model_case_c(spec, W: str) -> Any:
    """[ctree n alg fuel base world]: the world is rooted at "/", W's own path as nested dirs."""
    inner = model_case(spec, W)[4]
    wsegs = W.strip("/").split("/")
    level = ["d", [spec["name"], inner]]
    for oname, otext in spec.get("outside_links", []):
        t = otext.replace("@W@", W)
        level.append([oname, ["l", t.startswith("/"), t.split("/")]])
    fx = fixtures_of(spec)
    for fpath, fkind in fx.items():
        if len(fpath) == 1:
            level.append([fpath[0], ["f", "outside"] if fkind == "f" else
                          ["d"] + [[q[1], ["f", "outside"]] for q in fx if len(q) == 2 and q[0] == fpath[0]]])
    for seg in reversed(wsegs):
        level = ["d", [seg, level]]
    return ["ctree", BLOCK[spec["alg"]], spec["alg"], FUEL, wsegs + [spec["name"]], level]


def _names_in(ents, loc):
    return {p[-1]: 1 for p in ents if p[:-1] == loc}


def _rel(loc, target):
    t = "../" * len(loc) + "/".join(target)
    return t.rstrip("/") if t.rstrip("/") else "."


def gen_chain_world(rng, T):
    """Concrete world {ents: path -> (kind, payload), out: {name: text}} from a chain-free tree,
    with chain features added.  '@NAME@' stands for the base name."""
    spec0 = concretise(rng, T, "@NAME@", "sha256")
    ents = {tuple(e[0]): (e[1], e[2]) for e in spec0["entries"]}
    out: Dict[str, str] = {}
    feats = []

    def dirs():
        return [()] + [p for p, v in ents.items() if v[0] == "d"]

    def add_link(loc, text):
        nm = fresh_name(rng, _names_in(ents, loc))
        ents[loc + (nm,)] = ("l", text)
        return loc + (nm,)
    for _ in range(rng.choice([1, 2, 2, 3])):
        links = [p for p, v in ents.items() if v[0] == "l"]
        files = [p for p, v in ents.items() if v[0] == "f"]
        subdirs = [p for p, v in ents.items() if v[0] == "d"]
        loc = rng.choice(dirs())
        kind = rng.choice(["chain", "chain", "chain", "through", "through", "through", "up", "up",
                           "reenter", "reenter", "abs-chain", "chain-out", "loop"])
        if kind == "chain" and links:
            q = rng.choice(links)
            for _ in range(rng.choice([1, 1, 2])):            # chains of 2-3 links
                at = rng.choice(dirs())
                q = add_link(at, _rel(at, q))
        elif kind == "through" and subdirs:
            d = rng.choice(subdirs)
            ld = add_link(rng.choice(dirs()), "")
            ents[ld] = ("l", _rel(ld[:-1], d))
            kids = [p[-1] for p in ents if p[:-1] == d] or ["nx-kid"]
            tail = rng.choice([rng.choice(kids), "..", "../" + rng.choice(list(_names_in(ents, d[:-1])) or ["nx"]),
                               "nx-q", rng.choice(kids) + "/..", "./" + rng.choice(kids)])
            add_link(loc, _rel(loc, ld) + "/" + tail)
        elif kind == "up" and subdirs:
            d = rng.choice(subdirs)
            up = add_link(d, "..")                              # d/up -> the directory holding d
            tgt = rng.choice(files + subdirs)
            tail = "../" * (len(d) - 1) + "/".join(tgt)         # from there up to the base, down to tgt
            again = ("/" + d[-1] + "/" + up[-1]) * rng.choice([0, 0, 1, 2])
            add_link(loc, _rel(loc, up) + again + "/" + tail)
        elif kind == "reenter":
            d = rng.choice(dirs())
            out["back"] = "/".join(("@NAME@",) + d)
            kids = [p[-1] for p in ents if p[:-1] == d] or ["nx-kid"]
            add_link(loc, "../" * (len(loc) + 1) + "back" + rng.choice(["", "/" + rng.choice(kids), "/nx-r"]))
        elif kind == "abs-chain" and links:
            add_link(loc, "/".join(("@W@", "@NAME@") + rng.choice(links)))
        elif kind == "chain-out":
            out["olink"] = rng.choice(["outd", "@W@/outd", "..", "out.txt"])
            add_link(loc, "../" * (len(loc) + 1) + "olink" + rng.choice(["", "/inner.txt", "/../@NAME@/../outd"]))
        elif kind == "loop":
            how = rng.choice(["self", "mutual", "parent"])
            if how == "self":
                p1 = add_link(loc, "")
                ents[p1] = ("l", p1[-1])
            elif how == "mutual":
                p1 = add_link(loc, "")
                p2 = add_link(loc, p1[-1])
                ents[p1] = ("l", "./" + p2[-1])
            else:
                p1 = add_link(loc, "")
                p2 = add_link(loc, p1[-1] + "/..")
                ents[p1] = ("l", p2[-1] + "/z")
        else:
            continue
        feats.append(kind)
    return {"ents": ents, "out": out}, feats


def chain_edits(rng, cw):
    """Single edits of a chain world (label, world)."""
    res = []
    ents = cw["ents"]
    files = [p for p, v in ents.items() if v[0] == "f"]
    links = [p for p, v in ents.items() if v[0] == "l"]

    def variant(fn):
        c = {"ents": dict(ents), "out": dict(cw["out"])}
        fn(c["ents"])
        if c["ents"] != ents:
            return c
    if files:
        p = rng.choice(files)
        b = bytearray(ents[p][1].encode("latin-1")) or bytearray(b"a")
        b[rng.randrange(len(b))] ^= 1
        res.append(("content-flip", variant(lambda e: e.__setitem__(p, ("f", bytes(b).decode("latin-1"))))))
        p2 = rng.choice(files)
        res.append(("remove-file", variant(lambda e: e.pop(p2))))
    loc = rng.choice([()] + [p for p, v in ents.items() if v[0] == "d"])
    nm = fresh_name(rng, _names_in(ents, loc))
    res.append(("add-file", variant(lambda e: e.__setitem__(loc + (nm,), ("f", "new")))))
    if links:
        p = rng.choice(links)
        others = [q for q in list(ents) if q != p]
        if others:
            q = rng.choice(others)
            res.append(("retarget", variant(lambda e: e.__setitem__(p, ("l", _rel(p[:-1], q))))))
        res.append(("link->self-loop", variant(lambda e: e.__setitem__(p, ("l", "./" + p[-1])))))
        # shorten a chain by one hop (same final target, different link text)
        for p in links:
            hit = [q for q in links if q != p and ents[p][1] == _rel(p[:-1], q)
                   and not ents[q][1].startswith(("/", "@W@"))]
            if hit:
                q = hit[0]
                new = _rel(p[:-1], q[:-1]) + "/" + ents[q][1]
                res.append(("chain-shortened", variant(lambda e: e.__setitem__(p, ("l", new)))))
                break
    return [(k, c) for k, c in res if c is not None]


def spec_of_world(rng, cw, name, alg):
    ents = [[list(p), v[0], (v[1].replace("@NAME@", name) if v[0] == "l" else v[1])] for p, v in cw["ents"].items()]
    rng.shuffle(ents)
    return {"name": name, "alg": alg, "entries": ents, "relcall": rng.random() < 0.2,
            "outside_links": [[k, v.replace("@NAME@", name)] for k, v in sorted(cw["out"].items())],
            "mtimes": [rng.randrange(0, 2_000_000_000) for _ in range(len(ents) + 1)], "styles": []}


def judge_chain(A, loop_a, B, loop_b, ra, rb, alg):
    """Oracle for chain worlds on their FINAL trees; a loop must be refused (RuntimeError, or the
    outside ValueError when the directory also has a link ending outside)."""
    for T, lp, r in ((A, loop_a, ra), (B, loop_b, rb)):
        if r[0] == "timeout":
            return None
        if lp and r[0] not in ({"loop", "outside"} if has_outside_real(T) else {"loop"}):
            return ("loop-not-rejected", f"a link of the directory loops but the call gave {r[0]}: {str(r[1])[:100]}")
    if loop_a or loop_b:
        return None
    return judge_pair(A, B, ra, rb, alg)


def has_outside_real(T) -> bool:
    return any(n[0] == "l" and n[1][0] == "out" and n[1][1] != "loop" for _, n in walk(T))


def w_group(specs):
    return [impl_tree(s) for s in specs]


class _Short:
    """Stream delivering short reads (raw / unbuffered streams may)."""

    def __init__(self, data, cuts):
        self.d, self.p, self.cuts, self.i = data, 0, cuts, 0

    def read(self, n=-1):
        k = self.cuts[self.i % len(self.cuts)]
        self.i += 1
        m = min(n if n is not None and n >= 0 else len(self.d), k)
        out = self.d[self.p:self.p + m]
        self.p += len(out)
        return out


class _Rec:
    def __init__(self, data):
        self.b, self.req, self.got = io.BytesIO(data), [], []

    def read(self, n=-1):
        c = self.b.read(n)
        self.req.append(n)
        self.got.append(c)
        return c


def impl_hash(case) -> Tuple[str, Any]:
    """One call of the hashing functions; case = dict(mode, alg, data, ...)."""
    from metador_core.util import hashsums as H
    mode, alg, data = case["mode"], case["alg"], case["data"]
    try:
        with vlib.time_limit(TL):
            if mode == "bytes":
                return ("ok", H.qualified_hashsum(data, alg))
            if mode == "stream":
                return ("ok", H.qualified_hashsum(io.BytesIO(data), alg))
            if mode == "short":
                return ("ok", H.qualified_hashsum(_Short(data, case["cuts"]), alg))
            if mode == "rec-stream":
                r = _Rec(data)
                d = H.qualified_hashsum(r, alg)
                return ("ok", [d, sorted(set(r.req)), [c.decode("latin-1") for c in r.got if c]])
            if mode == "rec-hash":
                n = case["n"]

                class R:
                    block_size = n

                    def __init__(self):
                        self.ups = []
                        R.last = self

                    def update(self, c):
                        self.ups.append(bytes(c))

                    def hexdigest(self):
                        return b"".join(self.ups).decode("latin-1")
                H._hash_alg["x-rec"] = R
                try:
                    d = H.hashsum(io.BytesIO(data), "x-rec")
                    return ("ok", [d, [c.decode("latin-1") for c in R.last.ups]])
                finally:
                    H._hash_alg.pop("x-rec", None)
            if mode in ("file", "record-skip"):
                with vlib.workdir("c19h") as W:
                    f = Path(W) / "payload.bin"
                    f.write_bytes(data)
                    if mode == "file":
                        return ("ok", H.file_hashsum(f, alg))
                    from metador_core.ih5.record import hashsum_file
                    return ("ok", hashsum_file(f, skip_bytes=case["skip"]))
            if mode == "badalg":
                try:
                    H.qualified_hashsum(data, alg)
                except ValueError:
                    return ("ok", "ValueError")
                return ("ok", "accepted")
            return ("exc:harness", mode)
    except vlib.CaseTimeout:
        return ("timeout", None)
    except Exception as e:  # noqa: BLE001
        return ("exc:" + type(e).__name__, str(e)[:200])


# ------------------------------------------------------------------ model side

def model_case(spec, W: str) -> Any:
    """[tree n alg base raw] with the raw tree listed in creation order."""
    root: Dict[str, Any] = {}

    def slot(path):
        d = root
        for s in path[:-1]:
            if s not in d or not isinstance(d[s], dict):
                d[s] = {}
            d = d[s]
        return d
    for path, kind, payload in spec["entries"]:
        d = slot(path)
        if kind == "d":
            d.setdefault(path[-1], {})
        elif kind == "f":
            d[path[-1]] = ["f", payload]
        else:
            text = payload.replace("@W@", W)
            d[path[-1]] = ["l", text.startswith("/"), text.split("/")]

    def enc(d):
        return ["d"] + [[k, enc(v) if isinstance(v, dict) else v] for k, v in d.items()]
    base = (W.rstrip("/") + "/" + spec["name"]).split("/")[1:]
    return ["tree", BLOCK[spec["alg"]], spec["alg"], base, enc(root)]


def wire_safe(spec) -> bool:
    """The shared s-expression wire format reads `\\e` as the empty-atom marker, so the bytes
    0xe0..0xef cannot be sent to the runner; such cases are judged by the code-only oracle only."""
    def ok(t):
        return not any(0xe0 <= ord(c) <= 0xef for c in t)
    return all(ok(e[2] or "") and all(ok(x) for x in e[0]) for e in spec["entries"])


_DIGESTS: Dict[Tuple[str, bytes], str] = {}


def std_digest(alg: str, data: bytes) -> str:
    """The harness table: standard one-shot digest with the algorithm prefix."""
    k = (alg, data)
    if k not in _DIGESTS:
        _DIGESTS[k] = alg + ":" + hashlib.new(alg, data).hexdigest()
    return _DIGESTS[k]


def model_dict(hs, skel, alg) -> Any:
    """Model result -> the dict the code should return (digests through the harness table)."""
    if skel[0] == "f":
        if not (isinstance(hs, str) and hs.startswith(alg + ":")):
            raise RuntimeError(f"model file entry without prefix: {hs!r:.80}")
        return std_digest(alg, hs[len(alg) + 1:].encode("latin-1"))
    if skel[0] == "in":
        return hs
    if skel[0] == "d":
        subs = skel[1:]
        if len(subs) != len(hs):
            raise RuntimeError("model skeleton/result shape mismatch")
        return {k: model_dict(h, s, alg) for (k, h), (k2, s) in zip(hs, subs)}
    raise RuntimeError(f"unexpected skeleton {skel!r:.80}")


def skel_tree(skel, contents) -> Any:
    """Model skeleton -> abstract tree without outside kinds / contents (for the generator sanity check)."""
    if skel[0] == "f":
        return "f"
    if skel[0] == "in":
        return ("in", tuple(skel[1]))
    if skel[0] == "out":
        return "out"
    return {k: skel_tree(s, contents) for k, s in skel[1:]}


def abs_skel(n) -> Any:
    if n[0] == "f":
        return "f"
    if n[0] == "l":
        return ("in", n[1][1]) if n[1][0] == "in" else "out"
    return {k: abs_skel(v) for k, v in n[1].items()}


# ------------------------------------------------------------------ generators

def mk_content(rng, size: int, binary: bool) -> bytes:
    alpha = b"abcdefgh01 \n\x00\xff" if binary else b"abcdefgh01"
    return bytes(rng.choices(alpha, k=size))


def pick_size(rng) -> int:
    r = rng.random()
    if r < 0.70:
        return rng.randint(0, 12)
    if r < 0.92:
        return rng.choice([63, 64, 65, 127, 128, 129])
    return rng.choice([4095, 4096, 4097, 8191, 8192, 8193])


def fresh_name(rng, d: Dict[str, Any]) -> str:
    cand = [n for n in NAME_POOL if n not in d]
    if cand:
        return rng.choice(cand)
    i = 0
    while f"n{i}" in d:
        i += 1
    return f"n{i}"


def in_targets(rng, T) -> List[Tuple[str, ...]]:
    ents = list(walk(T))
    files = [p for p, n in ents if n[0] == "f"]
    dirs = [p for p, n in ents if n[0] == "d"]
    cand: List[Tuple[str, ...]] = []
    cand += files * 3 + dirs * 2 + [()]
    cand.append(("nx-free",))
    if dirs:
        cand.append(rng.choice(dirs) + ("nx-in-dir",))
    if files:
        cand.append(rng.choice(files) + ("below-file",))
    cand.append(("nx-q", "deep", "er"))
    return cand


def gen_tree(rng, outside: bool):
    binary = rng.random() < 0.35
    pool = [mk_content(rng, pick_size(rng), binary) for _ in range(3)]

    def gen_dir(depth):
        d: Dict[str, Any] = {}
        for _ in range(rng.choice([1, 2, 2, 3, 3, 4] if depth == 0 else [0, 0, 1, 1, 2, 3])):
            nm = fresh_name(rng, d)
            if rng.random() < 0.55 or depth >= 3:
                d[nm] = F(rng.choice(pool))
            else:
                d[nm] = D(gen_dir(depth + 1))
        return d
    T = D(gen_dir(0))
    for _ in range(rng.choice([0, 1, 1, 2, 2, 3, 4])):
        dirs = [()] + [p for p, n in walk(T) if n[0] == "d"]
        loc = rng.choice(dirs)
        d = lookup(T, loc)[1]
        nm = fresh_name(rng, d)
        d[nm] = LIN(rng.choice(in_targets(rng, T)))
        if not chain_free(T):
            del d[nm]
    if outside:
        dirs = [()] + [p for p, n in walk(T) if n[0] == "d"]
        d = lookup(T, rng.choice(dirs))[1]
        d[fresh_name(rng, d)] = LOUT(rng.choice(OUT_KINDS))
    return T, pool


def gen_edits(rng, T, pool) -> List[Tuple[str, Any]]:
    """Single edits of T (each result differs from T as directory content and is chain-free)."""
    out: List[Tuple[str, Any]] = []
    ents = list(walk(T))
    files = [p for p, n in ents if n[0] == "f"]
    dirs = [p for p, n in ents if n[0] == "d"]
    inl = [p for p, n in ents if n[0] == "l" and n[1][0] == "in"]
    anyp = [p for p, _ in ents]
    alldirs = [()] + dirs

    def attempt(kind, fn):
        T2 = copy.deepcopy(T)
        if fn(T2) is False:
            return
        if T2 == T or not chain_free(T2):
            return
        out.append((kind, T2))

    def content_edit(how):
        def fn(T2):
            cand = [p for p in files if how == "append" or len(lookup(T, p)[1]) > 0]
            if not cand:
                return False
            p = rng.choice(cand)
            b = bytearray(lookup(T2, p)[1])
            if how == "flip":
                pos = rng.choice([x for x in (0, len(b) - 1, rng.randrange(len(b)), 63, 64, 127, 128, 4095, 4096)
                                  if x < len(b)])
                b[pos] ^= 1
            elif how == "append":
                b.append(rng.choice(b"a\x00"))
            else:
                del b[-1]
            pdict(T2, p)[p[-1]] = F(bytes(b))
        return fn
    attempt("content-flip", content_edit("flip"))
    attempt("content-append", content_edit("append"))
    attempt("content-truncate", content_edit("trunc"))

    def rename(T2):
        if not anyp:
            return False
        p = rng.choice(anyp)
        d = pdict(T2, p)
        d[fresh_name(rng, d)] = d.pop(p[-1])
    attempt("rename", rename)

    def add(what):
        def fn(T2):
            d = lookup(T2, rng.choice(alldirs))[1]
            nm = fresh_name(rng, d)
            if what == "file":
                d[nm] = F(rng.choice(pool + [b""]))
            elif what == "dir":
                d[nm] = D()
            elif what == "link":
                d[nm] = LIN(rng.choice(in_targets(rng, T)))
            else:
                d[nm] = LOUT(rng.choice(OUT_KINDS))
        return fn
    for w in ("file", "dir", "link", "outside-link"):
        attempt("add-" + w, add(w))

    def remove(T2):
        if not anyp:
            return False
        p = rng.choice(anyp)
        del pdict(T2, p)[p[-1]]
    attempt("remove", remove)

    def file_to_dir(T2):
        if not files:
            return False
        p = rng.choice(files)
        c = lookup(T2, p)
        pdict(T2, p)[p[-1]] = rng.choice([D(), D({p[-1]: c})])
    attempt("file->dir", file_to_dir)

    def dir_to_file(T2):
        if not dirs:
            return False
        p = rng.choice(dirs)
        pdict(T2, p)[p[-1]] = F(rng.choice(pool))
    attempt("dir->file", dir_to_file)

    def retarget(T2):
        if not inl:
            return False
        p = rng.choice(inl)
        cur = lookup(T, p)[1][1]
        curn = lookup(T, cur)
        same = [q for q in files if q != cur and curn is not None and curn[0] == "f"
                and lookup(T, q)[1] == curn[1]]
        cand = same * 6 + [q for q in in_targets(rng, T) if q != cur]
        if not cand:
            return False
        pdict(T2, p)[p[-1]] = LIN(rng.choice(cand))
    attempt("retarget", retarget)

    def link_to_file_equal(T2):
        cand = [p for p in inl if node_kind(T, lookup(T, p)) == "link-to-file"]
        if not cand:
            return False
        p = rng.choice(cand)
        pdict(T2, p)[p[-1]] = F(lookup(T, lookup(T, p)[1][1])[1])
    attempt("link->file-equal", link_to_file_equal)

    def file_to_link_equal(T2):
        cand = [(p, q) for p in files for q in files if p != q and lookup(T, p)[1] == lookup(T, q)[1]]
        if not cand:
            return False
        p, q = rng.choice(cand)
        pdict(T2, p)[p[-1]] = LIN(q)
    attempt("file->link-equal", file_to_link_equal)

    def link_to_dir_equal(T2):
        cand = [p for p in inl if node_kind(T, lookup(T, p)) == "link-to-dir"
                and lookup(T, p)[1][1] != p[:len(lookup(T, p)[1][1])]]
        if not cand:
            return False
        p = rng.choice(cand)
        pdict(T2, p)[p[-1]] = copy.deepcopy(lookup(T, lookup(T, p)[1][1]))
    attempt("link->dir-equal", link_to_dir_equal)

    def dir_to_link(T2):
        empt = [p for p in dirs if not lookup(T, p)[1]]
        if not empt:
            return False
        p = rng.choice(empt)
        others = [q for q in empt if q != p]
        pdict(T2, p)[p[-1]] = LIN(rng.choice(others) if others else ())
    attempt("dir->link", dir_to_link)

    def in_to_outside(T2):
        if not inl:
            return False
        p = rng.choice(inl)
        pdict(T2, p)[p[-1]] = LOUT(rng.choice(OUT_KINDS))
    attempt("link->outside", in_to_outside)

    def file_to_outside(T2):
        if not files:
            return False
        p = rng.choice(files)
        pdict(T2, p)[p[-1]] = LOUT(rng.choice(["file", "file-in-dir", "sibling-file", "abs-file"]))
    attempt("file->outside-file", file_to_outside)
    return out


def size_group(rng, size: int, alg: str):
    """One file of the given size and edits at the block boundaries."""
    c = mk_content(rng, size, size % 2 == 1)
    T = D({"payload.bin": F(c)})
    eds = []
    where = {0, size - 1, BLOCK[alg] - 1, BLOCK[alg], size - BLOCK[alg], size // 2, 8191, 8192}
    if size > 10000:                              # the model's symbolic digest is quadratic in the size
        where = {0, size - 1, 8192}
    for pos in sorted(where):
        if 0 <= pos < size:
            b = bytearray(c)
            b[pos] ^= 0x01
            eds.append((f"content-flip@{pos}", D({"payload.bin": F(bytes(b))})))
    eds.append(("content-append", D({"payload.bin": F(c + b"\x00")})))
    if size:
        eds.append(("content-truncate", D({"payload.bin": F(c[:-1])})))
    return T, eds


def small_domain(names: List[str]) -> List[Any]:
    """Every tree over the given top-level names with node choices from a fixed list."""
    def choices(x):
        others = [n for n in names if n != x]
        ch = [None, F(b"x"), F(b"y"), F(b""), D(), D({"a": F(b"x")}), D({"a": LIN((others[0],))}),
              LIN(()), LIN(("nx",)), LOUT("file"), LOUT("dir")]
        ch += [LIN((o,)) for o in others] + [LIN((o, "a")) for o in others]
        return ch
    trees = []
    for combo in itertools.product(*[choices(x) for x in names]):
        T = D({n: copy.deepcopy(c) for n, c in zip(names, combo) if c is not None})
        if chain_free(T):
            trees.append(T)
    return trees


# ------------------------------------------------------------------ oracle (code alone) and shrinking

def file_entries_standard(T, res, alg) -> Optional[str]:
    for p, n in walk(T):
        if n[0] != "f":
            continue
        cur = res
        for s in p:
            cur = cur.get(s) if isinstance(cur, dict) else None
        if cur != std_digest(alg, n[1]):
            return f"entry {'/'.join(p)!r} is {cur!r:.90}, standard digest is {std_digest(alg, n[1])!r}"
    return None


def judge_pair(A, B, ra, rb, alg) -> Optional[Tuple[str, str]]:
    """Property oracle on two results of the code. None = fine."""
    for T, r in ((A, ra), (B, rb)):
        if r[0] == "timeout":
            return None
        if r[0].startswith("exc:"):
            return ("raises-unexpectedly", f"{r[0]}: {r[1]}")
        if has_outside(T) and r[0] != "outside":
            return ("outside-not-rejected", f"a link leaves the directory but the call returned {str(r[1])[:120]}")
        if not has_outside(T) and r[0] != "ok":
            return ("rejected-without-outside-link", str(r[1]))
    if has_outside(A) or has_outside(B):
        return None
    for T, r in ((A, ra), (B, rb)):
        why = file_entries_standard(T, r[1], alg)
        if why:
            return ("digest-nonstandard", why)
    if A == B and ra[1] != rb[1]:
        return ("equal-trees-differ", "the same directory content gave two different hashsum dicts")
    if A != B and ra[1] == rb[1]:
        return ("edit-not-detected", "two different directory contents gave the same hashsum dict")
    return None


def run_pair_local(A, B, sa, sb) -> Optional[Tuple[str, str]]:
    ra = impl_tree(sa)
    rb = ra if sb is sa else impl_tree(sb)
    return judge_pair(A, B, ra, rb, sa["alg"])


def shrink_pair(kind, A, B, sa, sb):
    """Remove entries (from both trees and both specs) while the same failure persists."""
    paths = sorted({p for p, _ in walk(A)} | {p for p, _ in walk(B)})

    def build(keep):
        ks = set(keep)
        return remove_paths(A, ks), remove_paths(B, ks), restrict_spec(sa, ks), restrict_spec(sb, ks)

    def fails(keep):
        A2, B2, sa2, sb2 = build(keep)
        if not (chain_free(A2) and chain_free(B2)):
            return False
        if kind == "edit-not-detected" and A2 == B2:
            return False
        j = run_pair_local(A2, B2, sa2, sb2)
        return j is not None and j[0] == kind
    if not fails(paths):
        return A, B, sa, sb
    keep = vlib.ddmin(paths, fails, budget=80)
    A2, B2, sa2, sb2 = build(keep)
    # shorten file contents, keeping which files are equal
    toks: Dict[bytes, bytes] = {}
    for T in (A2, B2):
        for _, n in walk(T):
            if n[0] == "f":
                toks.setdefault(n[1], b"c%d" % len(toks))

    def short_tree(n):
        if n[0] == "f":
            return F(toks[n[1]])
        return D({k: short_tree(v) for k, v in n[1].items()}) if n[0] == "d" else n

    def short_spec(s):
        s = dict(s)
        s["entries"] = [[p, k, toks[v.encode("latin-1")].decode() if k == "f" else v] for p, k, v in s["entries"]]
        return s
    A3, B3, sa3, sb3 = short_tree(A2), short_tree(B2), short_spec(sa2), short_spec(sb2)
    j = run_pair_local(A3, B3, sa3, sb3)
    if j is not None and j[0] == kind:
        return A3, B3, sa3, sb3
    return A2, B2, sa2, sb2


def sig_of(kind, A, B) -> Dict[str, Any]:
    if kind == "edit-not-detected":
        return {"kind": kind, "nodes": diff_kinds(A, B)}
    if kind == "outside-not-rejected":
        ks = sorted({OUT_CLASS[n[1][1]] for T in (A, B) for _, n in walk(T) if n[0] == "l" and n[1][0] == "out"})
        return {"kind": kind, "outside_target_is": ks}
    if kind == "equal-trees-differ":
        return {"kind": kind, "links": sorted({node_kind(A, n) for _, n in walk(A) if n[0] == "l"})}
    return {"kind": kind}


# ------------------------------------------------------------------ main

def crosscheck(cases, results, tag, max_cases):
    """vlib.coq_crosscheck; when the shared build tree was changed under us by a concurrent build
    (coqc reports inconsistent assumptions between compiled libraries) rebuild and try again."""
    xc: Dict[str, Any] = {}
    for attempt in range(3):
        xc = vlib.coq_crosscheck("c19", cases, results, tag, max_cases=max_cases)
        if xc["ok"] or "inconsistent assumptions" not in xc.get("log", ""):
            break
        vlib.ensure_built(need=["Properties/C19.vo"])
    return xc


def crosscheck_c(cases, results, tag, max_cases):
    xc: Dict[str, Any] = {}
    for attempt in range(3):
        xc = vlib.coq_crosscheck("c19c", cases, results, tag, max_cases=max_cases)
        if xc["ok"] or "inconsistent assumptions" not in xc.get("log", ""):
            break
        vlib.ensure_built(need=["Properties/C19.vo"])
    return xc


def run_model_spread(cases, seed):
    """vlib.run_model hands contiguous slices to the runner processes; the few expensive cases
    (64 KiB files) are generated next to each other, so run in a fixed shuffled order."""
    import random
    perm = list(range(len(cases)))
    random.Random(seed).shuffle(perm)
    entry = "c19c" if cases and cases[0][0] == "ctree" else "c19"
    res = vlib.run_model(entry, [cases[i] for i in perm])
    out: List[Any] = [None] * len(cases)
    for i, r in zip(perm, res):
        out[i] = r
    return out


def _phase(ctx, label):
    import time
    vlib.log(f"  [c19 {time.time() - ctx.t0:6.1f}s] {label}")


def _hist(it):
    h: Dict[str, int] = {}
    for x in it:
        h[str(x)] = h.get(str(x), 0) + 1
    return dict(sorted(h.items()))


def run(ctx: vlib.Ctx):
    proof = ctx.check_proofs()
    _phase(ctx, "proofs re-checked")
    rng = ctx.rng
    cov = ctx.coverage
    cov["trusted_base"] = vlib.TRUSTED_COMMON + [
        "modelled, not verified: the file system, pathlib (rglob listing each entry exactly once and not descending into "
        "symlinked directories, is_file/is_symlink, relative_to), os.readlink, os.lstat, Path.resolve = posixpath.realpath "
        "(non-strict) + stat raising RuntimeError on a loop — transcribed in DirHashChain.v, lexical special case in DirHash.v; Python dict "
        "equality as order-independent comparison of nested tables",
        "modelled, not verified: hashlib objects as a streaming hash (update(x);update(y) = update(x+y)); SHA-256/512 "
        "injectivity on the compared payloads is a premise of the theorems; buffered file objects returning the file bytes",
        "harness: digest table built with hashlib one-shot digests substitutes the model's symbolic digest (= file content)",
    ]
    assert hashlib.sha256().block_size == BLOCK["sha256"] and hashlib.sha512().block_size == BLOCK["sha512"]
    disagreements: List[Dict[str, Any]] = []
    failures: List[Dict[str, Any]] = []       # oracle failures: kind, why, A, B, sa, sb, edit
    timeouts = 0
    evals = 0

    # ---------------- 1. groups: a tree, a second materialisation of it, and its single edits
    groups = []   # list of (specs, trees, labels)
    n_groups = ctx.budget(180, 2000)
    for gi in range(n_groups):
        T, pool = gen_tree(rng, outside=(rng.random() < 0.10))
        alg = rng.choice(ALGS)
        names = rng.sample(BASENAMES, 2)
        specs = [concretise(rng, T, names[0], alg), concretise(rng, T, names[1], alg, relcall=rng.random() < 0.3)]
        trees, labels = [T, T], ["base", "same"]
        for ek, T2 in gen_edits(rng, T, pool):
            specs.append(concretise(rng, T2, rng.choice(BASENAMES), alg))
            trees.append(T2)
            labels.append(ek)
        groups.append((specs, trees, labels))
    sizes = SIZES_QUICK + ([] if ctx.quick else SIZES_MORE)
    for size in sizes:
        for alg in ALGS:
            if size > 10000 and size % 2 == 1 and alg != ALGS[(size // 2) % 2]:
                continue                          # odd large sizes: one algorithm each
            T, eds = size_group(rng, size, alg)
            specs = [concretise(rng, T, "base", alg), concretise(rng, T, "b", alg)]
            trees, labels = [T, T], ["base", "same"]
            for ek, T2 in eds:
                specs.append(concretise(rng, T2, "base", alg))
                trees.append(T2)
                labels.append(ek)
            groups.append((specs, trees, labels))

    _phase(ctx, "generated")
    results = vlib.pmap(w_group, [g[0] for g in groups], chunksize=4)
    _phase(ctx, "impl groups")
    # timeouts are re-run alone, with a longer limit, before anything is concluded from them
    for g, rs in zip(groups, results):
        for i, r in enumerate(rs):
            if r[0] == "timeout":
                timeouts += 1
                rs[i] = impl_tree(dict(g[0][i], tl=4 * TL))
    evals += sum(len(rs) for rs in results)

    # oracle on the code alone
    for (specs, trees, labels), rs in zip(groups, results):
        alg = specs[0]["alg"]
        for i in range(1, len(specs)):
            j = judge_pair(trees[0], trees[i], rs[0], rs[i], alg)
            if j:
                failures.append({"kind": j[0], "why": j[1], "A": trees[0], "B": trees[i],
                                 "sa": specs[0], "sb": specs[i], "edit": labels[i]})

    # model on every materialisation
    mcases, mwhere = [], []
    for gi, ((specs, trees, labels), rs) in enumerate(zip(groups, results)):
        for i, (s, r) in enumerate(zip(specs, rs)):
            if sum(len(e[2]) for e in s["entries"] if e[1] == "f") <= MODEL_MAX and wire_safe(s):
                mcases.append(model_case(s, r[2]))
                mwhere.append((gi, i))
    _phase(ctx, "oracle + model cases built")
    mres = run_model_spread(mcases, ctx.seed)
    _phase(ctx, "model groups")
    gen_bug = None
    for (gi, i), mc, mr in zip(mwhere, mcases, mres):
        specs, trees, labels = groups[gi]
        r = results[gi][i]
        canon_f, noout_f, skel, opt = mr
        if skel_tree(skel, None) != abs_skel(trees[i]) or (noout_f == "T") == has_outside(trees[i]):
            gen_bug = gen_bug or {"spec": specs[i], "tree": tree_json(trees[i]), "model_skeleton": skel}
            continue
        if opt == []:
            want: Any = "outside"
            got: Any = r[0]
        else:
            want = model_dict(opt[0], skel, specs[i]["alg"])
            got = r[1] if r[0] == "ok" else r[0]
        if want != got and r[0] != "timeout":
            if len(disagreements) < 50:
                disagreements.append({"kind": "tree", "edit": labels[i], "spec": specs[i],
                                      "model": want if len(str(want)) < 2000 else str(want)[:2000],
                                      "impl": got if len(str(got)) < 2000 else str(got)[:2000]})
    small = [k for k, c in enumerate(mcases) if len(vlib.sx_dumps(c)) < 1500]
    xc = crosscheck([mcases[k] for k in small], [mres[k] for k in small], "c19tree", ctx.budget(40, 120))
    for k in small[:2]:
        ctx.sample({"case": mcases[k], "model": mres[k]})
    _phase(ctx, "compare + crosscheck trees")

    # ---------------- 2. exhaustive small domain: dicts equal <=> trees equal, over all pairs
    dom = small_domain(["a", "b"] if ctx.quick else ["a", "b", "c"])
    dspecs = [concretise(rng, T, "base", "sha256") for T in dom]
    dres = [r for part in vlib.pmap(w_group, [dspecs[i:i + 16] for i in range(0, len(dspecs), 16)]) for r in part]
    evals += len(dres)
    by_result: Dict[str, int] = {}
    dom_pairs = 0
    inside = 0
    for k, (T, s, r) in enumerate(zip(dom, dspecs, dres)):
        if r[0] == "timeout":
            timeouts += 1
            continue
        j = judge_pair(T, T, r, r, "sha256")
        if j:
            failures.append({"kind": j[0], "why": j[1], "A": T, "B": T, "sa": s, "sb": s, "edit": "small-domain"})
            continue
        if has_outside(T):
            continue
        inside += 1
        key = json.dumps(r[1], sort_keys=True)
        if key in by_result:
            o = by_result[key]                    # distinct trees by construction
            failures.append({"kind": "edit-not-detected", "why": "two different trees of the small domain share a hashsum dict",
                             "A": dom[o], "B": T, "sa": dspecs[o], "sb": s, "edit": "small-domain"})
        else:
            by_result[key] = k
    dom_pairs = inside * (inside - 1) // 2
    dm = vlib.run_model("c19", [model_case(s, r[2]) for s, r in zip(dspecs, dres)])
    for T, s, r, mr in zip(dom, dspecs, dres, dm):
        want = "outside" if mr[3] == [] else model_dict(mr[3][0], mr[2], "sha256")
        got = r[1] if r[0] == "ok" else r[0]
        if want != got and r[0] != "timeout" and len(disagreements) < 50:
            disagreements.append({"kind": "tree", "edit": "small-domain", "spec": s, "model": want, "impl": got})

    _phase(ctx, "small domain")
    # ---------------- 2b. one process, one path, many states: nothing may survive from an earlier call
    jobs = []
    for _ in range(ctx.budget(40, 320)):
        T, pool = gen_tree(rng, outside=False)
        jobs.append(gen_job(rng, T, pool, rng.choice(ALGS)))
    jres = vlib.pmap(impl_inplace, jobs)
    evals += sum(len(r) + sum(3 * len(x[3]) for x in r) for r in jres)
    job_steps = sum(len(j["steps"]) for j in jobs)
    jm_cases, jm_where = [], []
    for ji, (job, rs) in enumerate(zip(jobs, jres)):
        if any(r[0] == "timeout" for r in rs):
            timeouts += 1
            continue
        bad = judge_job(job, rs)
        if bad:
            k, jk, why = bad[0]
            failures.append({"kind": "inplace", "judge": jk, "why": why, "job": job, "step": k})
        for k, (st, r) in enumerate(zip(job["steps"], rs)):
            if wire_safe(st["spec"]):
                jm_cases.append(model_case(st["spec"], r[2]))
                jm_where.append((ji, k))
    jm = run_model_spread(jm_cases, ctx.seed + 1)
    for (ji, k), mr in zip(jm_where, jm):
        st, r = jobs[ji]["steps"][k], jres[ji][k]
        want = "outside" if mr[3] == [] else model_dict(mr[3][0], mr[2], st["spec"]["alg"])
        got = r[1] if r[0] == "ok" else r[0]
        if want != got and len(disagreements) < 50:
            disagreements.append({"kind": "same-process", "step": k, "what": st["what"], "spec": st["spec"],
                                  "model": str(want)[:600], "impl": str(got)[:600]})
    _phase(ctx, "same-process sequences")
    # ---------------- 2c. symlink chains: links to links, through linked directories, loops, out and back
    cgroups = []      # (specs, finals [(tree, loop)], labels, features)
    for _ in range(ctx.budget(70, 700)):
        T, pool = gen_tree(rng, outside=False)
        cw, feats = gen_chain_world(rng, T)
        alg = rng.choice(ALGS)
        names = rng.sample(BASENAMES, 2)
        worlds = [("base", cw, names[0]), ("same", cw, names[1])]
        worlds += [(k, c, rng.choice(BASENAMES)) for k, c in chain_edits(rng, cw)]
        specs = [spec_of_world(rng, c, nm, alg) for _, c, nm in worlds]
        cgroups.append((specs, [final_of_spec(sp) for sp in specs], [k for k, _, _ in worlds], feats))
    cres = vlib.pmap(w_group, [g[0] for g in cgroups], chunksize=4)
    for g, rs in zip(cgroups, cres):
        for i, r in enumerate(rs):
            if r[0] == "timeout":
                timeouts += 1
                rs[i] = impl_tree(dict(g[0][i], tl=4 * TL))
    evals += sum(len(rs) for rs in cres)
    chain_pairs = set()
    for (specs, finals, labels, feats), rs in zip(cgroups, cres):
        for i in range(1, len(specs)):
            (A, la), (B, lb) = finals[0], finals[i]
            j = judge_chain(A, la, B, lb, rs[0], rs[i], specs[0]["alg"])
            if not (la or lb or has_outside(A) or has_outside(B)):
                chain_pairs.add((vlib.signature(tree_json(A)), vlib.signature(tree_json(B)), labels[i] == "same"))
            if j:
                failures.append({"kind": "chainpair", "judge": j[0], "why": j[1], "edit": labels[i],
                                 "sa": specs[0], "sb": specs[i], "feats": feats})
    cm_cases, cm_where = [], []
    for gi, ((specs, finals, labels, feats), rs) in enumerate(zip(cgroups, cres)):
        for i, (sp, r) in enumerate(zip(specs, rs)):
            if wire_safe(sp) and r[0] != "timeout":
                cm_cases.append(model_case_c(sp, r[2]))
                cm_where.append((gi, i))
    cm = run_model_spread(cm_cases, ctx.seed + 2) if cm_cases else []
    for (gi, i), mr in zip(cm_where, cm):
        specs, finals, labels, feats = cgroups[gi]
        r, (A, lp) = cres[gi][i], finals[i]
        if (mr[0] == "T") != lp or mr[1] == "T" or skel_tree(mr[2], None) != abs_skel(A):
            gen_bug = gen_bug or {"spec": specs[i], "tree": tree_json(A), "model_flags": mr[:2], "model_skeleton": mr[2]}
            continue
        if mr[3] == []:
            ok = r[0] in (({"loop"} if lp else set()) | ({"outside"} if has_outside_real(A) else set()))
            want, got = "raises (loop -> RuntimeError, outside -> ValueError)", r[0]
        else:
            want = model_dict(mr[3][0], mr[2], specs[i]["alg"])
            got = r[1] if r[0] == "ok" else r[0]
            ok = want == got
        if not ok and len(disagreements) < 50:
            disagreements.append({"kind": "chain", "edit": labels[i], "spec": specs[i],
                                  "model": str(want)[:600], "impl": str(got)[:600]})
    smallc = [k for k, c in enumerate(cm_cases) if len(vlib.sx_dumps(c)) < 1500]
    xc3 = crosscheck_c([cm_cases[k] for k in smallc], [cm[k] for k in smallc], "c19chain", ctx.budget(25, 80))
    _phase(ctx, "symlink chains")
    # ---------------- 3. the hashing functions and the read loop
    hcases = []
    for size in sizes:
        for alg in ALGS:
            data = mk_content(rng, size, True)
            for mode in ("bytes", "stream", "file", "rec-stream"):
                hcases.append({"mode": mode, "alg": alg, "data": data})
            hcases.append({"mode": "short", "alg": alg, "data": data,
                           "cuts": [rng.choice([1, 2, 7, 63, 64, 65, 1000]) for _ in range(rng.randint(1, 5))]})
        data = mk_content(rng, size, True)
        for skip in sorted({0, 1, 512, size, size + 5, max(0, size - 1)}):
            hcases.append({"mode": "record-skip", "alg": "sha256", "data": data, "skip": skip})
        if size <= 8193:
            for n in (1, 3, 64, 100, 128):
                if size // n <= 9000:
                    hcases.append({"mode": "rec-hash", "alg": "x-rec", "data": data, "n": n})
    for alg in ("md5", "sha1", "SHA256", "", "sha-256", "x-rec"):
        hcases.append({"mode": "badalg", "alg": alg, "data": b"abc"})
    hres = vlib.pmap(impl_hash, hcases, chunksize=8)
    evals += len(hres)
    mh_cases, mh_idx = [], []
    for k, (c, r) in enumerate(zip(hcases, hres)):
        if r[0] == "timeout":
            timeouts += 1
            continue
        data, mode = c["data"], c["mode"]
        bad = None
        if r[0] != "ok":
            bad = f"raised {r}"
        elif mode in ("bytes", "stream", "file", "short"):
            if r[1] != std_digest(c["alg"], data):
                bad = f"{r[1]} is not the standard digest {std_digest(c['alg'], data)}"
        elif mode == "record-skip":
            if r[1] != std_digest("sha256", data[c["skip"]:]):
                bad = f"hashsum_file(skip_bytes={c['skip']}) = {r[1]}, standard digest of the rest is {std_digest('sha256', data[c['skip']:])}"
        elif mode == "rec-stream":
            if r[1][0] != std_digest(c["alg"], data) or "".join(r[1][2]).encode("latin-1") != data:
                bad = "read loop does not feed every byte once and in order"
            if len(data) <= MODEL_MAX:
                mh_cases.append(["chunks", BLOCK[c["alg"]], data])
                mh_idx.append(k)
        elif mode == "rec-hash":
            if r[1][0].encode("latin-1") != data:
                bad = "read loop does not feed every byte once and in order (recording hash)"
            mh_cases += [["chunks", c["n"], data], ["hash", c["n"], data]]
            mh_idx += [k, k]
        elif mode == "badalg":
            if r[1] != "ValueError":
                bad = f"unsupported algorithm {c['alg']!r}: {r[1]}"
        if bad:
            failures.append({"kind": "hash", "why": bad, "hcase": c})
    _phase(ctx, "impl hash")
    mh = vlib.run_model("c19", mh_cases)
    _phase(ctx, "model hash")
    for k, mc, mr in zip(mh_idx, mh_cases, mh):
        c, r = hcases[k], hres[k]
        if c["mode"] == "rec-stream":
            got = r[1][2]
            if r[1][1] != [BLOCK[c["alg"]]]:
                disagreements.append({"kind": "read-size", "alg": c["alg"], "requested": r[1][1]})
        else:
            got = r[1][1] if mc[0] == "chunks" else r[1][0]
        if got != mr and len(disagreements) < 50:
            disagreements.append({"kind": mc[0], "n": mc[1], "size": len(c["data"]), "mode": c["mode"],
                                  "model": str(mr)[:300], "impl": str(got)[:300]})
    smallh = [k for k, c in enumerate(mh_cases) if len(vlib.sx_dumps(c)) < 600]
    xc2 = crosscheck([mh_cases[k] for k in smallh], [mh[k] for k in smallh], "c19hash", 20)

    _phase(ctx, "crosscheck hash")
    # ---------------- 4. observation outside the model: chains of links
    chain = {"name": "base", "alg": "sha256", "mtimes": [1, 2, 3, 4],
             "entries": [[["f"], "f", "x"], [["l1"], "l", "f"], [["l2"], "l", "l1"]]}
    cr = impl_tree(chain)
    if cr[0] == "ok":
        ctx.notes.append("observation: with chains the code identifies directories by the FINAL targets of their links "
                         "(theorem C19_chain_identify, Example C19_chain_observation): shortening a chain by one hop leaves the "
                         "hashsum tree unchanged; a loop is refused with RuntimeError('Symlink loop ...') from Path.resolve, "
                         "EXCEPT (CPython realpath+abspath) when the text after the looping link contains '..' that lexically "
                         "removes it: then nothing is raised and a lexically collapsed path is recorded (a -> a/../f gives "
                         "'symlink:f'); modelled in DirHashChain.v (finish/kwalk), Example C19_chain_cases")
        ctx.notes.append(f"observation (outside the model, not judged): a link to a link is recorded with the final "
                         f"target: l2 -> l1 -> f gives {cr[1].get('l2')!r}")

    # ---------------- report oracle failures: one violation per distinct shrunk signature
    seen = set()
    for f in failures:
        if len(seen) >= 8:
            break
        if f["kind"] == "hash":
            c = f["hcase"]
            sig = {"kind": "hash", "mode": c["mode"]}
            if vlib.signature(sig) in seen:
                continue
            seen.add(vlib.signature(sig))
            rep = {"kind": "hash", "mode": c["mode"], "alg": c["alg"], "data": c["data"].decode("latin-1"),
                   **{k: c[k] for k in ("cuts", "skip", "n") if k in c}}
            ctx.violation(f"hashing ({c['mode']}, {c['alg']}, {len(c['data'])} bytes): {f['why']}", rep, sig_obj=sig)
            continue
        if f["kind"] == "chainpair":
            sig = {"kind": "chain", "judge": f["judge"]}
            if vlib.signature(sig) in seen:
                continue
            seen.add(vlib.signature(sig))
            ra, rb = impl_tree(f["sa"]), impl_tree(f["sb"])
            ctx.violation(
                f"dir_hashsums on a directory with symlink chains ({f['edit']}; features {f['feats']}): {f['judge']}: {f['why']}",
                {"kind": "chainpair", "failure": f["judge"], "edit": f["edit"], "a": f["sa"], "b": f["sb"],
                 "final_a": tree_json(final_of_spec(f["sa"])[0]), "final_b": tree_json(final_of_spec(f["sb"])[0]),
                 "impl_a": [ra[0], ra[1]], "impl_b": [rb[0], rb[1]]},
                sig_obj=sig)
            continue
        if f["kind"] == "inplace":
            st = f["job"]["steps"][f["step"]]
            pre = {"kind": "same-process-state", "op": st["op"], "judge": f["judge"], "what": st["what"].split(":")[0]}
            if vlib.signature(pre) in seen:
                continue
            small = shrink_job(f["job"], f["step"], f["judge"])
            last = small["steps"][-1]
            nodes = (diff_kinds(tree_unjson(small["steps"][-2]["tree"]), tree_unjson(last["tree"]))
                     if len(small["steps"]) > 1 else [])
            sig = {"kind": "same-process-state", "op": last["op"], "judge": f["judge"], "nodes": nodes}
            if vlib.signature(sig) in seen:
                continue
            seen.add(vlib.signature(sig))
            seen.add(vlib.signature(pre))
            rs = impl_inplace(small)
            ctx.violation(
                f"dir_hashsums/file_hashsum depend on what the process hashed before ({st['what']}): {f['judge']}: "
                f"{f['why']}; shrunk: {json.dumps(sig)}",
                {"kind": "inplace", "job": small, "steps": [x["what"] for x in small["steps"]],
                 "impl": [[r[0], r[1], r[3]] for r in rs]},
                sig_obj=sig)
            continue
        pre = sig_of(f["kind"], f["A"], f["B"])
        if vlib.signature(pre) in seen:
            continue
        A, B, sa, sb = shrink_pair(f["kind"], f["A"], f["B"], f["sa"], f["sb"])
        sig = sig_of(f["kind"], A, B)
        if vlib.signature(sig) in seen:
            continue
        seen.add(vlib.signature(sig))
        seen.add(vlib.signature(pre))
        ra, rb = impl_tree(sa), impl_tree(sb)
        ctx.violation(
            f"dir_hashsums: {f['kind']} ({f['edit']}): {f['why']}; shrunk: {json.dumps(sig)}",
            {"kind": "pair", "failure": f["kind"], "edit": f["edit"], "a": sa, "b": sb,
             "tree_a": tree_json(A), "tree_b": tree_json(B),
             "impl_a": [ra[0], ra[1]], "impl_b": [rb[0], rb[1]]},
            sig_obj=sig)

    # ---------------- coverage
    all_trees = [t for g in groups for t in g[1]] + dom
    distinct_trees = {vlib.signature(tree_json(t)) for t in all_trees}
    distinct_pairs = {(vlib.signature(tree_json(g[1][0])), vlib.signature(tree_json(t)))
                      for g in groups for t in g[1][2:]}
    nodes = [n for t in all_trees for _, n in walk(t)]
    cov["evaluations"] = evals
    cov["distinct_nontrivial"] = len(distinct_pairs) + inside + len(chain_pairs)
    cov["rule"] = ("generated trees (<= 4 levels, files/links/dirs, 3 contents per tree so that equal files are frequent) each "
                   "materialised twice (spelling, order, mtimes, base name differ) and once per applicable single-edit kind, plus "
                   "one-file trees for every size around the block boundaries; distinct_nontrivial = distinct (tree, single edit "
                   "of it) pairs judged by the oracle (the two trees differ as directory content) + distinct outside-free trees "
                   "of the small domain, each compared with every other one by grouping on the result (pair count: "
                   "input_distribution.small_domain_pairs); evaluations = calls of dir_hashsums / hashing functions on the real code")
    cov["exhaustive"] = False
    cov["exhaustive_part"] = ("small domain: every chain-free tree over the top-level names a,b (quick) / a,b,c (thorough) with "
                              "13-15 node choices per name; dicts equal <=> trees equal over all pairs")
    cov["input_distribution"] = {
        "groups": len(groups), "materialisations": sum(len(g[0]) for g in groups),
        "distinct_trees": len(distinct_trees), "small_domain_trees": len(dom), "small_domain_pairs": dom_pairs,
        "edit_kinds": _hist(lab.split("@")[0] for g in groups for lab in g[2][1:]),
        "node_kinds": _hist(node_kind(t, n) for t in all_trees for _, n in walk(t)),
        "link_spellings": _hist(st for g in groups for s in g[0] for st in s["styles"]),
        "file_sizes": _hist(len(n[1]) for n in nodes if n[0] == "f" and (len(n[1]) > 12)),
        "small_files_0_12": sum(1 for n in nodes if n[0] == "f" and len(n[1]) <= 12),
        "tree_entries": _hist(min(20, sum(1 for _ in walk(g[1][0]))) for g in groups),
        "depth": _hist(max([len(p) for p, _ in walk(g[1][0])] or [0]) for g in groups),
        "trees_with_outside_link": sum(1 for t in all_trees if has_outside(t)),
        "relative_dir_argument": sum(1 for g in groups for s in g[0] if s["relcall"]),
        "chain_groups": len(cgroups), "chain_materialisations": sum(len(g[0]) for g in cgroups),
        "chain_features": _hist(f for g in cgroups for f in g[3]),
        "chain_edits": _hist(lab for g in cgroups for lab in g[2][1:]),
        "chain_outcomes": _hist(r[0] for rs in cres for r in rs),
        "chain_trees_with_loop": sum(1 for g in cgroups for _, lp in g[1] if lp),
        "chain_distinct_judged_pairs": len(chain_pairs),
        "same_process_jobs": len(jobs), "same_process_steps": job_steps,
        "same_process_ops": _hist(st["op"] + (":rel" if st.get("rel") else "") for j in jobs for st in j["steps"]),
        "hash_cases": _hist(c["mode"] for c in hcases), "hash_sizes": sizes,
        "model_tree_cases": len(mcases) + len(dm) + len(jm_cases), "model_hash_cases": len(mh_cases),
        "timeouts_rerun_alone": timeouts,
    }
    cov["coq_crosscheck"] = {"tree": xc, "hash": xc2, "chain": xc3}
    cov["disagreements"] = len(disagreements)
    ctx.assumptions += [
        "chain-free trees are compared with the lexical model (DirHash.v), trees with symlink chains / loops / links through "
        "linked directories with the realpath model (DirHashChain.v); chains longer than the kernel limit of 40 hops are not generated",
        "entry names are valid file names (no '/', not '.', '..'), code points < 256; only regular files, directories, symlinks",
        "SHA-256/SHA-512 do not collide on the compared payloads; hashlib objects are streaming hashes",
        "the directory is not modified while it is hashed",
    ]

    if gen_bug:
        ctx.violation("harness: generated tree and the model's normalised skeleton differ (generator or rel_symlink model wrong)",
                      {"kind": "generator", "correspondence": "harness/props/c19.py spell() vs coq/Util/DirHash.v normalise", **gen_bug},
                      found_input=False)
    if not xc["ok"] or not xc2["ok"] or not xc3["ok"]:
        ctx.violation("extracted runner and in-Coq evaluation of the model disagree (stale or wrong extraction)",
                      {"kind": "crosscheck", "tree": xc, "hash": xc2, "chain": xc3}, found_input=False)
    if not proof["ok"]:
        ctx.violation("proof obligations of Properties/C19.v do not check: " + "; ".join(proof["problems"])[:500],
                      {"kind": "proof", "theorem_file": "coq/Properties/C19.v", "problems": proof["problems"]},
                      found_input=False)
    if disagreements and not ctx.violations and not ctx.known_hits:
        ctx.violation("model/implementation correspondence broken but the property oracle found no failing input",
                      {"kind": "correspondence",
                       "correspondence": "coq/Util/DirHash.v run_c19 vs metador_core.util.hashsums (theorems C19_hashsums_identify, C19_chunked_eq_oneshot)",
                       "smallest_disagreement": min(disagreements, key=lambda d: len(json.dumps(d, default=str))),
                       "count": len(disagreements)},
                      found_input=False)
    elif disagreements:
        d0 = min(disagreements, key=lambda d: len(json.dumps(d, default=str)))
        ctx.notes.append(f"{len(disagreements)} model/impl disagreements (smallest: {json.dumps(d0, default=str)[:600]})")
    if timeouts:
        ctx.notes.append(f"{timeouts} calls hit the {TL}s limit under load and were re-run alone")
    # generated tie: qualified_hashsum is re-translated from the current source and proved equal to
    # Util/DirHash.v `qualified` (coq/Gen/Equiv_hashsums.v)
    gentie.report(ctx)


# ------------------------------------------------------------------ replay

def replay(rep) -> int:
    """Re-evaluate the recorded failing case on the current tree; 1 if it still fails."""
    vlib._pool_init()
    kind = rep.get("kind")
    if kind == "pair":
        A, B = tree_unjson(rep["tree_a"]), tree_unjson(rep["tree_b"])
        sa, sb = rep["a"], rep["b"]
        ra, rb = impl_tree(sa), impl_tree(sb)
        print("a:", json.dumps(tree_json(A)), "->", ra[0], ra[1])
        print("b:", json.dumps(tree_json(B)), "->", rb[0], rb[1])
        j = judge_pair(A, B, ra, rb, sa["alg"])
        print(f"still failing: {j[0]}: {j[1]}" if j else "no longer failing")
        return 1 if j else 0
    if kind == "chainpair":
        sa, sb = rep["a"], rep["b"]
        (A, la), (B, lb) = final_of_spec(sa), final_of_spec(sb)
        ra, rb = impl_tree(sa), impl_tree(sb)
        print("a: final", json.dumps(tree_json(A))[:300], "loop" if la else "", "->", ra[0], str(ra[1])[:200])
        print("b: final", json.dumps(tree_json(B))[:300], "loop" if lb else "", "->", rb[0], str(rb[1])[:200])
        j = judge_chain(A, la, B, lb, ra, rb, sa["alg"])
        print(f"still failing: {j[0]}: {j[1]}" if j else "no longer failing")
        return 1 if j else 0
    if kind == "inplace":
        job = rep["job"]
        rs = impl_inplace(job)
        for st, r in zip(job["steps"], rs):
            print(f"{st['op']:9s} {st['what']}: {r[0]} {str(r[1])[:150]}")
        bad = judge_job(job, rs)
        for k, jk, why in bad:
            print(f"still failing at step {k}: {jk}: {why}")
        if not bad:
            print("no longer failing")
        return 1 if bad else 0
    if kind == "hash":
        c = {k: rep[k] for k in ("mode", "alg", "cuts", "skip", "n") if k in rep}
        c["data"] = rep["data"].encode("latin-1")
        r = impl_hash(c)
        data = c["data"]
        if c["mode"] in ("bytes", "stream", "file", "short"):
            ok = r == ("ok", std_digest(c["alg"], data))
        elif c["mode"] == "record-skip":
            ok = r == ("ok", std_digest("sha256", data[c["skip"]:]))
        elif c["mode"] == "rec-stream":
            ok = r[0] == "ok" and r[1][0] == std_digest(c["alg"], data) and "".join(r[1][2]).encode("latin-1") == data
        elif c["mode"] == "rec-hash":
            ok = r[0] == "ok" and r[1][0].encode("latin-1") == data
        else:
            ok = r == ("ok", "ValueError")
        print(r if len(str(r)) < 400 else str(r)[:400])
        print("no longer failing" if ok else "still failing")
        return 0 if ok else 1
    print("replay names a proof obligation or correspondence; re-run the check itself")
    return 1
