"""C18 — directory diffs are exact and safely ordered.

Correspondence: real ``DirDiff.compare`` / ``DiffNode.nodes`` / ``DirDiff.get`` / ``status``
against the extracted Gallina model (coq/Util/Diff.v) on
  * every ordered pair of canonical trees with <= 4 nodes (root included) over 2 names and
    3 leaf values (2 file digests + 1 symlink), and
  * random larger pairs (<= 40 nodes; empty dirs, symlinks, file<->dir replacements, names
    chosen to exercise the sibling sort), the second tree mostly derived from the first by edits.
The implementation is fed Python dicts in *shuffled* insertion order; the model gets the
canonical (key-sorted) form.  Compared: ``is_empty``, the ``nodes()`` list in order with
path/status/prev/curr/prev_type/curr_type and the three child buckets, ``get``+``status`` on
every path of either tree and on absent paths, and the result of consuming the listing as a
script of shallow file-system steps.

Oracle on the code alone (no model): is_empty iff the dicts are equal; the set of listed
paths is exactly the set of paths whose subtrees differ, each with the right status and
prev/curr; no path listed twice; a removed node precedes and an added node follows its
parent's own entry, the parent being listed; consuming ``nodes()`` in order with shallow steps
(rmdir needs an empty dir, mkdir needs an existing parent) is never refused and turns prev
into curr (in memory for every case; on a real directory with os.rmdir/os.mkdir for a sample,
where ``annotate`` is checked too); ``get(p)`` is the listed node with path p, else None, and
its status is "unchanged" exactly where the two snapshots agree (absent paths included).

``annotate`` (modelled as the code is, including its ``{}`` for an empty diff, which the docstring
does not promise -- outside the property text, kept as a note): compared item by item with the
model for the directory as curr and as prev on every case (directory listing stubbed from the
tree) and on real materialised directories for a sample; code-only: keys distinct, nodes first in
nodes() order, every existing path a key, values equal get(), unchanged tail sorted.
prev_type/curr_type: compared with the model and, code-only, with the kinds of the old/new entry.

Theorems also include C18_annotate_covers, C18_annotate_order, C18_node_types, and the
composition with C19, C18_C19_change_detected / C18_C19_changed_paths (coq/Util/PackerDetect.v):
tied at code level by ``detect_case`` -- two materialised directories, real ``dir_hashsums`` on
both, the old table through JSON (as stored in the container), real ``DirDiff.compare``; is_empty
and the reported paths against an independent os-level walk (bytes, resolved link targets,
directory entries).  Oracle class ``packer-detect``.
Theorems (coq/Properties/C18.v, all closed under the global context): C18_compare_none_iff,
C18_reported_iff (sound + complete listing, status/prev/curr, no duplicates), C18_order_safe
(parent listed; removed before / added after it, as list positions), C18_get_agrees,
C18_script_correct (consuming the listing with shallow steps is never refused and yields curr).
Every quantity these speak about is compared here: is_empty, the ordered node list with
path/status/prev/curr, get+status on present and absent paths, the consumed script.
"""
from __future__ import annotations

import itertools
import json
import os
from typing import Any, Dict, List, Optional, Tuple

import gentie
import vlib

NAMES2 = ["a", "b"]
LEAVES3 = ["sha256:00", "sha256:01", "symlink:a"]
# names for the random part: sort-order traps (case, prefix, punctuation, digits)
NAMES = ["a", "b", "ab", "a.b", "a-b", "B", "Z", "a0", "_x", "a b", "b~", "10", "9", "c"]
LEAF_POOL = ["sha256:" + h for h in ("00", "01", "ab12", "ffee")] + ["symlink:a", "symlink:a/b", "symlink:c"]

Tree = Any  # None | str | dict


# ---------------------------------------------------------------------------- trees

def canon(t: Tree) -> Any:
    if isinstance(t, dict):
        return ["d", [[k, canon(t[k])] for k in sorted(t)]]
    return ["f", t]


def ent_sx(e: Tree) -> Any:
    return [] if e is None else [canon(e)]


def size(t: Tree) -> int:
    if t is None:
        return 0
    if isinstance(t, dict):
        return 1 + sum(size(v) for v in t.values())
    return 1


def sub(t: Tree, parts) -> Tree:
    for seg in parts:
        if not isinstance(t, dict) or seg not in t:
            return None
        t = t[seg]
    return t


def all_paths(t: Tree, pre=()) -> List[tuple]:
    if t is None:
        return []
    out = [pre]
    if isinstance(t, dict):
        for k in t:
            out += all_paths(t[k], pre + (k,))
    return out


def shuffled(t: Tree, rng) -> Tree:
    """Same dict, random insertion order at every level."""
    if isinstance(t, dict):
        ks = list(t)
        rng.shuffle(ks)
        return {k: shuffled(t[k], rng) for k in ks}
    return t


def deep(t: Tree) -> Tree:
    return {k: deep(v) for k, v in t.items()} if isinstance(t, dict) else t


def enum_entities(n: int, names, leaves) -> List[Tree]:
    """All entities with exactly n nodes."""
    if n <= 0:
        return []
    out: List[Tree] = list(leaves) if n == 1 else []
    # directories: choose a subset of names and distribute n-1 nodes
    for r in range(0, len(names) + 1):
        for ks in itertools.combinations(names, r):
            if r == 0:
                if n == 1:
                    out.append({})
                continue
            for split in _compositions(n - 1, r):
                pools = [enum_entities(s, names, leaves) for s in split]
                for combo in itertools.product(*pools):
                    out.append(dict(zip(ks, combo)))
    return out


def _compositions(total: int, parts: int):
    if parts == 1:
        if total >= 1:
            yield (total,)
        return
    for first in range(1, total - parts + 2):
        for rest in _compositions(total - first, parts - 1):
            yield (first,) + rest


def small_trees(maxnodes: int) -> List[Tree]:
    out = []
    for n in range(1, maxnodes + 1):
        out += [t for t in enum_entities(n, NAMES2, LEAVES3) if isinstance(t, dict)]
    return out


def rand_tree(rng, target: int) -> Tree:
    """Random directory with (up to) `target` nodes, itself included: nodes are attached one by
    one to a random existing directory."""
    t: Dict[str, Any] = {}
    dirs = [t]
    n, tries = 1, 0
    while n < target and tries < 4 * target:
        tries += 1
        d = rng.choice(dirs)
        free = [x for x in NAMES if x not in d]
        if not free:
            continue
        k = rng.choice(free)
        if rng.random() < 0.35:
            d[k] = {}
            dirs.append(d[k])
        else:
            d[k] = rng.choice(LEAF_POOL)
        n += 1
    return t


def mutate(rng, t: Tree, edits: int, budget: int) -> Tree:
    t = deep(t)
    for _ in range(edits):
        paths = [p for p in all_paths(t) if p]
        dirs = [p for p in all_paths(t) if isinstance(sub(t, p), dict)]
        op = rng.choice(["del", "add", "chg", "f2d", "d2f", "ren", "addtree"])
        if op in ("del", "chg", "f2d", "d2f", "ren") and not paths:
            op = "add"
        if op == "del":
            p = rng.choice(paths)
            del sub(t, p[:-1])[p[-1]]
        elif op in ("add", "addtree"):
            d = sub(t, rng.choice(dirs))
            free = [n for n in NAMES if n not in d]
            if free and size(t) < budget:
                k = rng.choice(free)
                if op == "add":
                    d[k] = rng.choice(LEAF_POOL + [{}])
                else:
                    d[k] = rand_tree(rng, max(1, min(8, budget - size(t))))
        elif op == "chg":
            leaves = [p for p in paths if isinstance(sub(t, p), str)]
            if leaves:
                p = rng.choice(leaves)
                sub(t, p[:-1])[p[-1]] = rng.choice(LEAF_POOL)
        elif op == "f2d":
            leaves = [p for p in paths if isinstance(sub(t, p), str)]
            if leaves and size(t) < budget:
                p = rng.choice(leaves)
                sub(t, p[:-1])[p[-1]] = rand_tree(rng, max(1, min(6, budget - size(t))))
        elif op == "d2f":
            ds = [p for p in paths if isinstance(sub(t, p), dict)]
            if ds:
                p = rng.choice(ds)
                sub(t, p[:-1])[p[-1]] = rng.choice(LEAF_POOL)
        elif op == "ren":
            p = rng.choice(paths)
            d = sub(t, p[:-1])
            free = [n for n in NAMES if n not in d]
            if free:
                d[rng.choice(free)] = d.pop(p[-1])
    return t


def queries_for(a: Tree, b: Tree, rng=None) -> List[tuple]:
    ps = sorted(set(all_paths(a)) | set(all_paths(b)) | {()})
    extra = {("zz",), ("a", "zz"), ("zz", "a")}
    for p in ps[:6]:
        extra.add(p + ("zz",))
        extra.add(p + ("a", "b"))
    if rng is not None and ps:
        for _ in range(3):
            extra.add(rng.choice(ps) + (rng.choice(NAMES),))
    return ps + sorted(extra - set(ps))


# ---------------------------------------------------------------------------- impl side

def _type_str(t) -> str:
    return "n" if t is None else str(t.value)


def _kind(t: Tree) -> str:
    return "n" if t is None else "d" if isinstance(t, dict) else "s" if t.startswith("symlink:") else "f"


def _parts(p) -> List[str]:
    return list(p.parts)


def node_sx(n) -> Any:
    return [_parts(n.path), str(n.status().value), ent_sx(n.prev), ent_sx(n.curr),
            _type_str(n.prev_type), _type_str(n.curr_type),
            sorted(_parts(k) for k in n.removed), sorted(_parts(k) for k in n.modified),
            sorted(_parts(k) for k in n.added)]


def shallow(t: Tree) -> Tree:
    return {} if isinstance(t, dict) else t


def consume(prev: Tree, steps: List[Tuple[tuple, Tree, Tree]]) -> Tuple[str, Any]:
    """Reference consumer, in memory: one shallow file-system step per listed node."""
    holder = {"root": deep(prev)}
    for idx, (parts, pv, cu) in enumerate(steps):
        parent: Any = holder
        name = "root"
        cur = holder["root"]
        for seg in parts:
            if not isinstance(cur, dict):
                return "refused", f"step {idx} {'/'.join(parts)}: parent missing or not a directory"
            parent, name = cur, seg
            cur = cur.get(seg)
        here = cur
        nonempty_dir = isinstance(here, dict) and len(here) > 0
        if pv is None:
            if cu is None or here is not None:
                return "refused", f"step {idx} add {'/'.join(parts)}: location occupied"
            new = shallow(cu)
        elif cu is None:
            if here is None or nonempty_dir:
                return "refused", f"step {idx} remove {'/'.join(parts)}: missing or directory not empty"
            new = None
        else:
            if here is None:
                return "refused", f"step {idx} modify {'/'.join(parts)}: missing"
            if isinstance(pv, dict) and isinstance(cu, dict):
                if not isinstance(here, dict):
                    return "refused", f"step {idx} modify {'/'.join(parts)}: not a directory"
                continue
            if nonempty_dir:
                return "refused", f"step {idx} replace {'/'.join(parts)}: directory not empty"
            new = shallow(cu)
        if new is None:
            if parent is holder:
                parent["root"] = None
            else:
                del parent[name]
        else:
            parent[name] = new
    return "ok", holder["root"]


def oracle(prev: Tree, curr: Tree, queries) -> Tuple[Any, List[str]]:
    """Run the real code; return (observation in the model's result format, problems found by
    evaluating the property on the code's own answers)."""
    from pathlib import Path
    from metador_core.util.diff import DirDiff, DiffNode
    problems: List[str] = []
    dd = DirDiff.compare(prev, curr)
    empty = bool(dd.is_empty)
    nodes = [] if dd._diff_root is None else list(dd._diff_root.nodes())
    # (1) exactness of is_empty
    if empty != (prev == curr):
        problems.append(f"is_empty={empty} but prev {'==' if prev == curr else '!='} curr")
    # (2) reported set is exactly the set of differing paths, with status and entities
    listed: Dict[tuple, Any] = {}
    for n in nodes:
        p = tuple(n.path.parts)
        if p in listed:
            problems.append(f"path {'/'.join(p) or '.'} listed twice")
        listed[p] = n
    universe = set(all_paths(prev)) | set(all_paths(curr)) | set(listed)
    for p in sorted(universe):
        sa, sb = sub(prev, p), sub(curr, p)
        n = listed.get(p)
        name = "/".join(p) or "."
        if sa == sb:
            if n is not None:
                problems.append(f"unchanged path {name} is listed")
            continue
        if n is None:
            problems.append(f"changed path {name} is not listed")
            continue
        want = "+" if sa is None else "-" if sb is None else "~"
        if n.status().value != want or dd.status(n).value != want:
            problems.append(f"path {name}: status {n.status().value}, expected {want}")
        if n.prev != sa or n.curr != sb:
            problems.append(f"path {name}: prev/curr are not the old/new entries")
        # C18_node_types: the types are the kinds of the old/new entry; none iff added/removed
        if _type_str(n.prev_type) != _kind(sa) or _type_str(n.curr_type) != _kind(sb):
            problems.append(f"path {name}: prev_type/curr_type {_type_str(n.prev_type)}/{_type_str(n.curr_type)}"
                            f" are not the kinds of the old/new entries")
        elif (n.prev_type is None) != (want == "+") or (n.curr_type is None) != (want == "-"):
            problems.append(f"path {name}: prev_type/curr_type do not reflect status {want}")
    # (3) order safety: as positions ...
    pos = {tuple(n.path.parts): i for i, n in enumerate(nodes)}
    for n in nodes:
        p = tuple(n.path.parts)
        if not p:
            continue
        if p[:-1] not in pos:
            problems.append(f"parent of listed path {'/'.join(p)} is not listed")
            continue
        st = n.status().value
        if st == "-" and not pos[p] < pos[p[:-1]]:
            problems.append(f"removed {'/'.join(p)} is listed after its parent")
        if st == "+" and not pos[p] > pos[p[:-1]]:
            problems.append(f"added {'/'.join(p)} is listed before its parent")
    # ... and as a script
    st, res = consume(prev, [(tuple(n.path.parts), n.prev, n.curr) for n in nodes])
    if st != "ok":
        problems.append(f"consuming nodes() in order is refused: {res}")
        script = []
    else:
        if res != curr:
            problems.append("consuming nodes() in order does not produce the new tree")
        script = [ent_sx(res)]
    # (4) lookup agrees with the listing
    gets = []
    for q in queries:
        got = dd.get(Path(*q) if q else Path(""))
        want = listed.get(tuple(q))
        if got is not want and not (got is not None and want is not None and got == want):
            problems.append(f"get({'/'.join(q) or '.'}) disagrees with the listing")
        # ... and, directly, with the two snapshots (C18_get_agrees: None exactly where they agree,
        # absent paths included; otherwise the node of that path with the old and new entry)
        qa, qb = sub(prev, q), sub(curr, q)
        want_st = "0" if qa == qb else "+" if qa is None else "-" if qb is None else "~"
        if str(dd.status(got).value) != want_st:
            problems.append(f"get({'/'.join(q) or '.'}) has status {dd.status(got).value}, expected {want_st}")
        elif got is not None and (tuple(got.path.parts) != tuple(q) or got.prev != qa or got.curr != qb):
            problems.append(f"get({'/'.join(q) or '.'}) is not the node of that path with the old/new entries")
        if len(q) % 2 == 1:   # also the str form of the argument
            got2 = dd.get("/".join(q))
            if (got2 is None) != (got is None):
                problems.append(f"get(str) and get(Path) disagree on {'/'.join(q)}")
        gets.append([str(dd.status(got).value), [] if got is None else [node_sx(got)]])
    for n in nodes:
        for bucket in (n.removed, n.modified, n.added):
            for k, v in bucket.items():
                if k != v.path or k.parent != n.path:
                    problems.append(f"bucket key {k} does not match child path {v.path}")
    # (5) annotate: a third view of the listing.  In memory (dir_paths stubbed with the paths of
    # the given tree) for the directory as curr and as prev; the real rglob is exercised in fs_case.
    anns = []
    for t in (curr, prev):
        items = _annotate_mem(dd, t)
        anns.append([[list(k), str(dd.status(v).value)] for k, v in items])
        if empty:
            continue        # the code returns {} here (docstring promises more): observation only
        keys = [k for k, _v in items]
        if len(set(keys)) != len(keys):
            problems.append("annotate(): a path is a key twice")
        if [v for _k, v in items if v is not None] != list(nodes) or \
                any(v is not None for _k, v in items[len(nodes):]):
            problems.append("annotate(): the diff nodes are not listed first, in nodes() order")
        if not (set(all_paths(t)) | {()}) <= set(keys):
            problems.append("annotate(): an existing path of the directory is not a key")
        if not set(keys) <= set(all_paths(t)) | set(listed) | {()}:
            problems.append("annotate(): a key is neither a listed nor an existing path")
        for k, v in items:
            g = dd.get(Path(*k) if k else Path(""))
            if v is not g and not (v is not None and g is not None and v == g):
                problems.append(f"annotate(): value at {'/'.join(k) or '.'} differs from get()")
                break
        tail = keys[len(nodes):]
        if tail != sorted(tail):
            problems.append("annotate(): unchanged paths are not in sorted order")
    obs = ["T" if empty else "F", [node_sx(n) for n in nodes], gets, script] + anns
    return obs, problems


def _annotate_mem(dd, t: Tree):
    """DirDiff.annotate with the directory listing taken from the tree t instead of the disk."""
    from pathlib import Path
    import metador_core.util.diff as dm
    base = Path("BASE")
    saved = dm.dir_paths
    dm.dir_paths = lambda _b: iter([Path(*p) for p in all_paths(t) if p])
    try:
        ann = dd.annotate(base)
    finally:
        dm.dir_paths = saved
    return [(tuple(k.relative_to(base).parts), v) for k, v in ann.items()]


def _guard_case(case) -> Tuple[str, Any, List[str]]:
    prev, curr, queries = case
    try:
        with vlib.time_limit(30):
            obs, problems = oracle(prev, curr, queries)
            return "ok", obs, problems
    except Exception as e:  # noqa: BLE001
        return "exc", f"{type(e).__name__}: {e}"[:300], [f"raised {type(e).__name__}: {e}"[:200]]


def w_chunk(chunk):
    """chunk: list of (prev, curr, queries, keep).  Runs the extracted model and the real code on
    the chunk, compares, evaluates the oracle.  Returns per case
    (agree, problems, field, record-or-None, status counts, digest of the canonical pair)."""
    import hashlib
    mcases = [[ent_sx(a), ent_sx(b), [list(q) for q in qs]] for a, b, qs, _keep in chunk]
    mres = vlib.run_model("c18", mcases)
    out = []
    for (a, b, qs, keep), mc, want in zip(chunk, mcases, mres):
        st, got, problems = _guard_case((a, b, qs))
        agree = st == "ok" and got == want
        field = ""
        if not agree:
            field = "exception"
            if st == "ok":
                names = ["is_empty", "nodes", "get", "script", "annotate(curr)", "annotate(prev)"]
                field = next((nm for nm, x, y in zip(names, got, want) if x != y), "?")
        counts = {"+": 0, "-": 0, "~": 0}
        for n in want[1]:
            counts[n[1]] += 1
        dig = hashlib.md5(json.dumps(mc[:2]).encode()).hexdigest()[:16]
        rec = (mc, want, got) if (keep or not agree) else None
        out.append((agree, problems, field, rec, counts, dig))
    return out


# ---- real directory: shallow os-level steps + annotate

def _materialise(base, t: Tree):
    os.mkdir(base)
    for k, v in t.items():
        p = os.path.join(base, k)
        if isinstance(v, dict):
            _materialise(p, v)
        else:
            _mkleaf(p, v)


def _mkleaf(p, v: str):
    if v.startswith("symlink:"):
        os.symlink(v[len("symlink:"):], p)
    else:
        with open(p, "x") as fh:
            fh.write(v)


def _read_back(base) -> Tree:
    if os.path.islink(base):
        return "symlink:" + os.readlink(base)
    if os.path.isdir(base):
        return {k: _read_back(os.path.join(base, k)) for k in os.listdir(base)}
    with open(base) as fh:
        return fh.read()


def fs_case(case) -> List[str]:
    """Materialise prev, consume nodes() with os-level shallow steps, compare with curr, then
    check annotate() on the resulting directory."""
    from pathlib import Path
    from metador_core.util.diff import DirDiff
    prev, curr, want_ann = case
    problems: List[str] = []
    with vlib.workdir("c18") as wd:
        base = os.path.join(str(wd), "data")
        _materialise(base, prev)
        dd = DirDiff.compare(prev, curr)
        nodes = [] if dd._diff_root is None else dd._diff_root.nodes()
        try:
            for n in nodes:
                p = os.path.join(base, *n.path.parts)
                st = n.status().value
                if st == "-":
                    os.rmdir(p) if (os.path.isdir(p) and not os.path.islink(p)) else os.unlink(p)
                elif st == "+":
                    if os.path.lexists(p):
                        raise FileExistsError(p)
                    os.mkdir(p) if isinstance(n.curr, dict) else _mkleaf(p, n.curr)
                else:
                    if isinstance(n.prev, dict) and isinstance(n.curr, dict):
                        if not os.path.isdir(p) or os.path.islink(p):
                            raise NotADirectoryError(p)
                        continue
                    os.rmdir(p) if (os.path.isdir(p) and not os.path.islink(p)) else os.unlink(p)
                    os.mkdir(p) if isinstance(n.curr, dict) else _mkleaf(p, n.curr)
        except OSError as e:
            problems.append(f"os-level consumption of nodes() fails: {type(e).__name__} at "
                            f"{os.path.relpath(str(e.filename or ''), base)}")
            return problems
        if _read_back(base) != curr:
            problems.append("os-level consumption of nodes() does not produce the new tree")
            return problems
        # annotate on the directory that now equals curr
        ann = dd.annotate(Path(base))
        if want_ann is not None:
            got_ann = [[list(k.relative_to(base).parts), str(dd.status(v).value)] for k, v in ann.items()]
            if got_ann != want_ann:
                problems.append("MODEL annotate() on the real directory differs from the model's annotate")
        keys = list(ann.keys())
        want_head = [Path(base) / str(n.path) for n in nodes]
        if keys[:len(nodes)] != want_head or [ann[k] for k in keys[:len(nodes)]] != list(nodes):
            problems.append("annotate(): diff nodes are not listed first in nodes() order")
        rest = keys[len(nodes):]
        existing = {Path(base).joinpath(*p) for p in all_paths(curr) if p}
        listed = set(want_head)
        if not set(rest) <= existing - listed or any(ann[k] is not None for k in rest):
            problems.append("annotate(): a key beyond the diff nodes is not an unchanged existing path mapped to None")
        for k in rest:
            rel = k.relative_to(base).parts
            if sub(prev, rel) != sub(curr, rel):
                problems.append(f"annotate(): changed path {'/'.join(rel)} has no node")
        # documented, but not part of the property: every existing path is a key
        if set(rest) != existing - listed:
            problems.append("NOTE annotate(): not every unchanged path of the directory is a key"
                            + (" (empty diff)" if not nodes else ""))
    return problems


def w_fs(case):
    try:
        with vlib.time_limit(60):
            return fs_case(case)
    except Exception as e:  # noqa: BLE001
        return [f"raised {type(e).__name__}: {e}"[:200]]



# ---- packer change detection: real dir_hashsums x2 -> real DirDiff.compare, against an independent walk

def _disk_entry(base: str, p: str):
    """Content of the entry p below base, by an independent walk (os.* only): files by bytes,
    links by the resolved target relative to the directory, directories by their entries."""
    if os.path.islink(p):
        tgt = os.path.realpath(os.path.join(os.path.dirname(p), os.readlink(p)))
        return ("s", os.path.relpath(tgt, os.path.realpath(base)))
    if os.path.isdir(p):
        return ("d", tuple(sorted((k, _disk_entry(base, os.path.join(p, k))) for k in os.listdir(p))))
    with open(p, "rb") as fh:
        return ("f", fh.read())


def _entry_at(e, parts):
    for seg in parts:
        if e is None or e[0] != "d":
            return None
        e = dict(e[1]).get(seg)
    return e


def _entry_paths(e, pre=()):
    out = [pre]
    if e is not None and e[0] == "d":
        for k, c in e[1]:
            out += _entry_paths(c, pre + (k,))
    return out


def _deloop(t: Tree) -> Tree:
    """A link named like the first segment of its own text loops on itself (dir_hashsums then
    raises, which is C19's subject): give such links a dangling text instead."""
    if not isinstance(t, dict):
        return t
    out = {}
    for k, v in t.items():
        if isinstance(v, str) and v.startswith("symlink:") and v[len("symlink:"):].split("/")[0] == k:
            v = "symlink:zz/" + v[len("symlink:"):]
        out[k] = _deloop(v)
    return out


def detect_case(case) -> List[str]:
    """What PGPacker.update does to decide what changed: dir_hashsums(srcdir) now, compared by
    DirDiff.compare with the table stored at pack time (which went through JSON in the container).
    C18_C19_change_detected / C18_C19_changed_paths: empty diff iff equal content; reported
    paths = paths whose entries differ."""
    from pathlib import Path
    from metador_core.util.diff import DirDiff
    from metador_core.util.hashsums import dir_hashsums
    prev, curr = _deloop(case[0]), _deloop(case[1])
    with vlib.workdir("c18") as wd:
        A, B = os.path.join(str(wd), "old"), os.path.join(str(wd), "new")
        _materialise(A, prev)
        _materialise(B, curr)
        try:
            ha, hb = dir_hashsums(Path(A)), dir_hashsums(Path(B))
        except (RuntimeError, ValueError, OSError) as e:   # link loops etc.: C19's business
            return [f"SKIP dir_hashsums raised {type(e).__name__}"]
        stored = json.loads(json.dumps(ha))
        dd = DirDiff.compare(stored, hb)
        reported = set() if dd.is_empty else {tuple(n.path.parts) for n in dd._diff_root.nodes()}
        ea, eb = _disk_entry(A, A), _disk_entry(B, B)
    problems: List[str] = []
    if bool(dd.is_empty) != (ea == eb):
        problems.append(f"packer-detect: diff of the two hashsum tables is "
                        f"{'empty' if dd.is_empty else 'not empty'} but the directories are "
                        f"{'equal' if ea == eb else 'different'}")
    differing = {p for p in set(_entry_paths(ea)) | set(_entry_paths(eb))
                 if _entry_at(ea, p) != _entry_at(eb, p)}
    if reported != differing:
        odd = sorted(reported ^ differing)[:3]
        problems.append("packer-detect: reported paths are not the paths whose content differs: "
                        + ", ".join("/".join(p) or "." for p in odd))
    return problems


def w_detect(case):
    try:
        with vlib.time_limit(60):
            return detect_case(case)
    except Exception as e:  # noqa: BLE001
        return [f"packer-detect: raised {type(e).__name__}: {e}"[:200]]


# ---------------------------------------------------------------------------- shrinking

def _fails(prev, curr) -> bool:
    st, _obs, problems = _guard_case((prev, curr, queries_for(prev, curr)))
    return bool(problems)


def shrink_pair(prev: Tree, curr: Tree, fails=_fails, budget: int = 300) -> Tuple[Tree, Tree]:
    """Greedy: drop entries from either or both trees, simplify leaves, while it still fails."""
    calls = 0
    changed = True
    while changed and calls < budget:
        changed = False
        for p in sorted(set(all_paths(prev)) | set(all_paths(curr)), key=lambda x: (-len(x), x)):
            if not p:
                continue
            for which in ("both", "prev", "curr"):
                a, b = deep(prev), deep(curr)
                hit = False
                for side, t in (("prev", a), ("curr", b)):
                    if which in ("both", side):
                        d = sub(t, p[:-1])
                        if isinstance(d, dict) and p[-1] in d:
                            del d[p[-1]]
                            hit = True
                if not hit:
                    continue
                calls += 1
                if fails(a, b):
                    prev, curr, changed = a, b, True
                    break
            if calls >= budget:
                break
    return prev, curr


# ---------------------------------------------------------------------------- main

def _flags(a: Tree, b: Tree) -> Dict[str, bool]:
    pa, pb = all_paths(a), all_paths(b)
    f = {"f2d": False, "d2f": False, "symlink": False, "emptydir": False, "added": False,
         "removed": False, "content": False}
    for p in set(pa) | set(pb):
        x, y = sub(a, p), sub(b, p)
        if isinstance(x, str) and isinstance(y, dict):
            f["f2d"] = True
        if isinstance(x, dict) and isinstance(y, str):
            f["d2f"] = True
        if isinstance(x, str) and isinstance(y, str) and x != y:
            f["content"] = True
        if x is None and y is not None:
            f["added"] = True
        if y is None and x is not None:
            f["removed"] = True
        for z in (x, y):
            if isinstance(z, str) and z.startswith("symlink:"):
                f["symlink"] = True
            if z == {}:
                f["emptydir"] = True
    return f


def run(ctx: vlib.Ctx):
    proof = ctx.check_proofs()
    cov = ctx.coverage
    rng = ctx.rng
    cov["trusted_base"] = vlib.TRUSTED_COMMON + [
        "modelled, not verified: a Python dict as a key-sorted association list (dict equality = list equality), "
        "str equality/ordering of ASCII strings, pathlib.PurePosixPath joining/equality/ordering of relative paths "
        "(modelled as lists of segments compared lexicographically), sorted() stability, pydantic v1 field copying of DiffNode",
        "the consumer of the listing (shallow steps: unlink/rmdir-if-empty/mkdir-under-existing-parent/replace) is a "
        "model of what Packer.update implementations do; the harness runs the same steps in memory and with os.* calls",
    ]

    # ---- cases
    small = small_trees(4)
    pairs: List[Tuple[Tree, Tree]] = [(a, b) for a in small for b in small]
    n_exh = len(pairs)
    # roots that are not directories (DiffNode.compare is recursive over these)
    odd = [None, "sha256:00", "symlink:a", {}, {"a": "sha256:00"}, {"a": {"b": {}}}]
    pairs += [(a, b) for a in odd for b in odd if not (a is None and b is None)]
    n_rand = ctx.budget(4000, 60000)
    for i in range(n_rand):
        a = rand_tree(rng, rng.choice([3, 8, 15, 25, 40]))
        r = rng.random()
        if r < 0.75:
            b = mutate(rng, a, rng.randint(1, 6), 40)
        elif r < 0.8:
            b = deep(a)
        else:
            b = rand_tree(rng, rng.choice([3, 8, 15, 25, 40]))
        if rng.random() < 0.3:
            a, b = b, a
        pairs.append((a, b))
    if not ctx.quick:
        five = [t for t in enum_entities(5, NAMES2, LEAVES3) if isinstance(t, dict)]
        pool = small + five
        for _ in range(60000):
            pairs.append((rng.choice(pool), rng.choice(pool)))

    keep_every = max(1, len(pairs) // 400)
    cases = []
    for idx, (a, b) in enumerate(pairs):
        cases.append((shuffled(a, rng), shuffled(b, rng), queries_for(a, b, rng), idx % keep_every == 0))

    # ---- model and implementation (both inside the workers, chunk-wise)
    csz = 250
    chunks = [cases[i:i + csz] for i in range(0, len(cases), csz)]
    res = [r for part in vlib.pmap(w_chunk, chunks) for r in part]

    disagreements: List[Dict[str, Any]] = []
    reported = set()
    nontrivial = set()
    hist_nodes: Dict[str, int] = {}
    flagc: Dict[str, int] = {}
    statusc = {"+": 0, "-": 0, "~": 0}
    kept_cases, kept_results = [], []
    for idx, ((a, b), (agree, problems, field, rec, counts, dig)) in enumerate(zip(pairs, res)):
        if a != b:
            nontrivial.add(dig)
        if idx >= n_exh:
            s = str(min(40, (max(size(a), size(b)) + 4) // 5 * 5))
            hist_nodes[s] = hist_nodes.get(s, 0) + 1
            for k, v in _flags(a, b).items():
                if v:
                    flagc[k] = flagc.get(k, 0) + 1
        for k, v in counts.items():
            statusc[k] += v
        if rec is not None and agree:
            kept_cases.append(rec[0])
            kept_results.append(rec[1])
        if not agree and len(disagreements) < 20:
            disagreements.append({"kind": "pair", "prev": a, "curr": b, "field": field,
                                  "model": rec[1], "impl": rec[2]})
        if problems:
            key = _law_class(problems[0])
            if key not in reported:
                reported.add(key)
                sa, sb = shrink_pair(a, b)
                _st, _obs, sprobs = _guard_case((sa, sb, queries_for(sa, sb)))
                ctx.violation(
                    f"DirDiff violates the property: {sprobs[0] if sprobs else problems[0]}",
                    {"kind": "pair", "prev": sa, "curr": sb, "problems": (sprobs or problems)[:5],
                     "unshrunk": {"prev": a, "curr": b}},
                    sig_obj={"kind": "pair", "law": key, "prev": canon(sa) if sa is not None else None,
                             "curr": canon(sb) if sb is not None else None})
    for k in (1, len(kept_cases) // 3, len(kept_cases) - 2):
        if 0 <= k < len(kept_cases):
            ctx.sample({"case": kept_cases[k][:2],
                        "model_nodes": [[n[0], n[1]] for n in kept_results[k][1]],
                        "model_is_empty": kept_results[k][0], "model_script": kept_results[k][3]}, limit=3)

    # ---- real directories (os-level consumer, annotate)
    fs_pairs = [(a, b) for (a, b) in pairs[n_exh:] if isinstance(a, dict) and isinstance(b, dict)]
    step = max(1, len(pairs[:n_exh]) // ctx.budget(300, 3000))
    fs_pairs = pairs[:n_exh:step] + fs_pairs[:ctx.budget(300, 4000)]
    fs_model = vlib.run_model("c18", [[ent_sx(a), ent_sx(b), []] for a, b in fs_pairs])
    fres = vlib.pmap(w_fs, [(a, b, m[4]) for (a, b), m in zip(fs_pairs, fs_model)], chunksize=16)
    doc_notes = set()
    for (a, b), problems in zip(fs_pairs, fres):
        doc_notes.update(p for p in problems if p.startswith("NOTE "))
        if any(p.startswith("MODEL ") for p in problems) and len(disagreements) < 20:
            disagreements.append({"kind": "fs", "prev": a, "curr": b, "field": "annotate(real directory)"})
        problems = [p for p in problems if not p.startswith(("NOTE ", "MODEL "))]
        if problems:
            key = "fs:" + _law_class(problems[0])
            if key not in reported:
                reported.add(key)

                def fails(x, y):
                    return any(not p.startswith(("NOTE ", "MODEL ")) for p in w_fs((x, y, None)))
                sa, sb = shrink_pair(a, b, fails=fails, budget=120)
                ctx.violation(
                    f"DirDiff on a real directory: {problems[0]}",
                    {"kind": "fs", "prev": sa, "curr": sb, "problems": problems[:5]},
                    sig_obj={"kind": "fs", "law": key, "prev": canon(sa), "curr": canon(sb)})

    # ---- packer change detection (C18 + C19 composed, code level)
    det_pairs = fs_pairs[:ctx.budget(400, 3000)]
    dres = vlib.pmap(w_detect, det_pairs, chunksize=16)
    det_skipped = 0
    for (a, b), problems in zip(det_pairs, dres):
        if any(p.startswith("SKIP ") for p in problems):
            det_skipped += 1
            continue
        if problems and "packer-detect" not in reported:
            reported.add("packer-detect")

            def dfails(x, y):
                return any(p.startswith("packer-detect") for p in w_detect((x, y)))
            sa, sb = shrink_pair(a, b, fails=dfails, budget=120)
            ctx.violation(
                f"packer change detection (dir_hashsums + DirDiff.compare): {problems[0]}",
                {"kind": "detect", "prev": sa, "curr": sb, "problems": problems[:5]},
                sig_obj={"kind": "detect", "law": "packer-detect", "prev": canon(sa), "curr": canon(sb)})
    cov["packer_detect"] = {"cases": len(det_pairs), "skipped_dir_hashsums_raised": det_skipped}

    for nt in sorted(doc_notes):
        ctx.notes.append(nt[5:] + " -- docstring promise outside the property, not counted as a violation")

    # ---- cross-check extraction on a sample (small results only, literals grow fast)
    xs = [i for i in range(len(kept_cases)) if len(json.dumps(kept_results[i])) < 8000]
    xc = vlib.coq_crosscheck("c18", [kept_cases[i] for i in xs], [kept_results[i] for i in xs], "c18",
                             max_cases=ctx.budget(40, 120))

    # ---- summary
    cov["evaluations"] = len(cases) + len(fs_pairs) + len(det_pairs)
    cov["distinct_nontrivial"] = len(nontrivial)
    cov["rule"] = ("a case is an ordered pair (prev, curr) of hashsum trees; distinct = distinct canonical pair, "
                   "non-trivial = prev != curr; exhaustive part: all ordered pairs of root directories with <= 4 nodes "
                   "(root included) over names {a,b} and leaves {sha256:00, sha256:01, symlink:a}")
    cov["exhaustive"] = True
    cov["input_distribution"] = {
        "exhaustive_trees": len(small), "exhaustive_pairs": n_exh,
        "non_directory_root_pairs": len(odd) ** 2 - 1, "random_pairs": len(pairs) - n_exh - (len(odd) ** 2 - 1),
        "random_max_nodes_hist": hist_nodes, "random_pairs_with": flagc,
        "listed_nodes_by_status": statusc, "real_directory_cases": len(fs_pairs),
        "queries_per_case_avg": round(sum(len(c[2]) for c in cases) / max(1, len(cases)), 1),
    }
    cov["coq_crosscheck"] = xc
    cov["disagreements"] = len(disagreements)
    ctx.assumptions += [
        "names and leaf strings are ASCII; names are valid path segments (non-empty, no '/', not '.' or '..')",
        "leaf strings are non-empty (dir_hashsums always writes 'sha256:...' or 'symlink:...')",
        "the hashsum trees are given (dir_hashsums itself is property C19)",
    ]

    if not xc["ok"]:
        ctx.violation("extracted runner and in-Coq evaluation of the model disagree (stale or wrong extraction)",
                      {"kind": "crosscheck", "xc": xc}, found_input=False)
    if not proof["ok"]:
        ctx.violation("proof obligations of Properties/C18.v do not check: " + "; ".join(proof["problems"])[:500],
                      {"kind": "proof", "theorem_file": "coq/Properties/C18.v", "problems": proof["problems"]},
                      found_input=False)
    if disagreements and not ctx.violations and not ctx.known_hits:
        ctx.violation("model/implementation correspondence broken but the property oracle found no failing input",
                      {"kind": "correspondence",
                       "correspondence": "coq/Util/Diff.v run_c18 vs metador_core.util.diff DirDiff/DiffNode",
                       "smallest_disagreement": min(disagreements, key=lambda d: len(json.dumps(d, default=str))),
                       "count": len(disagreements)},
                      found_input=False)
    elif disagreements:
        ctx.notes.append(f"{len(disagreements)} model/impl disagreements (first field: {disagreements[0]['field']})")
    # generated tie: DiffNode.status is re-translated from the current source and proved equal to
    # Util/Diff.v `nstatus` (coq/Gen/Equiv_diff.v)
    gentie.report(ctx)


def _law_class(problem: str) -> str:
    """Coarse class of an oracle message, so that one violation is reported per law."""
    for key in ("packer-detect", "is_empty", "listed twice", "unchanged path", "is not listed", "prev_type", "status", "prev/curr",
                "parent of listed", "listed after its parent", "listed before its parent", "refused",
                "does not produce", "get(", "bucket key", "annotate", "os-level", "raised"):
        if key in problem:
            return key
    return problem[:40]


def replay(rep) -> int:
    """Re-evaluate the recorded failing pair on the current tree; 1 if it still fails."""
    vlib._pool_init()
    kind = rep.get("kind")
    if kind == "pair":
        a, b = rep["prev"], rep["curr"]
        st, obs, problems = _guard_case((a, b, queries_for(a, b)))
        print("\n".join(problems) if problems else "no longer failing")
        return 1 if problems else 0
    if kind == "detect":
        problems = [p for p in w_detect((rep["prev"], rep["curr"])) if p.startswith("packer-detect")]
        print("\n".join(problems) if problems else "no longer failing")
        return 1 if problems else 0
    if kind == "fs":
        problems = [p for p in w_fs((rep["prev"], rep["curr"], None)) if not p.startswith(("NOTE ", "MODEL "))]
        print("\n".join(problems) if problems else "no longer failing")
        return 1 if problems else 0
    print("replay names a proof obligation or correspondence; re-run the check itself")
    return 1
