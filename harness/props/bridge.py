"""Model-vs-model differential between the two hand-written plain-tree models.

  coq/IH5/Overlay.v   tree / t_step   (gmap keyed by reversed paths, attributes as flagged
                                       segments): specification tree of C01/C05/C09/C10/C17
  coq/Toc/UserView.v  tree / u_step   (association list keyed by forward paths, attribute
                                       lists inside objects): tree below C06/C07/C08/C15/C20

DESIGN says the container-level theorems (proved over the second) transfer to the IH5 driver
"by C09" (whose client theorem is stated over the first).  That transfer needs the two trees
to be the same thing.  `coq/Bridge/PlainTreeProofs.v` proves it (C09_bridge_step / _run /
_overlay_view / _driver_view in coq/Properties/C09.v: every operation kind of the common
fragment, successful or refused).  This module is the executable counterpart: it runs both
models side by side through the extracted runner entry `bridge` (coq/Bridge/BridgeRun.v) and
compares per step the result class and the whole tree (paths, kinds, values, attributes)
after canonicalising both PRINTED trees to sorted forward-path lists - independently of the
abstraction function `abs` the theorems are stated with, whose in-Coq comparison
`abs U = T` must hold as well.  It also records what lies OUTSIDE the common fragment
(where the two models differ on purpose) and asks a real h5py.File about a sample.

Not a property check of its own: `run_selftest` is called from harness/props/c09.py and its
result is recorded under C09's evidence `coverage.plain_tree_models_agree`.

Operation lists use the wire format of coq/IH5/OverlayRun.v without boundaries.
"""
from __future__ import annotations

import random
import time
from typing import Any, Dict, List, Optional, Tuple

import ih5lib
import vlib

BRIDGE_NAME = "bridge between IH5/Overlay.v t_step and Toc/UserView.v u_step"

KEYS = ["a", "b", "c", "d", "!", "~"]
ATTR_KEYS = ["k", "m", "~"]
# values that read back identically as dataset and as attribute on h5py (cf. C01)
VALUES = ["i:0", "i:1", "i:7", "i:42", "v:00", "v:7f00", "v:417f", "e:"]
DEL_VALUE = "v:7f"          # the IH5 deletion marker: outside the common fragment


# ---------------------------------------------------------------------------- generation

def gen_ops(rng: random.Random, nops: int) -> List[list]:
    """Operation list in the common fragment, biased towards valid operations on nested
    paths by a shadow tree; every refusal class is generated on purpose; copies into the
    source's own subtree are part of the fragment (both models graft a snapshot); a few
    operations outside the fragment (the deletion-marker value) are generated too - the
    comparison of that case stops there."""
    sh = ih5lib.Shadow()
    ops: List[list] = []
    val = lambda: rng.choice(VALUES)   # noqa: E731
    fresh = lambda: sh.fresh_path(rng, maxdepth=5, keys=KEYS)   # noqa: E731
    guard = 0
    while len(ops) < nops and guard < 50 * nops:
        guard += 1
        ex = sh.existing()
        ds = [p for p, k in sh.nodes.items() if k == "D"]
        grs = [p for p, k in sh.nodes.items() if k == "G"]
        kind = rng.choices(
            ["set", "grp", "del", "aset", "adel", "copy", "move", "refuse", "outside"],
            [20, 13, 11, 13, 7, 10, 9, 14, 1])[0]
        op: Optional[list] = None
        if kind == "set":
            op = ["set", fresh(), val()]
        elif kind == "grp":
            op = ["grp", fresh()]
        elif kind == "del" and ex:
            op = ["del", list(rng.choice(ex))]
        elif kind == "aset":
            op = ["aset", list(rng.choice(ex + [()])), rng.choice(ATTR_KEYS), val()]
        elif kind == "adel":
            cands = [(p, k) for p, ks in sh.attrs.items() for k in ks]
            if cands:
                p, k = rng.choice(cands)
                op = ["adel", list(p), k]
        elif kind in ("copy", "move") and ex:
            s = list(rng.choice(grs if grs and rng.random() < 0.6 else ex))
            d = fresh()
            if d[:len(s)] != s:
                op = [kind, s, d]
        elif kind == "refuse":
            c = rng.randrange(12)
            if c == 0:
                op = ["del", fresh()]                                   # missing target
            elif c == 1 and ex:
                op = ["set", list(rng.choice(ex)), val()]               # existing target
            elif c == 2 and ex:
                op = ["grp", list(rng.choice(ex))]                      # existing target
            elif c == 3 and ds:                                         # parent is a dataset
                tail = [rng.choice(KEYS) for _ in range(rng.choice([1, 1, 2]))]
                op = [rng.choice(["set", "grp"]), list(rng.choice(ds)) + tail]
                if op[0] == "set":
                    op.append(val())
            elif c == 4:
                op = ["adel", list(rng.choice(ex + [()])), "nope"]      # missing attribute
            elif c == 5:
                op = [rng.choice(["aset", "adel"]), fresh(), rng.choice(ATTR_KEYS)]   # missing holder
                if op[0] == "aset":
                    op.append(val())
            elif c == 6 and len(ex) >= 2:
                op = [rng.choice(["copy", "move"]), list(rng.choice(ex)), list(rng.choice(ex))]   # existing destination
            elif c == 7:
                d = fresh()
                s = fresh()
                if tuple(s) not in sh.nodes:
                    op = [rng.choice(["copy", "move"]), s, d]           # missing source
            elif c == 8 and ds and ex:                                  # destination below a dataset
                op = [rng.choice(["copy", "move"]), list(rng.choice(ex)),
                      list(rng.choice(ds)) + [rng.choice(KEYS)]]
            elif c == 9 and grs:                                        # move into own subtree
                s = list(rng.choice(grs))
                op = ["move", s, s + [rng.choice(KEYS) for _ in range(rng.choice([1, 2]))]]
            elif c == 10:
                op = [rng.choice(["del", "grp"]), []]                   # the root itself
            elif c == 11 and ex:
                op = [rng.choice(["copy", "move"]), rng.choice([[], list(rng.choice(ex))]), []]
        elif kind == "outside":
            if rng.random() < 0.6 and grs:
                s = list(rng.choice(grs))
                op = ["copy", s, s + [rng.choice(KEYS) for _ in range(rng.choice([1, 2]))]]
            else:
                op = (["set", fresh(), DEL_VALUE] if rng.random() < 0.5
                      else ["aset", list(rng.choice(ex + [()])), rng.choice(ATTR_KEYS), DEL_VALUE])
        if op is None:
            continue
        ops.append(op)
        if kind == "outside":
            break               # the comparison of a case ends where it leaves the fragment
        sh.apply(op)
    return ops


def pattern_ops() -> List[List[list]]:
    """Fixed shapes: intermediates, replace, attributes on every kind of holder, copy / move
    of groups with attributes below, refusals of every class."""
    return [
        [["grp", ["a", "b", "c"]], ["set", ["a", "b", "x"], "i:1"], ["aset", ["a", "b"], "k", "i:2"],
         ["aset", ["a", "b", "x"], "k", "i:3"], ["aset", [], "k", "i:4"], ["copy", ["a"], ["d", "e"]],
         ["move", ["a", "b"], ["a", "z"]], ["adel", ["d", "e", "b"], "k"], ["del", ["a"]], ["adel", [], "k"]],
        [["set", ["a"], "i:1"], ["set", ["a"], "i:2"], ["del", ["a"]], ["set", ["a"], "i:2"],
         ["grp", ["a", "b"]], ["set", ["a", "b"], "i:3"], ["copy", ["a"], ["a", "b"]], ["move", ["a"], ["a", "b"]],
         ["aset", ["a"], "k", "i:1"], ["aset", ["a"], "k", "i:2"], ["aset", ["a"], "m", "e:"], ["adel", ["a"], "k"],
         ["adel", ["a"], "k"], ["copy", ["a"], ["b", "c", "d"]], ["move", ["b", "c", "d"], ["a2"]]],
        [["grp", ["a"]], ["grp", ["a"]], ["grp", []], ["del", []], ["del", ["b"]], ["copy", ["b"], ["c"]],
         ["move", ["b"], ["c"]], ["copy", ["a"], ["a"]], ["move", ["a"], ["a"]], ["move", ["a"], ["a", "b"]],
         ["aset", ["b"], "k", "i:1"], ["adel", ["a"], "k"], ["copy", [], ["c"]], ["copy", ["a"], []]],
        [["grp", ["a", "b"]], ["aset", ["a", "b"], "k", "i:1"], ["move", ["a"], ["c", "d"]], ["grp", ["a", "b"]],
         ["copy", ["c", "d", "b"], ["a", "b", "b"]], ["del", ["c"]], ["move", ["a", "b", "b"], ["b"]]],
    ]


# ---------------------------------------------------------------------------- canonical forms

def canon_overlay(t: list) -> Tuple[Optional[list], str]:
    """Printed Overlay tree -> sorted [[path, "G"] | [path, "D", v]] with "@k" attribute leaves."""
    out = []
    seen = set()
    for e in t:
        path = tuple(e[0])
        if not path:
            return None, "overlay tree stores the root"
        if path in seen:
            return None, f"overlay tree lists {list(path)} twice"
        seen.add(path)
        out.append([list(path)] + list(e[1:]))
    out.sort(key=lambda e: e[0])
    return out, ""


def canon_user(t: list) -> Tuple[Optional[list], str]:
    """Printed UserView tree -> the same canonical form (the root entry must be there, once,
    as a group; no key twice; no attribute key twice)."""
    out = []
    seen = set()
    for e in t:
        path = tuple(e[0])
        if path in seen:
            return None, f"association-list tree holds the key {list(path)} twice"
        seen.add(path)
        kind, attrs = e[1], e[-1]
        if not path:
            if kind != "G":
                return None, "association-list tree: root is not a group"
        else:
            out.append([list(path), "G"] if kind == "G" else [list(path), "D", e[2]])
        ak = set()
        for k, v in attrs:
            if k in ak:
                return None, f"attribute {k} twice at {list(path)}"
            ak.add(k)
            out.append([list(path) + ["@" + k], "D", v])
    if () not in seen:
        return None, "association-list tree lost its root entry"
    out.sort(key=lambda e: e[0])
    return out, ""


# ---------------------------------------------------------------------------- comparison

def compare_case(ops: List[list], res: list) -> Dict[str, Any]:
    """Walk the per-step answers of the `bridge` runner entry.  Returns the number of steps
    compared, where (if anywhere) the case left the common fragment, and the first
    disagreement."""
    out: Dict[str, Any] = {"compared": 0, "left_fragment_at": None, "diff": None, "classes": []}
    if len(res) != len(ops):
        out["diff"] = {"step": len(res), "what": f"runner answered {len(res)} steps for {len(ops)} operations"}
        return out
    for i, (op, st) in enumerate(zip(ops, res)):
        if not (isinstance(st, list) and len(st) == 7):
            out["diff"] = {"step": i, "what": f"malformed runner answer {st!r}"[:300]}
            return out
        tr, ur, inside, abs_eq, same_op, tt, ut = st
        if inside != "T":
            out["left_fragment_at"] = i
            out["outside"] = {"op": op, "overlay_ok": tr, "userview_ok": ur}
            return out
        what = None
        ct, wt = canon_overlay(tt)
        cu, wu = canon_user(ut)
        if same_op != "T":
            what = "wire decoding differs: OverlayRun.sx_op does not yield conv of the UserView operation"
        elif tr != ur:
            what = f"result class differs: t_step {'ok' if tr == 'T' else 'refused'}, u_step {'ok' if ur == 'T' else 'refused'}"
        elif ct is None or cu is None:
            what = wt or wu
        elif ct != cu:
            only_t = [e for e in ct if e not in cu][:3]
            only_u = [e for e in cu if e not in ct][:3]
            what = f"trees differ: only in Overlay tree {only_t}, only in UserView tree {only_u}"
        elif abs_eq != "T":
            what = "printed trees are equal but abs U = T does not hold inside Coq (abs or the printers are wrong)"
        if what:
            out["diff"] = {"step": i, "op": op, "what": what, "overlay": [tr, ct], "userview": [ur, cu]}
            return out
        out["compared"] += 1
        out["classes"].append(tr)
    return out


def h5py_verdict(ops: List[list], step: int, d: Dict[str, Any]) -> Dict[str, Any]:
    """Run the prefix up to `step` on a real h5py.File and say which model it sides with."""
    try:
        with vlib.time_limit(60):
            r = ih5lib.exec_h5(ops[:step + 1])
    except Exception as e:  # noqa: BLE001
        return {"error": f"{type(e).__name__}: {e}"[:200]}
    res, view = r["steps"][-1]
    v: Dict[str, Any] = {"h5py": [res, view]}
    if "overlay" in d:
        v["overlay_matches_h5py"] = d["overlay"] == [res, view]
        v["userview_matches_h5py"] = d["userview"] == [res, view]
    return v


def h5_agrees(ops: List[list], res: list) -> Optional[Dict[str, Any]]:
    """Three-way sample: the (agreeing) models against a real h5py.File, common fragment only."""
    # a MOVE into the source's own subtree is refused by both models and excluded by the
    # properties (plain HDF5 detaches the subtree): the reference is not asked beyond it
    # (nor about copy / move with the root itself as an argument: refused by both models, h5py has
    # quirks of its own there, e.g. move("/", "/") is a silent no-op)
    cut = next((i for i, op in enumerate(ops) if op[0] in ("copy", "move") and
                (not op[1] or not op[2] or (op[0] == "move" and op[2][:len(op[1])] == op[1]))), len(ops))
    ops = ops[:cut]
    with vlib.time_limit(60):
        r = ih5lib.exec_h5(ops)
    for i, ((hres, hview), st) in enumerate(zip(r["steps"], res)):
        ct, _ = canon_overlay(st[5])
        if [st[0], ct] != [hres, hview]:
            return {"step": i, "op": ops[i], "models": [st[0], ct], "h5py": [hres, hview]}
    return None


def run_selftest(n: int, rng: Optional[random.Random] = None, maxlen: int = 18, h5_sample: int = 20,
                 crosscheck: int = 3) -> Dict[str, Any]:
    """Generate `n` operation lists (+ the fixed patterns), run both models, compare.
    Returns a summary; `disagreements` is empty when the models agree."""
    t0 = time.time()
    rng = rng or random.Random(0)
    cases = pattern_ops() + [gen_ops(rng, rng.randint(4, maxlen)) for _ in range(n)]
    results = vlib.run_model("bridge", cases)
    steps = compared = refused = 0
    kinds: Dict[str, int] = {}
    refused_kinds: Dict[str, int] = {}
    outside: Dict[str, int] = {}
    outside_examples: List[Any] = []
    disagreements: List[Dict[str, Any]] = []
    inside_cases = []
    for ops, res in zip(cases, results):
        c = compare_case(ops, res)
        steps += len(ops)
        compared += c["compared"]
        for op, cl in zip(ops, c["classes"]):
            kinds[op[0]] = kinds.get(op[0], 0) + 1
            if cl != "T":
                refused += 1
                refused_kinds[op[0]] = refused_kinds.get(op[0], 0) + 1
        if c["left_fragment_at"] is not None:
            o = c["outside"]
            key = ("copy below the source itself" if o["op"][0] == "copy" else "deletion-marker value") + \
                  f": Overlay {'ok' if o['overlay_ok'] == 'T' else 'refused'}, UserView {'ok' if o['userview_ok'] == 'T' else 'refused'}"
            outside[key] = outside.get(key, 0) + 1
            if len(outside_examples) < 2:
                outside_examples.append(o)
        elif c["diff"] is None:
            inside_cases.append((ops, res))
        if c["diff"]:
            d = dict(c["diff"])
            d["ops"] = ops[:d["step"] + 1]
            disagreements.append(d)
    disagreements.sort(key=lambda d: len(d["ops"]))
    for d in disagreements[:3]:
        d["verdict"] = h5py_verdict(d["ops"], d["step"], d)
    h5_bad = []
    h5_done = 0
    for ops, res in inside_cases[:h5_sample]:
        try:
            bad = h5_agrees(ops, res)
        except Exception as e:  # noqa: BLE001
            bad = {"error": f"{type(e).__name__}: {e}"[:200], "ops": ops}
        h5_done += 1
        if bad:
            bad["ops"] = ops
            h5_bad.append(bad)
    xc = vlib.coq_crosscheck("bridge", cases, results, "bridge", max_cases=crosscheck) if crosscheck else {"sampled": 0, "ok": True}
    return {
        "bridge": BRIDGE_NAME,
        "op_lists": len(cases), "steps": steps, "steps_compared": compared,
        "steps_refused_in_both": refused, "op_kinds": kinds, "refused_by_kind": refused_kinds,
        "left_common_fragment": outside, "left_common_fragment_examples": outside_examples,
        "compared_per_step": "result class (ok/refused) and whole tree (paths, kinds, values, attributes) as sorted "
                             "forward-path lists; plus abs U = T evaluated inside Coq; plus wire decoding of both sides",
        "h5py_three_way_sample": {"op_lists": h5_done, "differences": h5_bad[:3]},
        "coq_crosscheck": xc,
        "disagreements": disagreements[:5], "disagreement_count": len(disagreements),
        "agree": not disagreements and not h5_bad and bool(xc.get("ok")),
        "wall_s": round(time.time() - t0, 2),
    }


if __name__ == "__main__":
    import json
    import sys
    import vshim  # noqa: F401
    n = int(sys.argv[1]) if len(sys.argv) > 1 else 300
    seed = int(sys.argv[2]) if len(sys.argv) > 2 else 0
    r = run_selftest(n, random.Random(seed))
    print(json.dumps(r, indent=1, default=str))
