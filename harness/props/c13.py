"""C13 — every child-schema instance is a valid parent-schema instance.

Correspondence (real code vs. extracted Gallina model coq/Schema/Subtype.v):
  1. every ordered pair of field types of depth <= 2 over the grammar (plus Annotated flags on
     the atom pairs): metador_core.util.typing.is_subtype vs. model `subtype_hint`;
  2. every type x a boundary value corpus (closed under serialisation): pydantic acceptance of
     a one-field MetadataSchema vs. model `accepts`; every real dump must be a model normal
     form (`nf`);
  3. generated parent/child MetadataSchema classes (extra policy, overrides, @override,
     @add_const_fields) through class creation + check_types vs. model `check_child`, and
     acceptance of generated JSON objects by child and parent vs. model.
Oracles on the code alone (no model):
  A. type pairs inside the property's grammar that the real is_subtype admits: no corpus value
     is accepted by a child field and its dump rejected by the parent field;
  B. generated classes that pass the real check without declared overrides: the parent parses
     bytes(child_obj) for every generated object the child accepts;
  C. every installed schema plugin x generated instances: every ancestor schema parses
     bytes(instance).
"""
from __future__ import annotations

import itertools
import json
from typing import Any, Dict, List, Optional, Tuple

import vlib

# --------------------------------------------------------------------------- descriptors
# A type descriptor is a nested tuple; to_sx gives the model term, to_py the typing object.

# phantom string types: name -> own predicate id :: ids of the phantom ancestors; the chains are
# read from the real class hierarchy at the start of a run (w_phchains), these are the ids
PH_ID = {"NE": 0, "Mime": 1, "Hash": 2, "QHash": 3}
PH: Dict[str, List[int]] = {"NE": [0], "Mime": [1, 0], "Hash": [2, 0], "QHash": [3, 0]}
S_INT, S_FLOAT, S_BOOL, S_STR = (("prim", True, k) for k in ("int", "float", "bool", "str"))
P_INT, P_FLOAT, P_BOOL, P_STR = (("prim", False, k) for k in ("int", "float", "bool", "str"))
NONE = ("none",)
ANY = ("any",)


def opt(d):
    return ("union", (d, NONE))


# nested schema classes available as field types: name -> (chain, extra, fields, base)
OBJS: Dict[str, Tuple[List[int], str, List[Tuple[str, Any]], Optional[str]]] = {
    "OA": ([10], "allow", [("a", S_INT)], None),
    "OB": ([11, 10], "allow", [("a", S_INT), ("b", opt(S_STR))], "OA"),
    "OQ": ([12], "allow", [("q", S_STR)], None),
    "OF": ([13], "forbid", [("a", opt(S_INT))], None),
}

LITS = [(1,), (True,), (0,), (1, 2), ("a",), ("a", "b"), (" ",), (1, "a"), ("a/b",), ("ff", "")]


def atoms(full: bool = True) -> List[Any]:
    out = [ANY, S_INT, S_FLOAT, S_BOOL, S_STR, P_INT, P_FLOAT, P_BOOL, P_STR]
    out += [("ph", n) for n in PH]
    out += [("lit", v) for v in (LITS if full else LITS[:7])]
    out += [("obj", n) for n in OBJS]
    return out


def hashable_atom(d) -> bool:
    return d[0] not in ("obj", "any")


def universe(full: bool = True) -> List[Any]:
    at = atoms(full)
    out = list(at)
    out += [opt(a) for a in at if a != ANY]
    out += [("list", a) for a in at]
    out += [("set", a) for a in at if hashable_atom(a)]
    out += [("union", (a, b)) for a, b in itertools.combinations([x for x in at if x != ANY], 2)]
    out += [("union", (S_INT, S_STR, NONE)), ("union", (("lit", ("a",)), ("lit", (" ",)), NONE)),
            opt(("list", S_STR)), opt(("set", ("lit", ("a", "b")))), opt(("list", ("obj", "OB")))]
    return out


def in_property_grammar(d) -> bool:
    """strict primitives, phantom types, Literal, Optional, Union, List, Set, nested schemas"""
    k = d[0]
    if k == "any":
        return False
    if k == "prim":
        return bool(d[1])
    if k == "union":
        return all(in_property_grammar(x) for x in d[1])
    if k in ("list", "set"):
        return in_property_grammar(d[1])
    return True


def frag_pair(a, b) -> bool:
    """transcription of coq/Schema/SubtypeComplete.v frag_pair: the fragment on which the check decides
    inclusion (C13_refused_iff_witness_fragment)"""
    def atom(d):
        return (d[0] == "prim" and d[1]) or d[0] in ("lit", "none")

    def atoms_of(d):
        return list(d[1]) if d[0] == "union" else [d]

    def frag(d):
        return all(atom(x) for x in atoms_of(d))

    def has(f, d):
        return any(f(x) for x in atoms_of(d))

    def numlit(x):
        return x[0] == "lit" and any(not isinstance(v, str) for v in x[1])

    def strlit(x):
        return x[0] == "lit" and any(isinstance(v, str) for v in x[1])

    def numprim(x):
        return x[0] == "prim" and x[1] and x[2] != "str"

    def sstr(x):
        return x[0] == "prim" and x[1] and x[2] == "str"

    apart = (not (has(numlit, a) and has(numprim, b)) and not (has(strlit, a) and has(sstr, b))
             and not (has(numprim, a) and has(numlit, b)) and not (has(sstr, a) and has(strlit, b)))
    return frag(a) and frag(b) and ((a[0] == "lit") == (b[0] == "lit")) and apart


def mergeable(d, allow_none=True) -> bool:
    """transcription of schema.partial._check_type_mergeable"""
    k = d[0]
    if k in ("list", "set"):
        return mergeable(d[1], False)
    if k != "union":
        return True
    mem = d[1]
    if not allow_none and NONE in mem:
        return False
    is_prim_union = not any(m[0] in ("list", "set") for m in mem)
    is_opt_ls = len(mem) == 2 and NONE in mem
    if not (is_prim_union or is_opt_ls):
        return False
    return all(mergeable(m, False) for m in mem)


def _lit_sx(v):
    if isinstance(v, bool):
        return ["b", "T" if v else "F"]
    if isinstance(v, int):
        return ["i", str(v)]
    return ["s", v]


def to_sx(d) -> Any:
    k = d[0]
    if k == "any":
        return ["any"]
    if k == "prim":
        return ["prim", "T" if d[1] else "F", d[2]]
    if k == "ph":
        return ["ph", [str(i) for i in PH[d[1]]]]
    if k == "lit":
        return ["lit", [_lit_sx(v) for v in d[1]]]
    if k == "none":
        return ["none"]
    if k == "union":
        return ["union", [to_sx(x) for x in d[1]]]
    if k in ("list", "set"):
        return [k, to_sx(d[1])]
    if k == "obj":
        chain, extra, fields, _ = OBJS[d[1]]
        return ["obj", [str(i) for i in chain], extra, [[n, to_sx(t)] for n, t in fields]]
    raise ValueError(d)


def hint_sx(ann: bool, d) -> Any:
    return ["T" if ann else "F", to_sx(d)]


def j_sx(v) -> Any:
    if v is None:
        return ["null"]
    if isinstance(v, bool):
        return ["b", "T" if v else "F"]
    if isinstance(v, int):
        return ["i", str(v)]
    if isinstance(v, float):
        h = v * 2
        if h != int(h):
            raise ValueError(f"float {v} is not a multiple of 0.5")
        return ["f", str(int(h))]
    if isinstance(v, str):
        return ["s", v]
    if isinstance(v, list):
        return ["arr", [j_sx(x) for x in v]]
    if isinstance(v, dict):
        return ["obj", [[k, j_sx(x)] for k, x in v.items()]]
    raise ValueError(v)


def strings_in(v, acc: set):
    if isinstance(v, str):
        acc.add(v)
    elif isinstance(v, list):
        for x in v:
            strings_in(x, acc)
    elif isinstance(v, dict):
        for k, x in v.items():
            strings_in(x, acc)


CORPUS: List[Any] = [
    None, True, False, 0, 1, 2, -1, 0.0, 0.5, 1.0, 1.5, 2.0, -0.5,
    "", " ", "\t", "a", "b", " a ", "a ", "ab", "1", " 1 ", "+1", "-1", "1_0", "1__0", "1.5", "1.", ".5", ".",
    "yes", "TRUE", "t", " true", "a/b", "ff", "sha256:ff", "True",
    [], [1], [True], [1.0], ["a"], [" "], [" a "], [1, "a"], [1, 1], [1, True], [[1]], [["a", 1]], ["ab"], [None],
    ["a/b"], [0], [2], ["b"], ["ff"], [""],
    {}, {"a": 1}, {"a": 1, "b": "x"}, {"a": None}, {"q": "x"}, {"a": 1, "z": 3}, {"a": "x"},
    {"a": 1, "b": " "}, {"a": True}, {"a": 1, "b": None}, {"z": None},
    [{"a": 1}], [{"a": 1, "b": "x"}], [{"q": " "}], [{}],
]

# --------------------------------------------------------------------------- impl side

_PY: Dict[str, Any] = {}


def _env():
    """Real classes used by the descriptors (built once per process)."""
    if _PY:
        return _PY
    from pydantic import Extra, StrictBool, StrictFloat, StrictInt, StrictStr
    from metador_core.schema.core import MetadataSchema
    from metador_core.schema import types as mt
    _PY["prim"] = {(True, "int"): StrictInt, (True, "float"): StrictFloat, (True, "bool"): StrictBool,
                   (True, "str"): StrictStr, (False, "int"): int, (False, "float"): float,
                   (False, "bool"): bool, (False, "str"): str}
    _PY["ph"] = {"NE": mt.NonEmptyStr, "Mime": mt.MimeTypeStr, "Hash": mt.HashsumStr, "QHash": mt.QualHashsumStr}
    _PY["obj"] = {}
    for name, (_chain, extra, fields, base) in OBJS.items():
        ns = {"__annotations__": {n: to_py(t) for n, t in fields if base is None or n not in dict(OBJS[base][2])},
              "__module__": __name__}
        if extra != "allow":
            ns["Config"] = type("Config", (), {"extra": Extra(extra)})
        _PY["obj"][name] = type(name, (_PY["obj"][base] if base else MetadataSchema,), ns)
    return _PY


def to_py(d):
    import typing as T
    k = d[0]
    if k == "any":
        return T.Any
    if k == "none":
        return type(None)
    if k == "prim":
        return _env()["prim"][(d[1], d[2])]
    if k == "ph":
        return _env()["ph"][d[1]]
    if k == "obj":
        return _env()["obj"][d[1]]
    if k == "lit":
        return T.Literal[tuple(d[1])]
    if k == "union":
        return T.Union[tuple(to_py(x) for x in d[1])]
    if k == "list":
        return T.List[to_py(d[1])]
    if k == "set":
        return T.Set[to_py(d[1])]
    raise ValueError(d)


def hint_py(ann: bool, d):
    t = to_py(d)
    if ann:
        from pydantic import Field
        from typing_extensions import Annotated
        return Annotated[t, Field(description="x")]
    return t


def w_subrows(arg) -> List[Tuple[int, List[str]]]:
    """rows of the is_subtype table; cells 'T' / 'F' / 'E' (exception)"""
    types, hints_b, rows = arg
    from metador_core.util.typing import is_subtype
    pb = [hint_py(ann, types[j]) for ann, j in hints_b]
    out = []
    for (ann, i) in rows:
        a = hint_py(ann, types[i])
        cells = []
        for b in pb:
            try:
                with vlib.time_limit(60):
                    cells.append("T" if is_subtype(a, b) else "F")
            except Exception:  # noqa: BLE001
                cells.append("E")
        out.append(((ann, i), cells))
    return out


_FIELD_SCHEMAS: Dict[Any, Any] = {}


def _field_schema(d):
    key = repr(d)          # not d itself: (True,) == (1,) in Python
    s = _FIELD_SCHEMAS.get(key)
    if s is None:
        from metador_core.schema.core import MetadataSchema
        _env()
        s = type("F", (MetadataSchema,), {"__annotations__": {"x": to_py(d)}, "__module__": __name__})
        _FIELD_SCHEMAS[key] = s
    return s


def parse_field(d, v) -> Tuple[bool, Any]:
    """(accepted?, dump of the field as JSON text or None)"""
    S = _field_schema(d)
    try:
        with vlib.time_limit(60):
            o = S.parse_raw(json.dumps({"x": v}))
            dumped = json.loads(bytes(o))
    except vlib.CaseTimeout:
        raise
    except Exception:  # noqa: BLE001
        return False, None
    return True, json.dumps(dumped.get("x", None), sort_keys=True)


def w_accept(arg) -> List[Tuple[int, List[Tuple[bool, Any]]]]:
    types, idxs, values = arg
    return [(i, [parse_field(types[i], v) for v in values]) for i in idxs]


def w_phchains(_=None) -> Dict[str, List[int]]:
    env = _env()
    byc = {cls: n for n, cls in env["ph"].items()}
    return {n: [PH_ID[byc[c]] for c in cls.__mro__ if c in byc] for n, cls in env["ph"].items()}


def w_ptable(strings: List[str]) -> List[Any]:
    env = _env()
    return [[str(PH[n][0]), [s for s in strings if isinstance(s, env["ph"][n])]] for n in PH]


# ---- classes

def build_classes(spec):
    """spec -> (status, parent class, child class or None)."""
    from pydantic import Extra
    from metador_core.schema.core import MetadataSchema, check_types
    from metador_core.schema.decorators import add_const_fields, override
    _env()

    def mk(name, base, fields, extra, unann=(), nonfields=False):
        ns = {"__annotations__": {n: hint_py(ann, t) for n, (ann, t) in fields}, "__module__": __name__}
        if extra is not None:
            ns["Config"] = type("Config", (), {"extra": Extra(extra)})
        apply_attrs(ns, unann, nonfields)
        return type(name, (base,), ns)

    P = mk("GenParent", MetadataSchema, spec["p_fields"], spec["p_extra"] if spec["p_extra"] != "allow" else None)
    if spec["p_consts"]:
        P = add_const_fields({c: "pconst" for c in spec["p_consts"]}, override=True)(P)
    check_types(P)
    try:
        C = mk("GenChild", P, spec["c_own"], spec["c_extra_explicit"], spec.get("c_unann", ()),
               spec.get("c_nonfields", False))
        if spec["c_newconsts"]:
            C = add_const_fields({c: "cconst" for c in spec["c_newconsts"]}, override=True)(C)
        if spec["c_declared"]:
            C = override(*spec["c_declared"])(C)
        check_types(C)
    except (TypeError, ValueError) as e:
        return "refused", P, None, f"{type(e).__name__}: {str(e)[:160]}"
    return "ok", P, C, ""


def _parses(cls, raw) -> Tuple[bool, Any]:
    try:
        return True, cls.parse_raw(raw)
    except Exception as e:  # noqa: BLE001
        cause = None
        try:                    # every complaint of the validator: [kind, field-or-key]; the first one leads
            cause = []
            for er in e.errors():
                loc = [x for x in er["loc"] if x != "__root__"] or ["?"]
                c = ["extra", str(loc[-1])] if er["type"] == "value_error.extra" else ["field", str(loc[0])]
                if c not in cause:
                    cause.append(c)
            cause = cause or None
        except Exception:  # noqa: BLE001
            cause = None
        return False, cause


def blamed(cause, declared) -> Any:
    """first complaint of a rejecting ancestor that is not about a field named in @override (those are
    exempt); None when every complaint is about a declared override"""
    if not cause:
        return ["unknown", "?"]
    for c in cause:
        if not (c[0] == "field" and c[1] in declared):
            return c
    return None


STRMOD_PARENT_SRC = """from __future__ import annotations
from typing import List, Optional, Set, Union
from metador_core.schema.core import MetadataSchema


class SmParent(MetadataSchema):
{body}
"""

STRMOD_CHILD_SRC = """from __future__ import annotations
from typing import List, Optional, Set, Union
from {pmod} import SmParent


class SmChild(SmParent):
{body}
"""

_STRMOD_N = [0]


def build_strmod_classes(spec):
    """Parent and child live in two synthetic modules with postponed (string) annotations; the child re-declares
    the field with textually identical annotation, the shared name is bound per module."""
    import sys
    import types
    from metador_core.schema.core import check_types
    _env()
    sm = spec["strmod"]
    _STRMOD_N[0] += 1
    tag = f"c13sm_{spec['idx']}_{_STRMOD_N[0]}"
    pm, cm = types.ModuleType(tag + "_p"), types.ModuleType(tag + "_c")
    sys.modules[pm.__name__], sys.modules[cm.__name__] = pm, cm
    pm.__dict__[sm["name"]] = to_py(sm["tp"])
    cm.__dict__[sm["name"]] = to_py(sm["tc"])
    line = f"    fld: {sm['text']}"
    exec(STRMOD_PARENT_SRC.format(body=line if spec["p_fields"] else "    pass"), pm.__dict__)
    P = pm.SmParent
    check_types(P)
    try:
        body = (line + (f" = {sm['default']}" if sm.get("default") else "")) if spec["c_own"] else "    pass"
        exec(STRMOD_CHILD_SRC.format(pmod=pm.__name__, body=body), cm.__dict__)
        C = cm.SmChild
        check_types(C)
    except (TypeError, ValueError) as e:
        return "refused", P, None, f"{type(e).__name__}: {str(e)[:160]}"
    return "ok", P, C, ""


def impl_class_case(spec) -> Dict[str, Any]:
    status, P, C, why = build_strmod_classes(spec) if spec.get("strmod") else build_classes(spec)
    rows = []
    for obj in spec["objects"]:
        raw = json.dumps(obj)
        p_ok, _ = _parses(P, raw)
        if C is None:
            rows.append([None, p_ok, None, None])
            continue
        c_ok, inst = _parses(C, raw)
        p_dump, cause = None, None
        if c_ok:
            p_dump, cause = _parses(P, bytes(inst))
        rows.append([c_ok, p_ok, p_dump, cause if p_dump is False else None])
    return {"status": status, "why": why, "rows": rows}


def w_class(spec):
    try:
        with vlib.time_limit(90):
            return ("ok", impl_class_case(spec))
    except Exception as e:  # noqa: BLE001
        return ("exc", f"{type(e).__name__}: {e}"[:300])


# ---- inheritance chains (plugin-ness varies per level)

def build_chain(spec, tag):
    """classes root..leaf of the chain; raises TypeError/ValueError when class creation or a
    decorator refuses"""
    from pydantic import Extra
    from metador_core.schema.core import MetadataSchema
    from metador_core.schema.decorators import add_const_fields, override
    _env()
    base, classes = MetadataSchema, []
    for lv, L in enumerate(spec["levels"]):
        ns = {"__annotations__": {n: hint_py(ann, t) for n, (ann, t) in L["own"]}, "__module__": __name__}
        if L["extra_explicit"] is not None:
            ns["Config"] = type("Config", (), {"extra": Extra(L["extra_explicit"])})
        apply_attrs(ns, L.get("unann", ()), L.get("nonfields", False))
        if L["plugin"]:
            ns["Plugin"] = type("Plugin", (), {"name": f"vt.cn{tag}l{lv}", "version": (0, 1, 0)})
        C = type(f"Chain{lv}", (base,), ns)
        if L["newconsts"]:
            C = add_const_fields({c: "cconst" for c in L["newconsts"]}, override=True)(C)
        if L["declared"]:
            C = override(*L["declared"])(C)
        classes.append(C)
        base = C
    return classes


def impl_chain_case(spec) -> Dict[str, Any]:
    from metador_core.plugin.util import register_in_group
    from metador_core.plugins import schemas
    from metador_core.schema.core import check_types
    out: Dict[str, Any] = {"a": "refused", "b": "refused", "why": "", "rows": []}
    salt = spec.get("salt", 0)
    cls_a = cls_b = None
    try:                                # path a: the documented delayed check on the leaf
        cls_a = build_chain(spec, f"{spec['idx']}s{salt}a")
        check_types(cls_a[-1])
        out["a"] = "ok"
    except (TypeError, ValueError, KeyError) as e:   # KeyError: see note on check_overrides' error message
        out["why"] = f"{type(e).__name__}: {str(e)[:160]}"
    try:                                # path b: real registration in the schema plugin group, root first
        cls_b = build_chain(spec, f"{spec['idx']}s{salt}b")
        for C in cls_b:
            if C.__dict__.get("Plugin"):
                register_in_group(schemas, C, violently=True)
        out["b"] = "ok"
    except (TypeError, ValueError, KeyError) as e:
        out["why_b"] = f"{type(e).__name__}: {str(e)[:160]}"
    classes = cls_a if out["a"] == "ok" else (cls_b if out["b"] == "ok" else None)
    if classes is None:
        return out
    for obj in spec["objects"]:
        raw = json.dumps(obj)
        direct = [_parses(C, raw)[0] for C in classes]
        leaf_ok, inst = _parses(classes[-1], raw)
        dumps = None
        if leaf_ok:
            b = bytes(inst)
            dumps = []
            for C in classes[:-1]:
                ok, cause = _parses(C, b)
                dumps.append([ok, None if ok else cause])
        out["rows"].append([leaf_ok, direct, dumps])
    return out


def w_chain(spec):
    try:
        with vlib.time_limit(120):
            return ("ok", impl_chain_case(spec))
    except Exception as e:  # noqa: BLE001
        return ("exc", f"{type(e).__name__}: {e}"[:300])


# ---- installed schemas

def _sample_atom(t, rng):
    import datetime
    import enum
    from pydantic import AnyHttpUrl, StrictBool, StrictFloat, StrictInt, StrictStr
    from metador_core.schema import types as mt
    table = [
        (mt.QualHashsumStr, ["sha256:abcdef01"]), (mt.HashsumStr, ["abcdef01"]),
        (mt.MimeTypeStr, ["text/plain", "image/png;q=1"]), (mt.NonEmptyStr, ["abc", " x y "]),
        (AnyHttpUrl, ["https://example.org/x"]), (StrictBool, [True, False]), (StrictInt, [0, 7]),
        (StrictFloat, [1.5]), (StrictStr, ["abc"]), (datetime.datetime, ["2020-01-02T03:04:05"]),
        (datetime.date, ["2020-01-02"]), (datetime.time, ["03:04:05"]), (bool, [True]), (int, [3]),
        (float, [2.5]), (str, ["abc"]),
    ]
    for cls, vals in table:
        try:
            if t is cls or (isinstance(t, type) and issubclass(t, cls)):
                return rng.choice(vals)
        except TypeError:
            pass
    if isinstance(t, type) and issubclass(t, enum.Enum):
        return list(t)[0].value
    return _SKIP


class _Skip:
    pass


_SKIP = _Skip()


def _sample(hint, rng, depth):
    import typing as T
    from pydantic import BaseModel
    from metador_core.util import typing as mtt
    if mtt.is_annotated(hint):
        return _sample(mtt.get_args(hint)[0], rng, depth)
    if hint is type(None):
        return None
    if mtt.is_literal(hint):
        return rng.choice(list(mtt.get_args(hint)))
    if mtt.is_union(hint):
        args = [a for a in mtt.get_args(hint) if a is not type(None)]
        rng.shuffle(args)
        refs = [a for a in args if getattr(a, "__name__", "") == "LDIdRef"]
        if refs and rng.random() < 0.6:
            args = refs + [a for a in args if a not in refs]
        for a in args:
            v = _sample(a, rng, depth)
            if v is not _SKIP:
                return v
        return _SKIP
    if getattr(hint, "__origin__", None) is tuple:
        out = [_sample(a, rng, depth) for a in mtt.get_args(hint) if a is not Ellipsis]
        return _SKIP if any(v is _SKIP for v in out) else out
    if mtt.is_list(hint) or mtt.is_set(hint):
        n = rng.randint(0, 2) if mtt.is_list(hint) else rng.randint(0, 1)
        if mtt.is_set(hint) and any(isinstance(t, type) and issubclass(t, BaseModel)
                                    for t in mtt.traverse_typehint(hint)):
            n = 0      # model instances are unhashable: only the empty set validates
        out = []
        for _ in range(n):
            v = _sample(mtt.get_args(hint)[0], rng, depth)
            if v is _SKIP:
                return []
            out.append(v)
        return out
    if isinstance(hint, type) and issubclass(hint, BaseModel):
        if depth <= 0:
            return _SKIP
        return _sample_schema(hint, rng, depth - 1, nested=True)
    if hint is T.Any:
        return rng.choice([1, "x", None])
    return _sample_atom(hint, rng)


def _sample_schema(cls, rng, depth, nested=False):
    import typing as T
    hints = getattr(cls, "_typehints", None) or T.get_type_hints(cls, include_extras=True)
    consts = getattr(cls, "__constants__", {})
    out = {}
    for name, fld in cls.__fields__.items():
        if name in consts or name not in hints:
            continue
        if not fld.required and rng.random() < (0.85 if nested else 0.45):
            continue
        v = _sample(hints[name], rng, depth)
        if v is _SKIP:
            if fld.required:
                return _SKIP
            continue
        if v is None and fld.required:
            return _SKIP
        out[fld.alias] = v
    return out


def w_installed(arg) -> Dict[str, Any]:
    """Oracle C for one installed schema plugin."""
    import random
    name, version, seed, n = arg
    from metador_core.plugins import schemas
    from metador_core.schema.core import MetadataSchema
    cls = schemas.get(name, tuple(version))
    ancestors = [a for a in cls.__mro__[1:] if isinstance(a, type) and issubclass(a, MetadataSchema)]
    rng = random.Random(seed)
    res = {"schema": name, "ancestors": [a.__name__ for a in ancestors], "built": 0, "invalid": 0,
           "unserialisable": 0, "checked": 0, "bad": []}
    seen = set()
    for _ in range(n * 4):
        if res["built"] >= n:
            break
        try:
            with vlib.time_limit(60):
                cand = _sample_schema(cls, rng, 2)
                if cand is _SKIP:
                    res["invalid"] += 1
                    continue
                try:
                    inst = cls.parse_obj(cand)
                except Exception:  # noqa: BLE001
                    res["invalid"] += 1
                    continue
                try:
                    raw = bytes(inst)
                except Exception:  # noqa: BLE001
                    res["unserialisable"] += 1
                    continue
                res["built"] += 1
                seen.add(raw)
                for a in ancestors:
                    res["checked"] += 1
                    try:
                        a.parse_raw(raw)
                    except Exception as e:  # noqa: BLE001
                        if len(res["bad"]) < 3:
                            res["bad"].append({"ancestor": a.__name__, "instance": raw.decode(),
                                               "error": f"{type(e).__name__}: {str(e)[:200]}"})
        except vlib.CaseTimeout:
            res["invalid"] += 1
    res["distinct"] = len(seen)
    return res


def list_installed(_=None):
    from metador_core.plugins import schemas
    return sorted((str(k.name), list(k.version)) for k in schemas.keys() if not str(k.name).startswith("vt."))


# --------------------------------------------------------------------------- class case generation

FIELD_POOL = [
    S_INT, S_FLOAT, S_BOOL, S_STR, P_INT, P_STR, P_FLOAT, ("ph", "NE"), ("ph", "Mime"), ("ph", "Hash"),
    ("lit", (1,)), ("lit", (1, 2)), ("lit", ("a",)), ("lit", ("a", "b")), ("lit", (" ",)), ("lit", (True,)),
    opt(S_INT), opt(S_STR), opt(P_STR), opt(("ph", "NE")), opt(("lit", ("a",))), opt(("lit", (" ",))),
    ("union", (S_INT, S_STR)), ("union", (S_INT, S_STR, NONE)), ("union", (S_BOOL, ("ph", "NE"))),
    ("union", (("lit", ("a",)), ("lit", (" ",)))),
    ("list", S_INT), ("list", S_STR), ("list", P_STR), ("list", ("ph", "NE")), ("list", ("lit", ("a", "b"))),
    ("set", S_INT), ("set", ("ph", "NE")), ("set", ("lit", ("a",))), opt(("list", S_STR)), opt(("list", ("ph", "Mime"))),
    ("obj", "OA"), ("obj", "OB"), ("obj", "OQ"), opt(("obj", "OA")), ("list", ("obj", "OA")), ("list", ("obj", "OB")),
    ("union", (("obj", "OA"), S_STR)),
]


def narrowings(d) -> List[Any]:
    """candidate child types for a parent field type d (some valid, some not)"""
    k = d[0]
    out = []
    if d == S_STR:
        out = [("lit", ("a",)), ("ph", "NE")]
    elif d == P_STR:
        out = [S_STR, ("ph", "NE"), ("ph", "Mime")]
    elif d == P_INT:
        out = [S_INT, S_BOOL]
    elif d == P_FLOAT:
        out = [S_FLOAT]
    elif k == "ph":
        out = [("ph", n) for n, c in PH.items() if PH[d[1]][0] in c[1:]] + [("ph", "NE")]
    elif k == "lit":
        out = [("lit", d[1][:1]), ("lit", d[1] + ("zz",))]
    elif k == "obj":
        out = [("obj", "OB"), ("obj", "OA")]
    elif k == "union":
        mem = list(d[1])
        out = [m for m in mem if m != NONE]
        if len(mem) > 2:
            out += [("union", tuple(mem[:i] + mem[i + 1:])) for i in range(len(mem))]
        out += [("union", tuple(narrowings(m)[0] if narrowings(m) else m for m in mem))]
    elif k in ("list", "set"):
        out = [(k, n) for n in narrowings(d[1])]
    return [o for o in out if mergeable(o) and (o[0] != "union" or len(set(o[1])) == len(o[1]) > 1)]


OBJ_VALUES = ["<absent>", None, 1, True, "a", " ", " a ", 1.5, "a/b", "ff", [], [1], ["a"], [" "], {"a": 1},
              {"a": 1, "b": "x"}, {"q": "x"}, [{"a": 1}], 2, "b", ["a/b"], [{"a": 1, "b": "x"}]]


def loosenings(d) -> List[Any]:
    """child types that admit more than the parent type d (must be refused unless declared)"""
    out = []
    if not (d[0] == "union" and NONE in d[1]) and d[0] not in ("any",):
        o = ("union", tuple(d[1]) + (NONE,)) if d[0] == "union" else opt(d)
        out.append(o)
    if d[0] == "prim" and d[1]:
        out.append(("union", (d, ("lit", ("zz",)))) if d[2] != "str" else ("union", (d, S_INT)))
    if d[0] == "lit":
        out.append(("lit", d[1] + ("zz",)))
    return [o for o in out if mergeable(o)]


def pick_override(t, rng):
    r = rng.random()
    cands = narrowings(t)
    if cands and r < 0.5:
        return rng.choice(cands)
    loose = loosenings(t)
    if loose and r < 0.7:
        return rng.choice(loose)
    if r < 0.8:
        return t
    return rng.choice(FIELD_POOL)


# new fields introduced WITHOUT annotation: `name = default`; pydantic infers the (plain) type from the default
UNANN_DEFAULTS = [5, "dflt", True, [1]]


def unann_desc(default):
    if isinstance(default, bool):
        return P_BOOL
    if isinstance(default, int):
        return P_INT
    if isinstance(default, str):
        return P_STR
    return ("list", ANY)


def unann_hint_sx(default):
    """model hint of a defaulted field: a missing key is fine (the generator never sends null for it)"""
    return hint_sx(False, opt(unann_desc(default)))


def unann_value(default, rng):
    if isinstance(default, bool):
        return rng.choice([False, True, "zz"])
    if isinstance(default, int):
        return rng.choice([7, 5, "zz"])
    if isinstance(default, str):
        return rng.choice(["s", "t", [1]])
    return rng.choice([[2, "x"], [], "zz"])


def apply_attrs(ns, unann, nonfields):
    """un-annotated defaulted attributes (fields) and, as negative cases, a private attribute and a ClassVar"""
    import copy
    import typing as T
    for n, dv in unann:
        ns[n] = copy.deepcopy(dv)
    if nonfields:
        ns["_priv"] = 5
        ns["__annotations__"]["cv"] = T.ClassVar[int]
        ns["cv"] = 3


def good_value(d, rng):
    """a value a field of type d plausibly accepts"""
    k = d[0]
    if k == "any":
        return rng.choice([1, "x"])
    if k == "none":
        return None
    if k == "prim":
        return {"int": rng.choice([1, 2]), "float": 1.5, "bool": True, "str": rng.choice(["a", " a ", "b"])}[d[2]]
    if k == "ph":
        return {"NE": rng.choice(["a", "a/b"]), "Mime": "a/b", "Hash": "ff", "QHash": "sha256:ff"}[d[1]]
    if k == "lit":
        return rng.choice(list(d[1]))
    if k == "union":
        return good_value(rng.choice(list(d[1])), rng)
    if k in ("list", "set"):
        return [good_value(d[1], rng) for _ in range(rng.choice([0, 1, 1, 2] if k == "list" else [0, 1]))]
    if k == "obj":
        return {"OA": {"a": 1}, "OB": rng.choice([{"a": 1, "b": "x"}, {"a": 2}]), "OQ": {"q": "x"},
                "OF": rng.choice([{}, {"a": 1}])}[d[1]]
    raise ValueError(d)


def gen_class_case(rng, idx) -> Dict[str, Any]:
    nf = rng.randint(1, 3)
    p_fields = [(f"f{i}", (rng.random() < 0.3, rng.choice(FIELD_POOL))) for i in range(nf)]
    p_extra = rng.choice(["allow", "allow", "allow", "ignore", "forbid", "forbid"])
    p_consts = ["pc"] if rng.random() < 0.3 else []
    c_own = []
    no_override = rng.random() < 0.2
    for n, (ann, t) in p_fields:
        if not no_override and rng.random() < 0.6:
            ct = pick_override(t, rng)
            c_own.append((n, (ann if rng.random() < 0.85 else not ann, ct)))
    if rng.random() < (0.15 if p_extra == "forbid" else 0.45):
        c_own.append(("n0", (False, rng.choice(FIELD_POOL))))
    if p_consts and rng.random() < 0.08:
        c_own.append(("pc", (False, S_STR)))
    c_unann = []
    if rng.random() < 0.3:
        c_unann.append(("u0", rng.choice(UNANN_DEFAULTS)))
        if rng.random() < 0.25:
            c_unann.append(("u1", rng.choice(UNANN_DEFAULTS)))
    c_nonfields = rng.random() < 0.3
    declared = [n for n, _ in c_own if n.startswith("f") and rng.random() < 0.25]
    if rng.random() < 0.04:
        declared.append("zz")
    if rng.random() < 0.04:
        free = [n for n, _ in p_fields if n not in dict(c_own)]
        if free:
            declared.append(free[0])
    newconsts = ["kc"] if rng.random() < (0.35 if p_extra == "forbid" else 0.25) else []
    explicit = None if rng.random() < 0.6 else rng.choice(["allow", "ignore", "forbid"])
    if p_extra == "forbid" and rng.random() < 0.7:
        explicit = None
    c_extra = explicit if explicit is not None else p_extra
    names = [n for n, _ in p_fields] + [n for n, _ in c_own if n not in dict(p_fields)]
    objects = []
    child_t = dict((n, t) for n, (_a, t) in p_fields)
    child_t.update((n, t) for n, (_a, t) in c_own)
    for _ in range(10):
        o = {}
        for n in names:
            if rng.random() < 0.8:
                v = good_value(child_t[n], rng)
                if v is None and rng.random() < 0.7:
                    continue
                o[n] = v
                continue
            v = rng.choice(OBJ_VALUES)
            if v != "<absent>":
                o[n] = v
        for n, dv in c_unann:
            if rng.random() < 0.3:
                o[n] = unann_value(dv, rng)
        if rng.random() < 0.25:
            o["zz"] = rng.choice([1, None, "x"])
        if newconsts and rng.random() < 0.3:
            o["kc"] = rng.choice(["cconst", 5])
        if p_consts and rng.random() < 0.3:
            o["pc"] = rng.choice(["pconst", 5])
        objects.append(o)
    return {"idx": idx, "p_fields": p_fields, "p_extra": p_extra, "p_consts": p_consts, "c_own": c_own,
            "c_declared": declared, "c_newconsts": newconsts, "c_extra_explicit": explicit, "c_extra": c_extra,
            "c_unann": c_unann, "c_nonfields": c_nonfields, "objects": objects}


def gen_chain_case(rng, idx) -> Dict[str, Any]:
    """Root -> ... -> Leaf, 3 or 4 classes; every level may or may not be a registered plugin (the leaf
    always is); overrides mostly at intermediate levels, the leaf mostly leaves inherited fields alone."""
    depth = rng.choice([3, 3, 4])
    strict_pool = [t for t in FIELD_POOL if in_property_grammar(t)]
    root_fields = [(f"f{i}", (rng.random() < 0.3, rng.choice(strict_pool))) for i in range(rng.randint(1, 2))]
    root_extra = rng.choice(["allow", "allow", "allow", "ignore", "forbid"])
    levels = [{"plugin": rng.random() < 0.75, "own": root_fields, "extra": root_extra,
               "extra_explicit": None if root_extra == "allow" else root_extra, "declared": [], "newconsts": []}]
    cur_t = dict(root_fields)
    cur_u: Dict[str, Any] = {}
    cur_extra = root_extra
    for lv in range(1, depth):
        leaf = lv == depth - 1
        own = []
        if rng.random() < (0.2 if leaf else 0.75):
            for n, (ann, t) in list(cur_t.items()):
                if rng.random() < 0.6:
                    ct = pick_override(t, rng)
                    if not in_property_grammar(ct) and rng.random() < 0.8:
                        ct = t
                    own.append((n, (ann if rng.random() < 0.9 else not ann, ct)))
        if rng.random() < (0.08 if cur_extra == "forbid" else 0.3):
            own.append((f"n{lv}", (False, rng.choice(strict_pool))))
        declared = [n for n, _ in own if n in cur_t and rng.random() < 0.1]
        newconsts = [f"k{lv}"] if rng.random() < (0.05 if cur_extra == "forbid" else 0.12) else []
        explicit = None if rng.random() < 0.85 else rng.choice(["allow", "ignore", "forbid"])
        extra = explicit if explicit is not None else cur_extra
        unann = [(f"u{lv}", rng.choice(UNANN_DEFAULTS))] if rng.random() < 0.15 else []
        levels.append({"plugin": True if leaf else rng.random() < 0.35, "own": own, "extra": extra,
                       "extra_explicit": explicit, "declared": declared, "newconsts": newconsts,
                       "unann": unann, "nonfields": rng.random() < 0.2})
        cur_t.update(own)
        cur_u.update(unann)
        cur_extra = extra
    objects = []
    for _ in range(8):
        o = {}
        for n, (_a, t) in cur_t.items():
            if rng.random() < 0.9:
                v = good_value(t, rng)
                if v is None and rng.random() < 0.7:
                    continue
                o[n] = v
            else:
                v = rng.choice(OBJ_VALUES)
                if v != "<absent>":
                    o[n] = v
        for n, dv in cur_u.items():
            if rng.random() < 0.3:
                o[n] = unann_value(dv, rng)
        if rng.random() < 0.15:
            o["zz"] = rng.choice([1, "x"])
        objects.append(o)
    return {"idx": idx, "levels": levels, "objects": objects}


def chain_case_sx(spec, pt) -> Any:
    root = spec["levels"][0]
    root_sx = [["100"], root["extra"], [[n, hint_sx(ann, t)] for n, (ann, t) in root["own"]], []]
    kids = [[str(100 + lv), L["extra"],
             [[n, hint_sx(ann, t)] for n, (ann, t) in L["own"]] + [[n, unann_hint_sx(dv)] for n, dv in L.get("unann", ())],
             list(L["declared"]), list(L["newconsts"])] for lv, L in enumerate(spec["levels"]) if lv > 0]
    return ["chain", pt, root_sx, kids, [j_sx(o) for o in spec["objects"]]]


def chain_in_grammar(spec) -> bool:
    return all(in_property_grammar(t) for L in spec["levels"] for _, (_, t) in L["own"])


def _chain_from_json(rep):
    def tup(x):
        return tuple(tup(y) for y in x) if isinstance(x, list) else x
    s = dict(rep)
    s["levels"] = [dict(L, own=[(n, (a, tup(t))) for n, (a, t) in L["own"]]) for L in rep["levels"]]
    return s


def chain_fails(spec) -> bool:
    """code-only oracle on one chain case: accepted, nothing declared, an ancestor rejects a leaf dump"""
    st, got = w_chain(spec)
    if st != "ok" or (got["a"] != "ok" and got["b"] != "ok"):
        return False
    declared = [n for L in spec["levels"] for n in L["declared"]]
    return any(leaf_ok and any((not ok) and blamed(c, declared) is not None for ok, c in dumps)
               for leaf_ok, _d, dumps in got["rows"] if dumps is not None)


def shrink_chain_case(spec, obj):
    n = [0]

    def fails(sp):
        n[0] += 1
        return chain_fails(dict(sp, salt=n[0]))

    cur = dict(spec, objects=[obj])
    if not fails(cur):
        return dict(spec, objects=[obj])
    o = dict(obj)
    for k in list(o):                       # object keys
        o2 = {a: b for a, b in o.items() if a != k}
        if fails(dict(cur, objects=[o2])):
            o, cur = o2, dict(cur, objects=[o2])
    for lv in range(len(cur["levels"])):    # own fields / constants of every level
        for key in ("own", "newconsts", "unann"):
            for it in list(cur["levels"][lv].get(key, [])):
                lvls = [dict(L) for L in cur["levels"]]
                lvls[lv][key] = [x for x in lvls[lv].get(key, []) if x != it]
                trial = dict(cur, levels=lvls)
                if fails(trial):
                    cur = trial
    o = dict(cur["objects"][0])
    for k in list(o):                       # keys that became irrelevant
        o2 = {a: b for a, b in o.items() if a != k}
        if fails(dict(cur, objects=[o2])):
            o, cur = o2, dict(cur, objects=[o2])
    cur["salt"] = n[0] + 1
    return cur


# string annotations: one NAME, bound to different types in the parent's and the child's module
STRMOD_BINDINGS = [
    ("Item", ("obj", "OA"), ("obj", "OA")),      # same resolution (harmless re-declaration)
    ("Item", ("obj", "OA"), ("obj", "OB")),      # a subclass of the parent's Item
    ("Item", ("obj", "OA"), ("obj", "OQ")),      # an unrelated Item with another required field
    ("Item", ("obj", "OB"), ("obj", "OA")),      # wider
    ("T", S_INT, S_INT), ("T", S_INT, S_STR), ("T", S_INT, S_BOOL), ("T", S_STR, S_STR),
    ("T", ("ph", "NE"), ("ph", "Mime")), ("T", ("ph", "Mime"), ("ph", "NE")), ("T", ("ph", "Hash"), ("ph", "Hash")),
    ("Kind", ("lit", ("a", "b")), ("lit", ("a",))), ("Kind", ("lit", ("a",)), ("lit", ("a", "b"))),
    ("Kind", ("lit", ("a", "b")), ("lit", ("a", "b"))), ("Kind", ("lit", (1, 2)), ("lit", (True,))),
]
STRMOD_TEXTS = [("{n}", lambda d: d, None), ("List[{n}]", lambda d: ("list", d), "[]"),
                ("Optional[{n}]", opt, "None"), ("Optional[List[{n}]]", lambda d: opt(("list", d)), "None"),
                ("Set[{n}]", lambda d: ("set", d), None), ("Union[{n}, None]", opt, None)]


def gen_strmod_cases(rng, start_idx) -> List[Dict[str, Any]]:
    out = []
    for name, tp, tc in STRMOD_BINDINGS:
        for text, comp, default in STRMOD_TEXTS:
            if "Set[" in text and not hashable_atom(tp):
                continue
            for dflt in ([None, default] if default else [None]):
                ftp, ftc = comp(tp), comp(tc)
                objects = []
                for k in range(6):
                    v = good_value(ftc if k % 3 else ftp, rng)
                    if v is None and (dflt is None or dflt == "None") and rng.random() < 0.6:
                        objects.append({})
                    else:
                        objects.append({"fld": v if v is not None or dflt in (None, "None") else []})
                if dflt == "[]":
                    objects = [o for o in objects if "fld" in o and o["fld"] is not None]
                out.append({"idx": start_idx + len(out), "p_fields": [("fld", (False, ftp))], "p_extra": "allow",
                            "p_consts": [], "c_own": [("fld", (False, ftc))], "c_declared": [], "c_newconsts": [],
                            "c_extra_explicit": None, "c_extra": "allow", "c_unann": [], "c_nonfields": False,
                            "objects": objects,
                            "strmod": {"name": name, "text": text.format(n=name), "tp": tp, "tc": tc, "default": dflt}})
    return out


CONST_HINT_SX = ["F", ["union", [["any"], ["none"]]]]


def class_case_sx(spec, pt) -> Any:
    p_hints = [[n, hint_sx(ann, t)] for n, (ann, t) in spec["p_fields"]] + [[c, CONST_HINT_SX] for c in spec["p_consts"]]
    parent = [["100"], spec["p_extra"], p_hints, list(spec["p_consts"])]
    child = ["101", spec["c_extra"],
             [[n, hint_sx(ann, t)] for n, (ann, t) in spec["c_own"]]
             + [[n, unann_hint_sx(dv)] for n, dv in spec.get("c_unann", ())],
             list(spec["c_declared"]), list(spec["c_newconsts"])]
    return ["chk", pt, parent, child, [j_sx(o) for o in spec["objects"]]]


def spec_in_grammar(spec) -> bool:
    return all(in_property_grammar(t) for _, (_, t) in spec["p_fields"] + spec["c_own"])


def _jsonable(spec):
    return json.loads(json.dumps(spec))


def _spec_from_json(rep):
    def tup(x):
        return tuple(tup(y) for y in x) if isinstance(x, list) else x
    s = dict(rep)
    s["p_fields"] = [(n, (a, tup(t))) for n, (a, t) in rep["p_fields"]]
    s["c_own"] = [(n, (a, tup(t))) for n, (a, t) in rep["c_own"]]
    if rep.get("strmod"):
        s["strmod"] = dict(rep["strmod"], tp=tup(rep["strmod"]["tp"]), tc=tup(rep["strmod"]["tc"]))
    return s


# --------------------------------------------------------------------------- main

def run(ctx: vlib.Ctx):
    proof = ctx.check_proofs()
    cov = ctx.coverage
    cov["trusted_base"] = vlib.TRUSTED_COMMON + [
        "modelled, not verified: pydantic 1.10 validators for the grammar under BaseModelPlus.Config; runtype 0.3.5 "
        "comparison operators and Python's reflected-operator dispatch between them; typing's Union flattening/"
        "deduplication; phantom 2.1.1 instance checks (predicates are abstract ids interpreted per run by a table "
        "computed with the real isinstance on every string of the corpus); json.loads/json.dumps",
        "plain (non-strict) int/float/bool/str are outside the property's grammar and modelled for acceptance only; "
        "numeric strings only in the lexical forms sign? digits(_digits)* [. digits] (no exponents)",
        "class-level model omits: the mergeable-shape check (generator emits mergeable shapes only), private/ClassVar "
        "fields, aliases, constants overriding typed fields, Literal/enum specialisation by constants",
    ]
    PH.update(vlib.pmap(w_phchains, [None, None], procs=2)[0])
    disagreements: List[Dict[str, Any]] = []
    gaps: List[Dict[str, Any]] = []
    evals = 0
    full = not ctx.quick

    # ---- 2 (first, it closes the corpus). acceptance: every type x corpus
    types = universe(full)
    tidx = {repr(d): i for i, d in enumerate(types)}
    values = list(CORPUS)
    chunks = [list(range(i, len(types), vlib.NPROC * 2)) for i in range(vlib.NPROC * 2)]
    acc: Dict[int, List[Tuple[bool, Any]]] = {}
    for part in vlib.pmap(w_accept, [(types, c, values) for c in chunks if c]):
        acc.update(dict(part))
    known = {json.dumps(v, sort_keys=True) for v in values}
    n_corpus = len(values)
    for _round in range(6):    # close the corpus under serialisation
        extra_vals: List[Any] = []
        for i in range(len(types)):
            for ok, d in acc[i]:
                if ok and d not in known:
                    known.add(d)
                    extra_vals.append(json.loads(d))
        if not extra_vals:
            break
        for part in vlib.pmap(w_accept, [(types, c, extra_vals) for c in chunks if c]):
            for i, row in part:
                acc[i] = acc[i] + row
        values = values + extra_vals
    extra_vals = values[n_corpus:]
    vkey = {json.dumps(v, sort_keys=True): k for k, v in enumerate(values)}
    strs: set = set()
    for v in values:
        strings_in(v, strs)
    for lv in LITS:
        strs.update(x for x in lv if isinstance(x, str))
    strs.update(["zz", "cconst", "pconst", "x"])
    for v in OBJ_VALUES:
        strings_in(v, strs)
    pt = vlib.pmap(w_ptable, [sorted(strs)], procs=1)[0]
    jvals = [j_sx(v) for v in values]
    mcases = [["acc", pt, to_sx(d), jvals] for d in types]
    macc = vlib.run_model("c13", mcases)
    evals += len(types) * len(values)
    n_accept = n_reject = 0
    for i, d in enumerate(types):
        for k, v in enumerate(values):
            r_ok, r_dump = acc[i][k]
            m_ok, m_nf = macc[i][k][0] == "T", macc[i][k][1] == "T"
            n_accept += r_ok
            n_reject += (not r_ok)
            if r_ok != m_ok and len(disagreements) < 30:
                disagreements.append({"kind": "accepts", "type": d, "value": v, "impl": r_ok, "model": m_ok})
            if r_ok:
                kd = vkey.get(r_dump)
                if kd is not None and macc[i][kd][1] != "T" and len(disagreements) < 30:
                    disagreements.append({"kind": "nf", "type": d, "value": v, "dump": json.loads(r_dump),
                                          "model_nf": False})
    ctx.sample({"case": ["acc", "<ptable>", to_sx(types[tidx[repr(opt(S_STR))]]), jvals[12:20]],
                "model": macc[tidx[repr(opt(S_STR))]][12:20]})
    # in-Coq evaluation needs printable atoms: same model cases restricted to the printable values
    pjv = [j for j in jvals if vlib.coq_literal_ok(j)]
    xcases = [["acc", pt, to_sx(d), pjv] for d in types[::7] if vlib.coq_literal_ok(to_sx(d))]
    xc_acc = vlib.coq_crosscheck("c13", xcases, vlib.run_model("c13", xcases), "c13acc", max_cases=25)

    # ---- 1. is_subtype table
    hints_b = [(False, j) for j in range(len(types))]
    n_at = 2 * len(atoms(full)) - 1          # atoms and Optional[atom] also inside Annotated[...]
    hints_b_ann = [(True, j) for j in range(n_at)]
    rows = [(False, i) for i in range(len(types))] + [(True, i) for i in range(n_at)]
    all_b = hints_b + hints_b_ann
    parts = [rows[i::vlib.NPROC * 2] for i in range(vlib.NPROC * 2)]
    table: Dict[Tuple[bool, int], List[str]] = {}
    for part in vlib.pmap(w_subrows, [(types, all_b, p) for p in parts if p]):
        table.update(dict((tuple(k), v) for k, v in part))
    b_sx = [hint_sx(ann, types[j]) for ann, j in all_b]
    scases = [["subrow", pt, hint_sx(ann, types[i]), b_sx] for ann, i in rows]
    msub = vlib.run_model("c13", scases, chunk=max(8, len(scases) // (vlib.NPROC * 2)))
    evals += len(rows) * len(all_b)
    n_sub = 0
    n_frag_refused = n_frag_admitted = 0
    witnessed = 0
    oracle_reported = False
    for (ann, i), mrow in zip(rows, msub):
        cells = table[(ann, i)]
        for (annb, j), cell, mc in zip(all_b, cells, mrow):
            if cell != mc[0] and len(disagreements) < 30:
                disagreements.append({"kind": "is_subtype", "a": [ann, types[i]], "b": [annb, types[j]],
                                      "impl": cell, "model": mc[0]})
            if cell == "F" and not ann and not annb and frag_pair(types[i], types[j]):
                # completeness on the fragment (code alone): a refused pair has a corpus witness
                n_frag_refused += 1
                if not any(ok and not acc[j][vkey[d]][0] for ok, d in acc[i]) and len(disagreements) < 30:
                    disagreements.append({"kind": "fragment-completeness", "a": types[i], "b": types[j],
                                          "note": "is_subtype refuses a fragment pair but no corpus value is accepted by "
                                                  "the child type and rejected by the parent type "
                                                  "(C13_refused_iff_witness_fragment)"})
            if cell == "T" and not ann and not annb and frag_pair(types[i], types[j]):
                n_frag_admitted += 1
            if cell != "T":
                continue
            n_sub += 1
            # oracle A (code alone): child-accepted value whose dump the parent rejects
            wit = None
            for k, v in enumerate(values):
                ok, d = acc[i][k]
                if ok:
                    kd = vkey[d]
                    if not acc[j][kd][0]:
                        wit = (v, values[kd])
                        break
            if wit is None:
                continue
            witnessed += 1
            a_d, b_d = types[i], types[j]
            if in_property_grammar(a_d) and in_property_grammar(b_d):
                if not oracle_reported:
                    oracle_reported = True
                    # the same witness at class level: Parent.x : b, Child(Parent).x : a, no @override
                    cc = {"idx": 0, "p_fields": [("x", (annb, b_d))], "p_extra": "allow", "p_consts": [],
                          "c_own": [("x", (ann, a_d))], "c_declared": [], "c_newconsts": [],
                          "c_extra_explicit": None, "c_extra": "allow",
                          "objects": [{} if wit[0] is None else {"x": wit[0]}]}
                    cst, cgot = w_class(cc) if mergeable(a_d) and mergeable(b_d) else ("skip", None)
                    cls_note = ""
                    if cst == "ok" and cgot["status"] == "ok" and cgot["rows"][0][0] and cgot["rows"][0][2] is False:
                        cls_note = (f"; class level: check_types(Child) passes, Child accepts {json.dumps(cc['objects'][0])}, "
                                    f"Parent.parse_raw(bytes(child)) fails ({cgot['rows'][0][3]})")
                    ctx.violation(
                        f"is_subtype admits child field type {'Annotated ' if ann else ''}{a_d} for parent field type "
                        f"{'Annotated ' if annb else ''}{b_d} (a class overriding a parent field this way passes check_types), but the child accepts "
                        f"{wit[0]!r} and the parent rejects its dump {wit[1]!r}" + cls_note,
                        {"kind": "type-oracle", "a": [ann, a_d], "b": [annb, b_d], "value": wit[0],
                         "class_case": _jsonable(cc) if cls_note else None},
                        sig_obj={"kind": "type-oracle", "a": a_d, "b": b_d, **({"annotated": [ann, annb]} if ann or annb else {})})
            else:
                if mc[1] == "T" and len(disagreements) < 30:
                    disagreements.append({"kind": "safe_pair", "a": a_d, "b": b_d, "value": wit[0],
                                          "note": "model claims the pair is safe but the code shows a witness"})
                if len(gaps) < 5 or (len(gaps) < 40 and "' '" in repr(a_d)):
                    gaps.append({"a": a_d, "b": b_d, "value": wit[0], "dump": wit[1]})
    ctx.sample({"case": ["subrow", "<ptable>", hint_sx(False, types[tidx[repr(opt(("lit", (" ",))))]]), b_sx[:6]],
                "model": msub[tidx[repr(opt(("lit", (" ",))))]][:6]})
    small = [(c[:3] + [c[3][:40]], r[:40]) for c, r in zip(scases[::23], msub[::23])]
    xc_sub = vlib.coq_crosscheck("c13", [c for c, _ in small], [r for _, r in small], "c13sub", max_cases=20)

    # ---- 3. classes + oracle B
    ncls = ctx.budget(400, 10000)
    specs = [gen_class_case(ctx.rng, k) for k in range(ncls)]
    specs += gen_strmod_cases(ctx.rng, ncls)       # two-module string-annotation cases, same pipeline
    n_strmod = len(specs) - ncls
    ncls = len(specs)
    ccases = [class_case_sx(s, pt) for s in specs]
    mcls = vlib.run_model("c13", ccases)
    icls = vlib.pmap(w_class, specs, chunksize=8)
    evals += ncls
    n_ok = n_ref = n_rows = n_child_acc = 0
    cls_reported = set()
    for spec, (mchk, mpin, mrows), (st, got) in zip(specs, mcls, icls):
        if st != "ok":
            disagreements.append({"kind": "class-exc", "spec": _jsonable(spec), "impl": got})
            continue
        real_ok = got["status"] == "ok"
        n_ok += real_ok
        n_ref += (not real_ok)
        if real_ok != (mchk == "T") and len(disagreements) < 30:
            disagreements.append({"kind": "check_child", "spec": _jsonable(spec), "impl": got["status"],
                                  "why": got["why"], "model": mchk, "model_pinned": mpin})
        for obj, (c_ok, p_ok, p_dump, cause), (mc, mp) in zip(spec["objects"], got["rows"], mrows):
            n_rows += 1
            if p_ok != (mp == "T") and len(disagreements) < 30:
                disagreements.append({"kind": "parent-accepts", "spec": _jsonable(spec), "object": obj,
                                      "impl": p_ok, "model": mp})
            if c_ok is None:
                continue
            n_child_acc += bool(c_ok)
            if c_ok != (mc == "T") and len(disagreements) < 30:
                disagreements.append({"kind": "child-accepts", "spec": _jsonable(spec), "object": obj,
                                      "impl": c_ok, "model": mc})
            # oracle B (code alone)
            lead = blamed(cause, spec["c_declared"]) if (real_ok and c_ok and p_dump is False) else None
            if lead is not None:
                if spec_in_grammar(spec):
                    # cause as the parent's own validation error names it: an unexpected key, or a field value
                    kind = lead[0]
                    sig = {"kind": "class-oracle", "cause": kind}
                    key = json.dumps(sig, sort_keys=True)
                    if kind == "field" and oracle_reported:
                        key = None      # the exhaustive type-pair oracle already reported a field-type witness
                    if key is not None and key not in cls_reported:
                        cls_reported.add(key)
                        small_spec = shrink_class_case(spec, obj)
                        ctx.violation(
                            f"a child schema passes class creation and check_types (declared overrides: {small_spec['c_declared']}), "
                            f"accepts {json.dumps(small_spec['objects'][0])}, and its parent rejects the serialised child instance: "
                            f"{lead} (parent extra={spec['p_extra']}, child constants={small_spec['c_newconsts']}, "
                            f"un-annotated new fields={small_spec.get('c_unann', [])})"
                            + (f"; parent and child are in two modules with string annotations, both declare "
                               f"`fld: {small_spec['strmod']['text']}`, `{small_spec['strmod']['name']}` is "
                               f"{small_spec['strmod']['tp']} in the parent's module and {small_spec['strmod']['tc']} "
                               f"in the child's" if small_spec.get("strmod") else ""),
                            {"kind": "class-oracle", "spec": _jsonable(small_spec)}, sig_obj=sig)
                elif len(gaps) < 10:
                    gaps.append({"class_case": _jsonable(spec), "object": obj})
    ctx.sample({"case": ccases[3], "model": mcls[3]})
    xc_cls = vlib.coq_crosscheck("c13", ccases[:60], mcls[:60], "c13cls", max_cases=20)

    # ---- 4. inheritance chains + oracle D
    nch = ctx.budget(250, 5000)
    chains = [gen_chain_case(ctx.rng, k) for k in range(nch)]
    hcases = [chain_case_sx(c, pt) for c in chains]
    mch = vlib.run_model("c13", hcases)
    ich = vlib.pmap(w_chain, chains, chunksize=4)
    evals += nch
    n_ch_ok = n_ch_rows = n_ch_leaf_acc = n_ch_mid_override = 0
    chain_reported = set()
    for spec, (mchk, mrows), (st, got) in zip(chains, mch, ich):
        if st != "ok":
            disagreements.append({"kind": "chain-exc", "spec": _jsonable(spec), "impl": got})
            continue
        for path in ("a", "b"):
            if (got[path] == "ok") != (mchk == "T") and len(disagreements) < 30:
                disagreements.append({"kind": "check_chain", "via": "check_types(leaf)" if path == "a" else "register_in_group",
                                      "spec": _jsonable(spec), "impl": got[path], "why": got.get("why"),
                                      "model": mchk})
        accepted = got["a"] == "ok" or got["b"] == "ok"
        n_ch_ok += accepted
        n_ch_mid_override += accepted and any(L["own"] and not L["plugin"] for L in spec["levels"][1:-1])
        for obj, (leaf_ok, direct, dumps), (mleaf, manc) in zip(spec["objects"], got["rows"], mrows):
            n_ch_rows += 1
            n_ch_leaf_acc += bool(leaf_ok)
            if [("T" if x else "F") for x in direct] != list(manc) and len(disagreements) < 30:
                disagreements.append({"kind": "chain-accepts", "spec": _jsonable(spec), "object": obj,
                                      "impl": direct, "model": manc})
            # oracle D (code alone): the leaf was let through, so every ancestor reads its instances
            if not (leaf_ok and dumps is not None):
                continue
            decl = [n for L in spec["levels"] for n in L["declared"]]
            bad = [(lv, blamed(cause, decl)) for lv, (ok, cause) in enumerate(dumps)
                   if not ok and blamed(cause, decl) is not None]
            if not bad:
                continue
            if chain_in_grammar(spec):
                lv, cause = bad[0]
                kind = cause[0] if cause else "unknown"
                sig = {"kind": "chain-oracle", "cause": kind}
                key = json.dumps(sig, sort_keys=True)
                if kind == "field" and oracle_reported:
                    continue            # the exhaustive type-pair oracle already reported a field-type witness
                if key in chain_reported or (key.replace("chain-oracle", "class-oracle") in cls_reported):
                    continue
                chain_reported.add(key)
                small = shrink_chain_case(spec, obj)
                st2, got2 = w_chain(dict(small, salt=small.get("salt", 0) + 1))
                if st2 == "ok" and got2["rows"] and got2["rows"][0][2]:
                    decl2 = [n for L in small["levels"] for n in L["declared"]]
                    bad2 = [(i, blamed(c, decl2)) for i, (ok, c) in enumerate(got2["rows"][0][2])
                            if not ok and blamed(c, decl2) is not None]
                    if bad2:
                        lv, cause = bad2[0]
                plug = ["plugin" if L["plugin"] else "no plugin" for L in small["levels"]]
                ctx.violation(
                    f"inheritance chain {plug} passes check_types(leaf)={got['a']} / registration={got['b']} (declared "
                    f"overrides: {[n for L in small['levels'] for n in L['declared']]}), the leaf accepts {json.dumps(small['objects'][0])}, and the ancestor at level "
                    f"{lv} rejects the serialised leaf instance ({cause})",
                    {"kind": "chain-oracle", "spec": _jsonable(small)}, sig_obj=sig)
            elif len(gaps) < 12:
                gaps.append({"chain_case": _jsonable(spec), "object": obj})
    ctx.sample({"case": hcases[1], "model": mch[1]})
    xc_ch = vlib.coq_crosscheck("c13", hcases[:60], mch[:60], "c13chain", max_cases=15)

    # ---- oracle C: installed schema plugins
    plugins = vlib.pmap(list_installed, [None, None], procs=2)[0]
    per = ctx.budget(25, 300)
    inst = vlib.pmap(w_installed, [(n, v, ctx.seed + k, per) for k, (n, v) in enumerate(plugins)])
    n_inst = sum(r["built"] for r in inst)
    n_inst_checks = sum(r["checked"] for r in inst)
    evals += n_inst_checks
    for r in inst:
        if r["bad"]:
            b = r["bad"][0]
            ctx.violation(
                f"installed schema {r['schema']}: ancestor {b['ancestor']} rejects a serialised instance: {b['error']}",
                {"kind": "installed", "schema": r["schema"], **b},
                sig_obj={"kind": "installed", "schema": r["schema"], "ancestor": b["ancestor"]})

    # ---- the documented gap outside the property's grammar: keep a replayable witness
    if gaps:
        g = next((x for x in gaps if "a" in x and "' '" in repr(x["a"])), None) or next((x for x in gaps if "a" in x), None)
        if g is not None:
            f = ctx.write_replay({"kind": "type-oracle", "a": [False, g["a"]], "b": [False, g["b"]], "value": g["value"],
                                  "what": "outside the property's grammar (plain str / plain bool): is_subtype admits the "
                                          "pair although the parent rejects a value the child accepts",
                                  "failing_input_found": True, "reported_as_violation": False})
            ctx.notes.append(f"out-of-grammar witnesses (not violations): {witnessed} type pairs, e.g. {g}; replay {f}")

    # ---- summary
    cov["evaluations"] = evals
    cov["distinct_nontrivial"] = n_sub + n_ok + n_ch_ok + n_inst
    cov["rule"] = ("type pairs: all ordered pairs of the depth<=2 universe (+ Annotated flags on atom pairs); non-trivial = "
                   "pairs the real is_subtype admits; classes: generated parent/child definitions, non-trivial = passing "
                   "the real check; installed: distinct serialised instances accepted by the schema itself")
    cov["exhaustive"] = True
    cov["input_distribution"] = {
        "types": len(types), "values": len(values), "values_added_by_dump_closure": len(extra_vals),
        "accept_cells": {"accepted": n_accept, "rejected": n_reject},
        "fragment_pairs_refused_with_witness": n_frag_refused, "fragment_pairs_admitted": n_frag_admitted,
        "pairs": len(rows) * len(all_b), "pairs_subtype_true": n_sub, "pairs_with_witness_outside_grammar": witnessed,
        "chains": nch, "chains_accepted": n_ch_ok, "chains_accepted_with_override_in_non_plugin_middle": n_ch_mid_override,
        "chain_objects": n_ch_rows, "chain_objects_leaf_accepted": n_ch_leaf_acc,
        "chain_lengths": _hist(len(c["levels"]) for c in chains),
        "chain_plugin_patterns": _hist("".join("P" if L["plugin"] else "-" for L in c["levels"]) for c in chains),
        "string_annotation_two_module_cases": n_strmod,
        "string_annotation_cases_ok": sum(1 for sp, (st, got) in zip(specs, icls)
                                          if sp.get("strmod") and st == "ok" and got["status"] == "ok"),
        "string_annotation_cases_same_resolution_ok": sum(
            1 for sp, (st, got) in zip(specs, icls)
            if sp.get("strmod") and sp["strmod"]["tp"] == sp["strmod"]["tc"] and st == "ok" and got["status"] == "ok"),
        "classes_with_unannotated_new_field": sum(1 for sp in specs if sp["c_unann"]),
        "classes_with_unannotated_new_field_ok": sum(1 for sp, (st, got) in zip(specs, icls)
                                                     if sp["c_unann"] and st == "ok" and got["status"] == "ok"),
        "classes_with_unannotated_new_field_under_forbid": sum(1 for sp in specs if sp["c_unann"] and sp["p_extra"] == "forbid"),
        "classes_with_private_and_classvar_attrs": sum(1 for sp in specs if sp["c_nonfields"]),
        "chains_with_unannotated_new_field": sum(1 for c in chains if any(L.get("unann") for L in c["levels"])),
        "classes": ncls, "classes_ok": n_ok, "classes_refused": n_ref, "class_objects": n_rows,
        "class_objects_child_accepted": n_child_acc,
        "installed": {r["schema"]: {"built": r["built"], "distinct": r["distinct"], "invalid": r["invalid"],
                                    "unserialisable": r["unserialisable"], "ancestors": len(r["ancestors"])} for r in inst},
    }
    cov["coq_crosscheck"] = {"acc": xc_acc, "sub": xc_sub, "cls": xc_cls, "chain": xc_ch}
    cov["disagreements"] = len(disagreements)
    ctx.assumptions += [
        "strings are ASCII; JSON object keys are distinct; floats are multiples of 0.5",
        "phantom predicates: every subclass predicate implies its ancestors' predicates and rejects blank strings "
        "(premise of the soundness theorems; holds for the four installed phantom string types on the corpus)",
        "nested schema classes used as field types conform to their own ancestors (premise W_conf; established for a "
        "checked child by C13_checked_child)",
    ]
    # premise check for the phantom hypotheses on the corpus
    ptab = {int(p): set(l) for p, l in pt}
    for n, chain in PH.items():
        for anc in chain[1:]:
            if not ptab[chain[0]] <= ptab[anc]:
                disagreements.append({"kind": "phantom-premise", "type": n, "ancestor": anc,
                                      "strings": sorted(ptab[chain[0]] - ptab[anc])})
        if any(not s.strip() for s in ptab[chain[0]]):
            disagreements.append({"kind": "phantom-premise-blank", "type": n})

    xcs = [xc_acc, xc_sub, xc_cls, xc_ch]
    if not all(x["ok"] for x in xcs):
        ctx.violation("extracted runner and in-Coq evaluation of the model disagree (stale or wrong extraction)",
                      {"kind": "crosscheck", "crosscheck": xcs}, found_input=False)
    if not proof["ok"]:
        ctx.violation("proof obligations of Properties/C13.v do not check: " + "; ".join(proof["problems"])[:500],
                      {"kind": "proof", "theorem_file": "coq/Properties/C13.v", "problems": proof["problems"]},
                      found_input=False)
    if disagreements and not ctx.violations and not ctx.known_hits:
        ctx.violation("model/implementation correspondence broken but the property oracle found no failing input",
                      {"kind": "correspondence",
                       "correspondence": "coq/Schema/Subtype.v run_c13 vs metador_core.util.typing.is_subtype / pydantic "
                                         "validation / schema.core check_types",
                       "smallest_disagreement": disagreements[0], "count": len(disagreements)},
                      found_input=False)
    elif disagreements:
        ctx.notes.append(f"{len(disagreements)} model/impl disagreements (first: {disagreements[0]})")


def _hist(it):
    h: Dict[str, int] = {}
    for x in it:
        h[str(x)] = h.get(str(x), 0) + 1
    return h


def shrink_class_case(spec, obj):
    """Drop fields / decorations / object keys while the code-only oracle still fails."""
    def fails(s) -> bool:
        st, got = w_class(s)
        if st != "ok" or got["status"] != "ok":
            return False
        return any(c_ok and p_dump is False and blamed(c, s["c_declared"]) is not None
                   for c_ok, _p, p_dump, c in got["rows"])

    cur = dict(spec)
    cur["objects"] = [obj]
    if not fails(cur):
        return cur
    def shrink_object(cur):
        o = dict(cur["objects"][0])
        for k in list(o):
            trial = dict(cur)
            o2 = {a: b for a, b in o.items() if a != k}
            trial["objects"] = [o2]
            if fails(trial):
                cur, o = trial, o2
        return cur

    cur = shrink_object(cur)
    for key in ("c_own", "p_fields", "p_consts", "c_newconsts", "c_unann"):
        items = list(cur.get(key, []))
        for it in list(items):
            trial = dict(cur)
            trial[key] = [x for x in items if x != it]
            if key == "p_fields":
                trial["c_own"] = [x for x in cur["c_own"] if x[0] != it[0]]
            if key in ("p_fields", "c_own"):
                trial["c_declared"] = [d for d in cur["c_declared"] if d != it[0]]
            if fails(trial):
                cur = trial
                items = list(cur.get(key, []))
    return shrink_object(cur)


def replay(rep) -> int:
    """Re-evaluate the recorded failing case on the current tree; 1 if it still fails."""
    vlib._pool_init()

    def tup(x):
        return tuple(tup(y) for y in x) if isinstance(x, list) else x

    kind = rep.get("kind")
    if kind == "type-oracle":
        from metador_core.util.typing import is_subtype
        (ann_a, a), (ann_b, b) = rep["a"], rep["b"]
        a, b = tup(a), tup(b)
        sub = is_subtype(hint_py(ann_a, a), hint_py(ann_b, b))
        ok, d = parse_field(a, rep["value"])
        print(f"is_subtype({a}, {b}) = {sub}; child field accepts {rep['value']!r}: {ok}; dump {d}")
        if not (sub and ok):
            print("no longer failing")
            return 0
        p_ok, _ = parse_field(b, json.loads(d))
        print(f"parent field accepts the dump: {p_ok}")
        if rep.get("class_case"):
            print("class level:", w_class(_spec_from_json(rep["class_case"])))
        print("still failing" if not p_ok else "no longer failing")
        return 0 if p_ok else 1
    if kind == "class-oracle":
        spec = _spec_from_json(rep["spec"])
        st, got = w_class(spec)
        print(st, got)
        bad = st == "ok" and got["status"] == "ok" and any(
            c_ok and p_dump is False and blamed(c, spec["c_declared"]) is not None
            for c_ok, _p, p_dump, c in got["rows"])
        print("still failing" if bad else "no longer failing")
        return 1 if bad else 0
    if kind == "chain-oracle":
        spec = _chain_from_json(rep["spec"])
        spec["salt"] = int(__import__("time").time()) % 100000
        st, got = w_chain(spec)
        print(st, got)
        bad = chain_fails(dict(spec, salt=spec["salt"] + 1))
        print("still failing" if bad else "no longer failing")
        return 1 if bad else 0
    if kind == "installed":
        from metador_core.plugins import schemas
        from metador_core.schema.core import MetadataSchema
        cls = schemas.get(rep["schema"])
        raw = rep["instance"].encode()
        bad = False
        try:
            cls.parse_raw(raw)
        except Exception as e:  # noqa: BLE001
            print("the schema itself no longer accepts the instance:", e)
            return 0
        for a in cls.__mro__[1:]:
            if isinstance(a, type) and issubclass(a, MetadataSchema) and a.__name__ == rep["ancestor"]:
                try:
                    a.parse_raw(raw)
                except Exception as e:  # noqa: BLE001
                    print(f"{a.__name__} rejects: {type(e).__name__}: {str(e)[:200]}")
                    bad = True
        print("still failing" if bad else "no longer failing")
        return 1 if bad else 0
    print("replay names a proof obligation or correspondence; re-run the check itself")
    return 1
