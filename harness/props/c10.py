"""C10 — patches built on a stub apply to the real record with the same result.

Theorems (coq/Properties/C10.v): the stub of a skeleton shows the same paths, kinds and
attribute names and only placeholders (C10_stub_skeleton); an existence-based update produces
the same patch container on any two records with the same skeleton (C10_patch_on_stub), so
the patch made on the stub, opened on top of the real record, is the directly updated record
(C10_stub_patch_applies); its user block continues the real chain (C10_stub_patch_accepted);
stub sets do not merge (C10_stub_merge_refused); after every commit the manifest is linked
from the user block by uuid and digest, holds the record's skeleton, and extensions persist
until overridden, also through a stub (C10_manifest_inv, C10_exts_persist, C10_stub_exts_kept).

Correspondence: real IH5MFRecord histories (1-4 commits, any operations incl. copy/move,
extensions given at random commits) -> create_stub from the newest manifest -> an
existence-based update made once on the stub and once directly on the real record; compared
with the model (coq/IH5/Stub.v): views and raw containers of the real record, manifests
(skeleton with patch indices, extensions, user-block copy) after every commit, the stub's raw
container / skeleton / manifest, per-operation outcomes and raw patch container of both
updates, acceptance of real files + stub-made patch, the linking structure of all uuids and
digests (renamed by first occurrence).

Oracle for the failing-input search (no model): the statement itself on the code —
(a) IH5Skeleton.for_record(stub) vs. the real record (paths, kinds, attribute names), stub
data all placeholders, merge of a stub set refused; (b) real files + stub-made patch open as
IH5MFRecord, dump equal to the dump after the direct update, same per-operation outcomes;
(c) after every commit: sha256 / uuid of the manifest file vs. the user-block extension,
manifest skeleton vs. IH5Skeleton.for_record(record), extensions = given or previous ones
(also for the patch made through the stub); (d) after every *refused* operation (second
commit, commit with unknown keyword / through a read-only handle, create_patch while pending,
discard with nothing pending, create_stub onto an existing target / from a missing manifest):
it was refused, no file changed, the manifest invariant still holds and the committed files
reopen as IH5MFRecord; (e) handed-over manifest (code-side oracle only, Stub.v has no merge of real
records and no manifest locations): the stub-made patch is put next to the real containers, its
manifest is passed as manifest_file= from another name / directory while the name-inferred place
holds nothing / a stale manifest (left by a removed direct patch) / a copy; the record is merged,
patched further through that handle and merged again, and the merged record is patched and merged:
after every merge the manifest next to the merged container has the sha256 + uuid its user block
names (= the manifest of the merged record), describes paths / kinds / attribute names, keeps the
extensions, and the container reopens as IH5MFRecord showing the merged record; after every
further commit clause (c) (replay kind "handover").
"""
from __future__ import annotations

import hashlib
import json
import shutil
from pathlib import Path
from typing import Any, Dict, List, Optional, Tuple

import ih5lib
import vlib

CASE_TIMEOUT = 240
OP_TIMEOUT = 40

KEY_POOL = ["a", "b", "c", "d", "!", "~", "a.b", "..", "x-1", "Z9", "#", "%s", "k=v", "[0]", "(", ")",
            "\"q\"", "'", "\\", "*", "?", "|", "{}", "+", "^", "`", "$", "&", ";", "<>", ",", "a_b",
            "0", "-", "=", ":", "~~", "!a"]
VALUES = ["i:0", "i:1", "i:7", "i:42", "i:-3", "v:00", "v:7f00", "v:417f", "v:deadbeef", "v:7f7f", "e:"]
EXTS = [{"e1": "hello"}, {"packer": {"name": "p", "v": [0, 1, 0]}}, {"e1": "x", "e2": 2}, {}, {"n": None}]
PLACEHOLDER = "e:"


# ---------------------------------------------------------------------------- observations

def _exts_str(e) -> str:
    return json.dumps(e, sort_keys=True)


def _skel_rows(skel: Dict[str, Any]) -> Tuple[List[Any], Any]:
    """Skeleton dict (as in the manifest JSON / IH5Skeleton.dict()) -> model rows
    [path, kind, patch_index] (attributes as "@k" leaves) + the root entry."""
    rows = []
    root = None
    for p, info in skel.items():
        segs = [] if p == "/" else p.strip("/").split("/")
        kind = "G" if str(info["node_type"]).endswith("group") else "D"
        if p == "/":
            root = [kind, int(info["patch_index"])]
        else:
            rows.append([segs, kind, int(info["patch_index"])])
        for k, i in info["attrs"].items():
            rows.append([segs + ["@" + k], "D", int(i)])
    rows.sort(key=lambda r: r[0])
    return rows, root


def _parent_first(skel: Dict[str, Any]) -> bool:
    """Hypothesis of C10_stub_build_eq on the order the code iterates the skeleton in
    (JSON object order of the manifest): every path comes after its parent."""
    seen = {"/"}
    for p in skel:
        if p != "/":
            par = p.rsplit("/", 1)[0] or "/"
            if par not in seen:
                return False
        seen.add(p)
    return True


def _shape(rows) -> List[Any]:
    """paths, kinds, attribute names — without patch indices."""
    return [[r[0], r[1]] for r in rows]


def _skel_of(rec) -> Dict[str, Any]:
    from metador_core.ih5.skeleton import IH5Skeleton
    return json.loads(IH5Skeleton.for_record(rec).json())


def _ub_of(path) -> Dict[str, Any]:
    from metador_core.ih5.manifest import IH5UBExtManifest
    from metador_core.ih5.record import IH5UserBlock
    ub = IH5UserBlock.load(Path(path))
    ext = IH5UBExtManifest.get(ub)
    return {"rec": str(ub.record_uuid), "idx": int(ub.patch_index), "pid": str(ub.patch_uuid),
            "prev": None if ub.prev_patch is None else str(ub.prev_patch),
            "hash": ub.hdf5_hashsum,
            "ext": None if ext is None else {"stub": bool(ext.is_stub_container), "id": str(ext.manifest_uuid),
                                             "hash": str(ext.manifest_hashsum)}}


def _observe_commit(rec) -> Dict[str, Any]:
    """What is on disk right after a commit + what the open record shows."""
    f = Path(rec.ih5_files[-1])
    mfp = Path(str(f) + "mf.json")
    out: Dict[str, Any] = {"file": str(f), "ub": _ub_of(f)}
    if mfp.is_file():
        b = mfp.read_bytes()
        mf = json.loads(b)
        rows, root = _skel_rows(mf["skeleton"])
        mub = mf["user_block"]
        out["mf"] = {"sha": "sha256:" + hashlib.sha256(b).hexdigest(), "uuid": str(mf["manifest_uuid"]),
                     "skel": rows, "root": root, "exts": mf["manifest_exts"], "parent_first": _parent_first(mf["skeleton"]),
                     "ub": {"rec": str(mub["record_uuid"]), "idx": int(mub["patch_index"]), "pid": str(mub["patch_uuid"]),
                            "prev": mub["prev_patch"], "hash": mub["hdf5_hashsum"], "has_ext": bool(mub["ub_exts"])}}
    else:
        out["mf"] = None
    rows, root = _skel_rows(_skel_of(rec))
    out["skel"] = rows
    out["root"] = root
    out["view"] = ih5lib.dump_view(rec)
    try:
        out["loaded_exts"] = rec.manifest.manifest_exts
        out["loaded_uuid"] = str(rec.manifest.manifest_uuid)
    except Exception as e:  # noqa: BLE001
        out["loaded_exts"] = f"!{type(e).__name__}"
        out["loaded_uuid"] = None
    return out


def _apply(rec, ops) -> List[str]:
    res = []
    for op in ops:
        try:
            with ih5lib.hard_time_limit(OP_TIMEOUT):
                ih5lib.apply_op(rec, op)
            res.append("T")
        except vlib.CaseTimeout:
            raise
        except Exception:  # noqa: BLE001
            res.append("F")
    return res


def _commit(rec, given):
    if given is None:
        rec.commit_patch()
    else:
        rec.commit_patch(manifest_exts=json.loads(json.dumps(given)))


def _try_merge(rec, target: Path) -> str:
    """'refused-stub' / 'refused-other:<msg>' / 'merged'."""
    target.parent.mkdir(parents=True, exist_ok=True)
    try:
        rec.merge_files(target)
        return "merged"
    except ValueError as e:
        return "refused-stub" if "stub" in str(e) else f"refused-other:{e}"[:120]
    except Exception as e:  # noqa: BLE001
        return f"refused-other:{type(e).__name__}:{e}"[:120]


FAULTS_PENDING = ["create_patch", "commit_kw"]
FAULTS_COMMITTED = ["double_commit", "commit_kw", "commit_ro", "discard", "stub_existing", "stub_missing_mf"]
FAULTS_MODELLED = {"double_commit", "commit_kw", "commit_ro", "create_patch", "discard"}


def _disk_snapshot(root: Path, skip: Optional[str]) -> Dict[str, str]:
    """name -> sha256 of every file below the case directory (the writable container excluded:
    h5py may flush it at any time)."""
    snap = {}
    for f in sorted(root.rglob("*")):
        if f.is_file() and str(f) != skip:
            snap[str(f.relative_to(root))] = hashlib.sha256(f.read_bytes()).hexdigest()
    return snap


def _invariant(rec) -> List[str]:
    """The manifest invariant for the newest *committed* container of an open record: manifest
    file uuid + sha256 vs. the user-block extension on disk, the handle's loaded manifest and
    in-memory user block, and: the committed files reopen as IH5MFRecord and show the skeleton
    the manifest holds."""
    from metador_core.ih5.manifest import IH5MFRecord, IH5UBExtManifest
    files = [str(p) for p in rec.ih5_files]
    committed = files[:-1] if rec._has_writable else files
    if not committed:
        return []
    bad = []
    newest = committed[-1]
    ub = _ub_of(newest)
    mfp = Path(newest + "mf.json")
    mf = None
    if ub["ext"] is None:
        bad.append("newest committed container has no manifest extension")
    elif not mfp.is_file():
        bad.append("manifest file of the newest committed container is missing")
    else:
        b = mfp.read_bytes()
        mf = json.loads(b)
        if "sha256:" + hashlib.sha256(b).hexdigest() != ub["ext"]["hash"]:
            bad.append("sha256 of the manifest file differs from manifest_hashsum in the user block")
        if str(mf["manifest_uuid"]) != ub["ext"]["id"]:
            bad.append("uuid in the manifest file differs from manifest_uuid in the user block")
        try:
            if str(rec.manifest.manifest_uuid) != ub["ext"]["id"]:
                bad.append("manifest loaded in the open handle is not the one named by the user block")
        except Exception as e:  # noqa: BLE001
            bad.append(f"open handle has no manifest: {type(e).__name__}")
        mem = IH5UBExtManifest.get(rec.ih5_meta[len(committed) - 1])
        if mem is None or str(mem.manifest_uuid) != ub["ext"]["id"] or str(mem.manifest_hashsum) != ub["ext"]["hash"]:
            bad.append("in-memory user block of the open handle differs from the user block on disk")
    try:
        r = IH5MFRecord([Path(f) for f in committed], "r")
        try:
            if mf is not None:
                rows, root = _skel_rows(_skel_of(r))
                mrows, mroot = _skel_rows(mf["skeleton"])
                if (rows, root) != (mrows, mroot):
                    bad.append("skeleton in the manifest differs from IH5Skeleton.for_record of the reopened record")
        finally:
            r.close()
    except vlib.CaseTimeout:
        raise
    except Exception as e:  # noqa: BLE001
        bad.append(f"committed files do not reopen as IH5MFRecord: {type(e).__name__}: {e}"[:200])
    return bad


def _fault(rec, name: str, d: Path, tag: str) -> Dict[str, Any]:
    """Issue one operation that must be refused; outcome + everything it damaged."""
    from metador_core.ih5.manifest import IH5MFRecord
    files = [str(p) for p in rec.ih5_files]
    pending = rec._has_writable
    skip = files[-1] if pending else None
    before = _disk_snapshot(d, skip)
    view_before = ih5lib.dump_view(rec)
    flag = "T"
    try:
        with ih5lib.hard_time_limit(OP_TIMEOUT):
            if name == "double_commit":
                rec.commit_patch()
            elif name == "commit_kw":
                rec.commit_patch(no_such_option=1)
            elif name == "commit_ro":
                ro = IH5MFRecord([Path(f) for f in files], "r")
                try:
                    ro.commit_patch()
                finally:
                    ro.close()
            elif name == "create_patch":
                rec.create_patch()
            elif name == "discard":
                rec.discard_patch()
            elif name == "stub_existing":
                IH5MFRecord.create_stub(Path(files[0][:-len(".ih5")]), Path(files[-1] + "mf.json")).close()
            elif name == "stub_missing_mf":
                (d / f"nostub-{tag}").mkdir(exist_ok=True)
                IH5MFRecord.create_stub(d / f"nostub-{tag}" / "rec", d / f"nostub-{tag}" / "absent.ih5mf.json").close()
            else:
                raise KeyError(name)
    except vlib.CaseTimeout:
        raise
    except KeyError:
        raise
    except Exception:  # noqa: BLE001
        flag = "F"
    bad = []
    after = _disk_snapshot(d, skip)
    if after != before:
        ch = sorted(k for k in set(before) | set(after) if before.get(k) != after.get(k))[:3]
        bad.append(f"files on disk changed: {ch}")
    if [str(p) for p in rec.ih5_files] != files or rec._has_writable != pending:
        bad.append("the set of containers / the pending patch of the open handle changed")
    elif ih5lib.dump_view(rec) != view_before:
        bad.append("the view of the open handle changed")
    bad += _invariant(rec)
    return {"name": name, "flag": flag, "problems": bad}


def exec_case(case) -> Dict[str, Any]:
    """Run one case on the real code; every observation the oracle and the tie need."""
    from metador_core.ih5.manifest import IH5MFRecord
    rounds, upd = case["rounds"], case["upd"]
    out: Dict[str, Any] = {"st": "ok", "rounds": []}
    opened: List[Any] = []
    with vlib.workdir("c10") as d:
        try:
            with ih5lib.hard_time_limit(CASE_TIMEOUT):
                # ---- the real record
                (d / "real").mkdir()
                rec = IH5MFRecord(d / "real" / "rec", "w")
                opened.append(rec)
                faults = case.get("faults") or [[[], []] for _ in rounds]
                out["faults"] = []
                for i, (ops, given) in enumerate(rounds):
                    if i > 0:
                        rec.create_patch()
                        inv = _invariant(rec)
                        if inv:
                            out["faults"].append({"round": i, "phase": "after create_patch", "name": "create_patch (accepted)",
                                                  "flag": "F", "problems": inv})
                    res = _apply(rec, ops)
                    for j, f in enumerate(faults[i][0]):
                        out["faults"].append({"round": i, "phase": "pending", **_fault(rec, f, d, f"{i}p{j}")})
                    _commit(rec, given)
                    ob = _observe_commit(rec)
                    ob["results"] = res
                    out["rounds"].append(ob)
                    for j, f in enumerate(faults[i][1]):
                        out["faults"].append({"round": i, "phase": "committed", **_fault(rec, f, d, f"{i}c{j}")})
                files = [str(p) for p in rec.ih5_files]
                rec.close()
                out["real_raw"] = [ih5lib.dump_raw(f) for f in files]
                newest_mf = Path(files[-1] + "mf.json")
                # ---- the stub
                (d / "stub").mkdir()
                stub = IH5MFRecord.create_stub(d / "stub" / "rec", newest_mf)
                opened.append(stub)
                so = _observe_commit(stub)
                so["raw"] = [ih5lib.dump_raw(f) for f in stub.ih5_files]
                so["nfiles"] = len(stub.ih5_files)
                so["merge"] = _try_merge(stub, d / "m1" / "merged")
                out["stub"] = so
                for j, f in enumerate(case.get("stub_faults") or []):
                    out["faults"].append({"round": "stub", "phase": "committed", **_fault(stub, f, d, f"s{j}")})
                # ---- the update on the stub
                stub.create_patch()
                res = _apply(stub, upd[0])
                _commit(stub, upd[1])
                po = _observe_commit(stub)
                po["results"] = res
                po["raw"] = ih5lib.dump_raw(stub.ih5_files[-1])
                po["merge"] = _try_merge(stub, d / "m2" / "merged")
                pf = str(stub.ih5_files[-1])
                stub.close()
                out["sp"] = po
                # ---- real files + the patch made on the stub (listed newest first: order is irrelevant)
                try:
                    g = IH5MFRecord([Path(pf)] + [Path(f) for f in reversed(files)], "r")
                    opened.append(g)
                    rows, root = _skel_rows(_skel_of(g))
                    go = {"open": "ok", "files": [str(p) for p in g.ih5_files], "view": ih5lib.dump_view(g),
                          "skel": rows, "root": root, "merge": None}
                    try:
                        go["loaded_exts"] = g.manifest.manifest_exts
                        go["loaded_uuid"] = str(g.manifest.manifest_uuid)
                    except Exception as e:  # noqa: BLE001
                        go["loaded_exts"] = f"!{type(e).__name__}"
                        go["loaded_uuid"] = None
                    g.close()
                except vlib.CaseTimeout:
                    raise
                except Exception as e:  # noqa: BLE001
                    go = {"open": f"refused: {type(e).__name__}: {e}"[:300]}
                out["grafted"] = go
                # ---- the same update directly on the real record
                r2 = IH5MFRecord(d / "real" / "rec", "r+")
                opened.append(r2)
                res = _apply(r2, upd[0])
                _commit(r2, upd[1])
                do = _observe_commit(r2)
                do["results"] = res
                do["raw"] = ih5lib.dump_raw(r2.ih5_files[-1])
                r2.close()
                out["direct"] = do
        except vlib.CaseTimeout:
            out["st"] = "timeout"
        except Exception as e:  # noqa: BLE001
            import traceback
            out["st"] = "error"
            out["err"] = f"{type(e).__name__}: {e}"[:300]
            out["tb"] = traceback.format_exc()[-1500:]
        finally:
            for r in opened:
                try:
                    r.close(commit=False)
                except Exception:  # noqa: BLE001
                    pass
    return out


def w_exec(case):
    try:
        return exec_case(case)
    except Exception as e:  # noqa: BLE001
        return {"st": "harness", "err": f"{type(e).__name__}: {e}"[:300]}


# ---------------------------------------------------------------------------- the oracle (code alone)

def _commit_link_problems(ob, who: str) -> List[Tuple[str, str]]:
    """(c): manifest file vs. user-block extension, manifest skeleton vs. the record."""
    bad = []
    ub, mf = ob["ub"], ob["mf"]
    if mf is None or ub["ext"] is None:
        bad.append(("manifest-link", f"{who}: committed container without manifest / extension"))
        return bad
    if ub["ext"]["id"] != mf["uuid"]:
        bad.append(("manifest-link", f"{who}: user block names manifest {ub['ext']['id']}, file holds {mf['uuid']}"))
    if ub["ext"]["hash"] != mf["sha"]:
        bad.append(("manifest-link", f"{who}: manifest_hashsum in the user block differs from the sha256 of the manifest file"))
    if ob.get("loaded_uuid") != mf["uuid"]:
        bad.append(("manifest-link", f"{who}: record.manifest is not the manifest on disk"))
    if mf["skel"] != ob["skel"] or mf["root"] != ob["root"]:
        bad.append(("manifest-skeleton", f"{who}: skeleton in the manifest differs from IH5Skeleton.for_record(record)"))
    mub = mf["ub"]
    if (mub["rec"], mub["idx"], mub["pid"], mub["prev"]) != (ub["rec"], ub["idx"], ub["pid"], ub["prev"]) or mub["has_ext"]:
        bad.append(("manifest-link", f"{who}: user-block copy in the manifest differs from the user block"))
    return bad


def oracle(case, ob) -> List[Tuple[str, str]]:
    """All violations of the property's statement visible in the observations: (class, text)."""
    bad: List[Tuple[str, str]] = []
    damaged = False
    for f in ob.get("faults", []):
        where = f"{f['name']} ({f['phase']}, commit {f['round']})"
        if f["flag"] == "T":
            bad.append(("not-refused", f"{where} was not refused"))
        if f["problems"] and not damaged:      # later findings are consequences of the first damage
            damaged = True
            bad.append(("refused-op-damage", f"after the refused {where}: " + "; ".join(f["problems"])))
    if ob["st"] != "ok":
        return bad if ob["st"] == "error" else []
    prev_exts: Any = {}
    for i, (r, (ops, given)) in enumerate(zip(ob["rounds"], case["rounds"])):
        bad += _commit_link_problems(r, f"commit {i}")
        want = given if given is not None else prev_exts
        if r["mf"] is not None:
            if r["mf"]["exts"] != want:
                bad.append(("exts", f"commit {i}: manifest extensions {r['mf']['exts']!r}, expected {want!r} "
                                    f"({'given' if given is not None else 'inherited'})"))
            prev_exts = r["mf"]["exts"]
    real = ob["rounds"][-1]
    stub = ob["stub"]
    # (a)
    if _shape(stub["skel"]) != _shape(real["skel"]) or stub["root"][0] != real["root"][0]:
        only_s = [x for x in _shape(stub["skel"]) if x not in _shape(real["skel"])][:3]
        only_r = [x for x in _shape(real["skel"]) if x not in _shape(stub["skel"])][:3]
        bad.append(("stub-skeleton", f"skeleton of the stub differs from the real record: only in stub {only_s}, only in real {only_r}"))
    data = [e for e in stub["view"] if e[1] == "D" and e[2] != PLACEHOLDER]
    if data:
        bad.append(("stub-data", f"stub exposes data: {data[:3]}"))
    if stub["nfiles"] != 1 or stub["ub"]["prev"] is not None or not (stub["ub"]["ext"] or {}).get("stub"):
        bad.append(("stub-block", "stub is not a single base container flagged as stub"))
    if (stub["ub"]["rec"], stub["ub"]["idx"], stub["ub"]["pid"]) != (real["ub"]["rec"], real["ub"]["idx"], real["ub"]["pid"]):
        bad.append(("stub-block", "stub user block does not copy record uuid / patch index / patch uuid of the newest real container"))
    for who, o in (("stub", stub), ("stub + patch", ob["sp"])):
        if o["merge"] == "merged":
            bad.append(("stub-merge", f"merge of {who} was not refused"))
    bad += _commit_link_problems(stub, "stub commit")
    bad += _commit_link_problems(ob["sp"], "commit of the patch on the stub")
    bad += _commit_link_problems(ob["direct"], "direct commit")
    # (b)
    g, dr, sp = ob["grafted"], ob["direct"], ob["sp"]
    if g["open"] != "ok":
        bad.append(("not-accepted", f"real files + patch made on the stub do not open: {g['open']}"))
    else:
        if g["view"] != dr["view"]:
            only_g = [e for e in g["view"] if e not in dr["view"]][:3]
            only_d = [e for e in dr["view"] if e not in g["view"]][:3]
            bad.append(("different-result", f"patched record differs from the directly updated one: only via stub {only_g}, only direct {only_d}"))
        if _shape(g["skel"]) != _shape(dr["skel"]):
            bad.append(("different-result", "skeleton of the patched record differs from the directly updated one"))
        if sp["mf"] is not None and _shape(sp["mf"]["skel"]) != _shape(g["skel"]):
            bad.append(("manifest-skeleton", "manifest of the stub-made patch does not describe the paths / kinds / attribute names of the patched real record"))
    if sp["results"] != dr["results"]:
        k = next(i for i, (x, y) in enumerate(zip(sp["results"], dr["results"])) if x != y)
        bad.append(("different-outcome", f"operation {k} {case['upd'][0][k]}: on the stub {'ok' if sp['results'][k] == 'T' else 'refused'}, "
                                         f"directly {'ok' if dr['results'][k] == 'T' else 'refused'}"))
    if (sp["ub"]["prev"], sp["ub"]["idx"], sp["ub"]["rec"]) != (real["ub"]["pid"], real["ub"]["idx"] + 1, real["ub"]["rec"]):
        bad.append(("not-accepted", "user block of the stub-made patch does not name the newest real container as predecessor"))
    # (c) extensions through the update
    want = case["upd"][1] if case["upd"][1] is not None else prev_exts
    if dr["mf"] is not None and dr["mf"]["exts"] != want:
        bad.append(("exts", f"direct commit: manifest extensions {dr['mf']['exts']!r}, expected {want!r}"))
    if sp["mf"] is not None and sp["mf"]["exts"] != want:
        bad.append(("exts-via-stub", f"manifest of the patch made on the stub has extensions {sp['mf']['exts']!r}, the real record's manifest had "
                                     f"{prev_exts!r} and the commit gave {case['upd'][1]!r}: expected {want!r}"))
    if g.get("open") == "ok" and g.get("loaded_exts") != want:
        if not any(c == "exts-via-stub" for c, _ in bad):
            bad.append(("exts-via-stub", f"real files + stub-made patch load manifest extensions {g.get('loaded_exts')!r}, expected {want!r}"))
    return bad


def index_observation(ob) -> Optional[str]:
    """Not part of the demanded skeleton: patch indices in the manifest of a stub-made patch
    vs. those of the patched real record.  Counted and replayable, never a violation."""
    if ob["st"] != "ok" or ob["grafted"]["open"] != "ok" or not ob["sp"]["mf"]:
        return None
    a, b = ob["sp"]["mf"]["skel"], ob["grafted"]["skel"]
    if _shape(a) == _shape(b) and a != b:
        d = [(x[0], x[2], y[2]) for x, y in zip(a, b) if x != y][:3]
        return f"manifest of the stub-made patch vs. patched real record, (path, index in manifest, creation patch): {d}"
    return None


def oracle_classes(case) -> List[str]:
    ob = exec_case(case)
    return sorted({c for c, _ in oracle(case, ob)})


# ---------------------------------------------------------------------------- shrinking

def _flat(case):
    items = []
    for i, (ops, _g) in enumerate(case["rounds"]):
        items += [("r", i, op) for op in ops]
    items += [("u", 0, op) for op in case["upd"][0]]
    return items


def _unflat(case, items):
    rounds = [[[op for (t, i, op) in items if t == "r" and i == k], g] for k, (_o, g) in enumerate(case["rounds"])]
    return {"rounds": rounds, "upd": [[op for (t, _i, op) in items if t == "u"], case["upd"][1]],
            "faults": case.get("faults"), "stub_faults": case.get("stub_faults")}


def _without_round(case, k):
    fl = case.get("faults")
    return {"rounds": case["rounds"][:k] + case["rounds"][k + 1:], "upd": case["upd"],
            "faults": None if fl is None else fl[:k] + fl[k + 1:], "stub_faults": case.get("stub_faults")}


def _fault_variants(case):
    """The case with one refused operation less."""
    fl = case.get("faults") or [[[], []] for _ in case["rounds"]]
    for i, (p, c) in enumerate(fl):
        for ph, lst in ((0, p), (1, c)):
            for j in range(len(lst)):
                cand = json.loads(json.dumps(case))
                cand["faults"] = json.loads(json.dumps(fl))
                del cand["faults"][i][ph][j]
                yield cand
    for j in range(len(case.get("stub_faults") or [])):
        cand = json.loads(json.dumps(case))
        del cand["stub_faults"][j]
        yield cand


def w_shrink(arg):
    case, cls = arg

    def fails(c):
        try:
            return cls in oracle_classes(c)
        except Exception:  # noqa: BLE001
            return False
    if not fails(case):
        return None
    cur = case
    # drop whole rounds (keep at least one), newest first
    changed = True
    while changed and len(cur["rounds"]) > 1:
        changed = False
        for k in range(len(cur["rounds"]) - 1, -1, -1):
            cand = _without_round(cur, k)
            if cand["rounds"] and fails(cand):
                cur, changed = cand, True
                break
    items = _flat(cur)
    if len(items) >= 2:
        small = vlib.ddmin(items, lambda sub: fails(_unflat(cur, sub)), budget=60)
        cur = _unflat(cur, small)
    items = _flat(cur)
    if len(items) == 1 and fails(_unflat(cur, [])):
        cur = _unflat(cur, [])
    # drop refused operations one by one
    changed = True
    while changed:
        changed = False
        for cand in _fault_variants(cur):
            if fails(cand):
                cur, changed = cand, True
                break
    # simplify extensions
    for k in range(len(cur["rounds"])):
        for e in (None, {"e": 1}):
            if cur["rounds"][k][1] not in (None, e):
                cand = json.loads(json.dumps(cur))
                cand["rounds"][k][1] = e
                if fails(cand):
                    cur = cand
                    break
    if cur["upd"][1] is not None:
        cand = json.loads(json.dumps(cur))
        cand["upd"][1] = None
        if fails(cand):
            cur = cand
    ob = exec_case(cur)
    texts = [t for c, t in oracle(cur, ob) if c == cls]
    if not texts:
        return None
    return {"case": cur, "class": cls, "what": texts[0]}


def canon_case(case) -> Any:
    kmap: Dict[str, str] = {}
    vmap: Dict[str, str] = {}

    def k(x):
        return kmap.setdefault(x, f"k{len(kmap)}")

    def v(x):
        return vmap.setdefault(x, f"v{len(vmap)}")

    def cop(op):
        t = op[0]
        if t in ("grp", "del"):
            return [t, [k(x) for x in op[1]]]
        if t == "set":
            return [t, [k(x) for x in op[1]], v(op[2])]
        if t == "aset":
            return [t, [k(x) for x in op[1]], "@" + k("@" + op[2]), v(op[3])]
        if t == "adel":
            return [t, [k(x) for x in op[1]], "@" + k("@" + op[2])]
        if t in ("copy", "move"):
            return [t, [k(x) for x in op[1]], [k(x) for x in op[2]]]
        return [t]

    def cext(e):
        return None if e is None else ("{}" if e == {} else "E")
    out = {"rounds": [[[cop(o) for o in ops], cext(g)] for ops, g in case["rounds"]],
           "upd": [[cop(o) for o in case["upd"][0]], cext(case["upd"][1])]}
    if any(p or c for p, c in (case.get("faults") or [])) or case.get("stub_faults"):
        out["faults"] = case.get("faults")
        out["stub_faults"] = case.get("stub_faults") or []
    return out


# ---------------------------------------------------------------------------- handed-over manifest, merge, further patches
#
# Code-side oracle (no model: Stub.v has no merge of real records / no manifest file locations).
# The stub-made patch is brought to the real record, its manifest is handed over under another
# name / location (manifest_file=...), with nothing / a stale manifest / the same manifest at the
# name-inferred location; the record is merged, patched further and merged again, the merged
# record is patched too.  After every commit and merge: the statement's manifest clause.

INFERRED = ["none", "stale", "same"]
PLACES = ["dir", "name", "suffix"]


def _exts_after(prev, given):
    return given if given is not None else prev


def _merged_problems(merged: Path, src_ext, want_shape, want_root_kind, want_view, want_exts, who: str) -> List[Tuple[str, str]]:
    """The manifest clause for a merged container: the manifest lying next to it is the one its
    user block names (uuid + sha256) = the manifest of the merged record, it describes the paths /
    kinds / attribute names of the record and keeps the extensions; the container reopens as
    IH5MFRecord and shows the merged record."""
    from metador_core.ih5.manifest import IH5MFRecord
    bad: List[Tuple[str, str]] = []
    ub = _ub_of(merged)
    mfp = Path(str(merged) + "mf.json")
    if ub["ext"] is None:
        return [("merge-manifest-link", f"{who}: merged container has no manifest extension in its user block")]
    if src_ext is not None and ub["ext"]["id"] != src_ext["id"]:
        bad.append(("merge-manifest-link", f"{who}: merged container names manifest {ub['ext']['id']}, the merged record's newest container named {src_ext['id']}"))
    if not mfp.is_file():
        bad.append(("merge-manifest-link", f"{who}: no manifest next to the merged container"))
        return bad
    b = mfp.read_bytes()
    try:
        mf = json.loads(b)
        rows, root = _skel_rows(mf["skeleton"])
    except Exception as e:  # noqa: BLE001
        return bad + [("merge-manifest-link", f"{who}: manifest next to the merged container unreadable: {type(e).__name__}")]
    if "sha256:" + hashlib.sha256(b).hexdigest() != ub["ext"]["hash"]:
        bad.append(("merge-manifest-link", f"{who}: sha256 of the manifest next to the merged container differs from manifest_hashsum in its user block "
                                           f"(user block names {ub['ext']['id']}, file holds {mf.get('manifest_uuid')})"))
    if str(mf["manifest_uuid"]) != ub["ext"]["id"]:
        bad.append(("merge-manifest-link", f"{who}: uuid of the manifest next to the merged container differs from manifest_uuid in its user block"))
    if _shape(rows) != want_shape or root[0] != want_root_kind:
        bad.append(("merge-manifest-skeleton", f"{who}: manifest next to the merged container does not describe the paths / kinds / attribute names of the merged record"))
    if mf["manifest_exts"] != want_exts:
        bad.append(("merge-exts", f"{who}: manifest next to the merged container has extensions {mf['manifest_exts']!r}, expected {want_exts!r}"))
    try:
        r = IH5MFRecord([Path(merged)], "r")
        try:
            rrows, rroot = _skel_rows(_skel_of(r))
            if _shape(rrows) != want_shape:
                bad.append(("merge-result", f"{who}: skeleton of the reopened merged record differs from the merged record's"))
            if ih5lib.dump_view(r) != want_view:
                bad.append(("merge-result", f"{who}: reopened merged record differs from the record that was merged"))
            if r.manifest.manifest_exts != want_exts:
                bad.append(("merge-exts", f"{who}: reopened merged record loads extensions {r.manifest.manifest_exts!r}, expected {want_exts!r}"))
        finally:
            r.close()
    except vlib.CaseTimeout:
        raise
    except Exception as e:  # noqa: BLE001
        bad.append(("merge-reopen", f"{who}: merged record does not reopen as IH5MFRecord: {type(e).__name__}: {e}"[:260]))
    return bad


def _merge_and_check(rec, target: Path, want_exts, who: str) -> List[Tuple[str, str]]:
    rows, root = _skel_rows(_skel_of(rec))
    view = ih5lib.dump_view(rec)
    src_ext = _ub_of(rec.ih5_files[-1])["ext"]
    target.parent.mkdir(parents=True, exist_ok=True)
    try:
        merged = rec.merge_files(target)
    except vlib.CaseTimeout:
        raise
    except Exception as e:  # noqa: BLE001
        return [("merge-failed", f"{who}: merge_files raised {type(e).__name__}: {e}"[:260])]
    return _merged_problems(Path(merged), src_ext, _shape(rows), root[0], view, want_exts, who)


def _commit_problems(rec, want_exts, who: str) -> List[Tuple[str, str]]:
    ob = _observe_commit(rec)
    bad = _commit_link_problems(ob, who)
    if ob["mf"] is not None and ob["mf"]["exts"] != want_exts:
        bad.append(("exts", f"{who}: manifest extensions {ob['mf']['exts']!r}, expected {want_exts!r}"))
    bad += [("manifest-link", f"{who}: {t}") for t in _invariant(rec)]
    return bad


def exec_handover(case) -> Dict[str, Any]:
    """-> {"st", "bad": [(class, text)], "did": {...}}"""
    from metador_core.ih5.manifest import IH5MFRecord
    out: Dict[str, Any] = {"st": "ok", "bad": [], "did": {}}
    bad: List[Tuple[str, str]] = out["bad"]
    opened: List[Any] = []
    with vlib.workdir("c10h") as d:
        try:
            with ih5lib.hard_time_limit(CASE_TIMEOUT):
                (d / "real").mkdir()
                rec = IH5MFRecord(d / "real" / "rec", "w")
                opened.append(rec)
                exts: Any = {}
                for i, (ops, given) in enumerate(case["rounds"]):
                    if i > 0:
                        rec.create_patch()
                    _apply(rec, ops)
                    _commit(rec, given)
                    exts = _exts_after(exts, given)
                files = [Path(p) for p in rec.ih5_files]
                rec.close()
                newest_mf = Path(str(files[-1]) + "mf.json")
                # ---- a direct patch whose container is taken away again: its manifest stays behind
                if case["inferred"] == "stale":
                    r2 = IH5MFRecord(d / "real" / "rec", "r+")
                    opened.append(r2)
                    _apply(r2, case["stale"][0])
                    _commit(r2, case["stale"][1])
                    gone = Path(r2.ih5_files[-1])
                    r2.close()
                    gone.unlink()
                # ---- the update through a stub
                (d / "stub").mkdir()
                stub = IH5MFRecord.create_stub(d / "stub" / "rec", newest_mf)
                opened.append(stub)
                stub.create_patch()
                _apply(stub, case["upd"][0])
                _commit(stub, case["upd"][1])
                exts = _exts_after(exts, case["upd"][1])
                sp = Path(stub.ih5_files[-1])
                stub.close()
                patch = d / "real" / sp.name
                shutil.copyfile(sp, patch)
                inferred = Path(str(patch) + "mf.json")
                handed = {"dir": d / "handed" / "update-manifest.json", "name": d / "real" / "handed-over.json",
                          "suffix": d / "real" / (sp.name + ".manifest")}[case["place"]]
                handed.parent.mkdir(exist_ok=True)
                shutil.copyfile(str(sp) + "mf.json", handed)
                if case["inferred"] == "same":
                    shutil.copyfile(handed, inferred)
                elif case["inferred"] == "none" and inferred.exists():
                    inferred.unlink()
                out["did"]["stale_present"] = inferred.is_file() and case["inferred"] == "stale"
                chain = files + [patch]
                # ---- open with the handed-over manifest, merge
                try:
                    g = IH5MFRecord(list(reversed(chain)) if case.get("rev") else list(chain), "r", manifest_file=handed)
                    opened.append(g)
                except vlib.CaseTimeout:
                    raise
                except Exception as e:  # noqa: BLE001
                    bad.append(("handover-open", f"real files + stub-made patch + handed-over manifest do not open: {type(e).__name__}: {e}"[:260]))
                    return out
                if g.manifest.manifest_exts != exts:
                    bad.append(("exts-via-stub", f"handed-over manifest loads extensions {g.manifest.manifest_exts!r}, expected {exts!r}"))
                bad += _merge_and_check(g, d / "out1" / "merged", exts, "merge after opening with manifest_file=")
                out["did"]["merge1"] = True
                g.close()
                # ---- further patches through a handle opened with the handed-over manifest, merge again
                if case["more"]:
                    h = IH5MFRecord(list(chain), "r+", manifest_file=handed)
                    opened.append(h)
                    exts2 = exts
                    for k, (ops, given) in enumerate(case["more"]):
                        if k > 0:
                            h.create_patch()
                        _apply(h, ops)
                        _commit(h, given)
                        exts2 = _exts_after(exts2, given)
                        bad += _commit_problems(h, exts2, f"further commit {k} (handle opened with manifest_file=)")
                    bad += _merge_and_check(h, d / "out2" / "merged", exts2, "merge after further commits")
                    h.close()
                    out["did"]["more"] = len(case["more"])
                # ---- patches on the merged record
                if case["after"] and (d / "out1" / "merged.ih5").is_file() and not any(c in ("merge-reopen", "merge-failed") for c, _ in bad):
                    a = IH5MFRecord(d / "out1" / "merged", "r+")
                    opened.append(a)
                    exts3 = exts
                    for k, (ops, given) in enumerate(case["after"]):
                        if k > 0:
                            a.create_patch()
                        _apply(a, ops)
                        _commit(a, given)
                        exts3 = _exts_after(exts3, given)
                        bad += _commit_problems(a, exts3, f"commit {k} on the merged record")
                    bad += _merge_and_check(a, d / "out3" / "merged", exts3, "merge of the patched merged record")
                    a.close()
                    out["did"]["after"] = len(case["after"])
        except vlib.CaseTimeout:
            out["st"] = "timeout"
        except Exception as e:  # noqa: BLE001
            import traceback
            out["st"] = "error"
            out["err"] = f"{type(e).__name__}: {e}"[:300]
            out["tb"] = traceback.format_exc()[-1500:]
        finally:
            for r in opened:
                try:
                    r.close(commit=False)
                except Exception:  # noqa: BLE001
                    pass
    return out


def w_exec_h(case):
    try:
        return exec_handover(case)
    except Exception as e:  # noqa: BLE001
        return {"st": "harness", "err": f"{type(e).__name__}: {e}"[:300], "bad": [], "did": {}}


def gen_handover(rng, quick: bool) -> Dict[str, Any]:
    base = gen_case(rng, quick)
    keys = sorted({k for ops, _ in base["rounds"] for o in ops if len(o) > 1 and isinstance(o[1], list) for k in o[1]}) or ["a", "b"]

    def small(n):
        ops = []
        for _ in range(n):
            p = [rng.choice(keys) for _ in range(rng.choice([1, 1, 2]))]
            t = rng.choice(["set", "set", "grp", "del", "aset"])
            ops.append({"set": ["set", p, rng.choice(VALUES)], "grp": ["grp", p], "del": ["del", p],
                        "aset": ["aset", p, rng.choice(KEY_POOL), rng.choice(VALUES)]}[t])
        return ops

    def ext():
        return rng.choice(EXTS) if rng.random() < 0.3 else None
    return {"kind": "handover", "rounds": base["rounds"], "upd": base["upd"],
            "inferred": rng.choice(INFERRED), "place": rng.choice(PLACES), "rev": rng.random() < 0.3,
            "stale": [small(rng.randint(0, 3)), rng.choice(EXTS) if rng.random() < 0.5 else None],
            "more": [[small(rng.randint(0, 3)), ext()] for _ in range(rng.choice([0, 1, 1, 2]))],
            "after": [[small(rng.randint(0, 3)), ext()] for _ in range(rng.choice([0, 0, 1, 2]))]}


def fixed_handover() -> List[Dict[str, Any]]:
    C = []
    rounds = [[[["set", ["foo", "bar"], "i:1"], ["set", ["data"], "v:00"]], {"owner": "me"}],
              [[["aset", ["data"], "k1", "i:1"], ["set", ["grp", "sub"], "i:7"]], None]]
    upd = [[["del", ["foo", "bar"]], ["set", ["foo", "new"], "i:7"], ["aset", ["data"], "k2", "i:1"], ["aset", [], "root", "i:1"]], None]
    for inf in INFERRED:
        for place in PLACES[:2]:
            C.append({"kind": "handover", "rounds": rounds, "upd": upd, "inferred": inf, "place": place, "rev": False,
                      "stale": [list(upd[0][:2]) + [["set", ["other"], "i:0"]], {"stale": True}],
                      "more": [[[["set", ["later"], "i:1"]], None]], "after": [[[["del", ["grp"]]], {"x": 1}]]})
    return C


def handover_classes(case) -> List[str]:
    return sorted({c for c, _ in exec_handover(case)["bad"]})


def w_shrink_h(arg):
    case, cls = arg

    def fails(c):
        try:
            return cls in handover_classes(c)
        except Exception:  # noqa: BLE001
            return False
    if not fails(case):
        return None
    cur = json.loads(json.dumps(case))

    def attempt(cand):
        nonlocal cur
        if cand != cur and fails(cand):
            cur = cand
            return True
        return False
    for fld, val in (("after", []), ("more", []), ("rev", False), ("place", "dir"), ("inferred", "none"), ("stale", [[], None])):
        attempt({**cur, fld: val})
    changed = True
    while changed and len(cur["rounds"]) > 1:
        changed = False
        for k in range(len(cur["rounds"]) - 1, -1, -1):
            if attempt({**cur, "rounds": cur["rounds"][:k] + cur["rounds"][k + 1:]}):
                changed = True
                break
    items = _flat(cur)
    if items:
        def sub_case(sub):
            u = _unflat(cur, sub)
            return {**cur, "rounds": u["rounds"], "upd": u["upd"]}
        if len(items) >= 2:
            small = vlib.ddmin(items, lambda sub: fails(sub_case(sub)), budget=40)
            cur = sub_case(small)
        if len(_flat(cur)) == 1:
            attempt(sub_case([]))
    for k in range(len(cur["rounds"])):
        if cur["rounds"][k][1] is not None:
            cand = json.loads(json.dumps(cur))
            cand["rounds"][k][1] = None
            attempt(cand)
    if cur["upd"][1] is not None:
        attempt({**cur, "upd": [cur["upd"][0], None]})
    texts = [t for c, t in exec_handover(cur)["bad"] if c == cls]
    if not texts:
        return None
    return {"case": cur, "class": cls, "what": texts[0]}


def canon_handover(case) -> Any:
    c = canon_case({"rounds": case["rounds"], "upd": case["upd"]})
    return {**c, "inferred": case["inferred"], "place": case["place"], "rev": bool(case.get("rev")),
            "stale": len(case["stale"][0]), "more": [len(o) for o, _ in case["more"]], "after": [len(o) for o, _ in case["after"]]}


# ---------------------------------------------------------------------------- generation

def gen_case(rng, quick: bool) -> Dict[str, Any]:
    keys = rng.sample(KEY_POOL, rng.randint(3, 6))
    attr_keys = rng.sample(KEY_POOL, rng.randint(1, 3))
    nrounds = rng.choice([1, 2, 2, 3, 3, 4])
    hist: List[Any] = []
    rounds = []
    for i in range(nrounds):
        n = rng.randint(0 if i else 1, 7 if quick else 10)
        ops = ih5lib.gen_history(rng, len(hist) + n, p_bnd=0.0, keys=keys, attr_keys=attr_keys, prefix=hist, values=VALUES,
                                 allow_copy=True, allow_self_copy=(rng.random() < 0.2))
        new = ops[len(hist):]
        hist = ops
        given = rng.choice(EXTS) if rng.random() < (0.6 if i == 0 else 0.3) else None
        rounds.append([new, given])
    n = rng.randint(0, 8 if quick else 12)
    ops = ih5lib.gen_history(rng, len(hist) + n, p_bnd=0.0, keys=keys, attr_keys=attr_keys, prefix=hist, values=VALUES,
                             allow_copy=False)
    upd = [[o for o in ops[len(hist):] if o[0] not in ("copy", "move", "bnd")], rng.choice(EXTS) if rng.random() < 0.25 else None]
    faults = []
    for i in range(nrounds):
        p = [rng.choice(FAULTS_PENDING)] if rng.random() < 0.3 else []
        c = rng.sample(FAULTS_COMMITTED, rng.choice([0, 1, 1, 2]))
        faults.append([p, c])
    stub_faults = [rng.choice(["double_commit", "commit_kw", "commit_ro", "discard"])] if rng.random() < 0.4 else []
    return {"rounds": rounds, "upd": upd, "faults": faults, "stub_faults": stub_faults}


def fixed_cases() -> List[Dict[str, Any]]:
    C = []
    # the shape of the repository's own test, with extensions given at the first commit
    C.append({"rounds": [[[["set", ["foo", "bar"], "i:1"]], {"e1": "hello"}], [[["set", ["foo", "baz"], "i:2"]], None]],
              "upd": [[["set", ["qux"], "i:3"]], None]})
    # delete / recreate below replaced groups, attributes on datasets and on the root
    C.append({"rounds": [[[["set", ["a", "x"], "i:1"], ["aset", ["a"], "k", "i:5"], ["aset", [], "m", "i:7"]], {"packer": {"name": "p"}}],
                         [[["del", ["a"]], ["set", ["a", "y"], "i:2"], ["aset", ["a", "y"], "k", "e:"]], None],
                         [[["set", ["a", "z"], "v:00"], ["adel", [], "m"]], None]],
              "upd": [[["del", ["a", "y"]], ["set", ["b"], "i:9"], ["aset", ["a"], "k2", "i:1"], ["grp", ["a", "y", "deep"]],
                       ["adel", ["a", "y"], "k"], ["set", ["a", "z"], "i:1"], ["del", ["nope"]]], None]})
    C.append({"rounds": [[[], {"e": 1}]], "upd": [[], None]})
    C.append({"rounds": [[[["grp", ["g"]]], None], [[], {"x": 1}], [[], None]], "upd": [[["del", ["g"]], ["set", ["g"], "i:1"]], {"y": 2}]})
    # every refused operation, in every state it can be issued in
    C.append({"rounds": [[[["set", ["a"], "i:1"]], {"e": 1}], [[["aset", [], "k", "i:2"]], None]],
              "upd": [[["set", ["b"], "i:3"]], None],
              "faults": [[list(FAULTS_PENDING), list(FAULTS_COMMITTED)], [list(FAULTS_PENDING), list(FAULTS_COMMITTED)]],
              "stub_faults": ["double_commit", "commit_kw", "commit_ro", "discard"]})
    return C


def to_model(case) -> Any:
    def rnd(r):
        ops, g = r
        return [ops, [] if g is None else [_exts_str(g)]]
    return [[rnd(r) for r in case["rounds"]], rnd(case["upd"])]


# ---------------------------------------------------------------------------- model <-> impl

def to_model_faults(case) -> Any:
    fl = case.get("faults") or [[[], []] for _ in case["rounds"]]
    return ["faults", [[ops, [] if g is None else [_exts_str(g)], p, c] for (ops, g), (p, c) in zip(case["rounds"], fl)]]


def compare_faults(case, mf, ob) -> List[Dict[str, Any]]:
    """Model: which of the issued operations take effect (none of them: all are refused)."""
    if ob["st"] != "ok":
        return []
    fl = case.get("faults") or [[[], []] for _ in case["rounds"]]
    want = []
    for i, (p, c) in enumerate(fl):
        for ph, names, flags in (("pending", p, mf[i][0]), ("committed", c, mf[i][1])):
            want += [(i, ph, n, f) for n, f in zip(names, flags) if n in FAULTS_MODELLED]
    got = [(f["round"], f["phase"], f["name"], f["flag"]) for f in ob.get("faults", [])
           if f["round"] != "stub" and f["name"] in FAULTS_MODELLED]
    return [] if want == got else [{"kind": "refused-ops", "model": want, "impl": got}]


def _un(x):
    """of_opt wrapper: [] -> None, [y] -> y."""
    return None if x == [] else x[0]


def _norm_rows(rows):
    return sorted([[r[0], r[1], int(r[2])] for r in rows], key=lambda r: r[0])


def _norm_view(v):
    return sorted(v, key=lambda e: e[0])


def _m_ub(u):
    rec, idx, pid, prev, has_hash, ext = u
    e = _un(ext)
    return {"rec": rec, "idx": int(idx), "pid": pid, "prev": _un(prev), "hash": has_hash == "T",
            "ext": None if e is None else {"stub": e[0] == "T", "id": e[1], "hash": e[2]}}


def _m_commit(c):
    mf, ub, disk, view = c
    mf, ub, disk = _un(mf), _un(ub), _un(disk)
    out = {"ub": None if ub is None else _m_ub(ub), "view": _norm_view(view),
           "disk": None if disk is None else _un(disk)}
    if mf is None:
        out["mf"] = None
    else:
        out["mf"] = {"uuid": mf[0], "ub": _m_ub(mf[1]), "skel": _norm_rows(mf[2]), "exts": mf[3]}
    return out


class Renamer:
    def __init__(self):
        self.names: Dict[str, str] = {}

    def __call__(self, x):
        if x is None:
            return None
        return self.names.setdefault(str(x), f"#{len(self.names)}")


def _link_rows_model(commits) -> List[Any]:
    rn = Renamer()
    rows = []
    for c in commits:
        u, m = c["ub"], c["mf"]
        rows.append([rn(u["rec"]), u["idx"], rn(u["pid"]), rn(u["prev"]), u["ext"]["stub"], rn(u["ext"]["id"]), rn(u["ext"]["hash"]),
                     rn(m["uuid"]), rn(m["ub"]["rec"]), m["ub"]["idx"], rn(m["ub"]["pid"]), rn(m["ub"]["prev"]), rn(c["disk"])])
    return rows


def _link_rows_impl(commits) -> List[Any]:
    rn = Renamer()
    sha2uuid = {c["mf"]["sha"]: c["mf"]["uuid"] for c in commits if c["mf"]}
    rows = []
    for c in commits:
        u, m = c["ub"], c["mf"]
        rows.append([rn(u["rec"]), u["idx"], rn(u["pid"]), rn(u["prev"]), u["ext"]["stub"], rn(u["ext"]["id"]),
                     rn(sha2uuid.get(u["ext"]["hash"], "unknown-digest:" + u["ext"]["hash"])),
                     rn(m["uuid"]), rn(m["ub"]["rec"]), m["ub"]["idx"], rn(m["ub"]["pid"]), rn(m["ub"]["prev"]), rn(m["uuid"])])
    return rows


def compare(case, m, ob) -> List[Dict[str, Any]]:
    """Disagreements between the model result and the observations of the code."""
    D: List[Dict[str, Any]] = []

    def diff(kind, model, impl, **kw):
        if model != impl:
            D.append({"kind": kind, "model": model, "impl": impl, **kw})
    if ob["st"] != "ok":
        return [{"kind": "impl-" + ob["st"], "what": ob.get("err", "")}]
    if m[0] != "ok":
        return [{"kind": "model-" + str(m[0])}]
    _, tr, real_conts, stub, sp, direct, grafted, exts_sp, exts_pinned = m
    mcommits = []
    for i, (c, r) in enumerate(zip(tr, ob["rounds"])):
        mc = _m_commit(_un(c))
        mcommits.append(mc)
        diff("view", mc["view"], r["view"], commit=i)
        diff("manifest-skeleton", mc["mf"]["skel"], r["mf"]["skel"] if r["mf"] else None, commit=i)
        diff("manifest-exts", mc["mf"]["exts"], _exts_str(r["mf"]["exts"]) if r["mf"] else None, commit=i)
    diff("rounds", len(tr), len(ob["rounds"]))
    diff("raw-containers", [_norm_view(c) for c in real_conts], ob["real_raw"])
    ms = _un(stub)
    mstub = _m_commit(ms[0])
    so = ob["stub"]
    diff("stub-raw", [_norm_view(c) for c in ms[1]], so["raw"])
    diff("stub-view", mstub["view"], so["view"])
    diff("stub-skeleton", mstub["mf"]["skel"], so["mf"]["skel"] if so["mf"] else None)
    diff("stub-can-merge", ms[2], "T" if so["merge"] == "merged" else "F")
    diff("stub-build-loop", ms[3], "T")
    msp = _un(sp)
    mspc = _m_commit(msp[0])
    po = ob["sp"]
    diff("patch-on-stub-raw", _norm_view(msp[1][-1]), po["raw"])
    diff("patch-on-stub-results", msp[3], po["results"])
    diff("patch-on-stub-view", mspc["view"], po["view"])
    diff("patch-on-stub-manifest-skeleton", mspc["mf"]["skel"], po["mf"]["skel"] if po["mf"] else None)
    diff("patch-on-stub-can-merge", msp[2], "T" if po["merge"] == "merged" else "F")
    diff("patch-on-stub-opens", msp[4][0], "ok")
    md = _un(direct)
    mdc = _m_commit(md[0])
    do = ob["direct"]
    diff("direct-raw", _norm_view(md[1][-1]), do["raw"])
    diff("direct-results", md[2], do["results"])
    diff("direct-view", mdc["view"], do["view"])
    diff("direct-manifest-skeleton", mdc["mf"]["skel"], do["mf"]["skel"] if do["mf"] else None)
    diff("direct-manifest-exts", mdc["mf"]["exts"], _exts_str(do["mf"]["exts"]) if do["mf"] else None)
    mg = _un(grafted)
    go = ob["grafted"]
    diff("grafted-opens", mg[1][0], "ok" if go["open"] == "ok" else "err")
    diff("grafted-equals-direct (C10_stub_patch_applies)", mg[2], "T")
    if go["open"] == "ok":
        diff("grafted-view", _m_commit(mg[0])["view"], go["view"])
        diff("grafted-chain-length", len(mg[1][1]), len(go["files"]))
    diff("exts-via-stub", _un(_un(exts_sp)), _exts_str(po["mf"]["exts"]) if po["mf"] else None,
         pinned_model=_un(_un(exts_pinned)))
    # linking structure of all identifiers and digests, renamed by first occurrence
    try:
        diff("id-links", _link_rows_model(mcommits + [mstub, mspc, mdc]),
             _link_rows_impl(ob["rounds"] + [so, po, do]))
    except (TypeError, KeyError) as e:
        D.append({"kind": "id-links", "what": f"incomplete observation: {e}"})
    return D


# ---------------------------------------------------------------------------- main

def run(ctx: vlib.Ctx):
    proof = ctx.check_proofs()
    cov = ctx.coverage
    cov["trusted_base"] = vlib.TRUSTED_COMMON + [
        "modelled, not verified: the overlay model of IH5 containers (validated by C01 against IH5Record and h5py), "
        "JSON text of the manifest (only parsed content, sha256 of the bytes and the uuid/digest links are compared), "
        "payload digests (hdf5_hashsum; C04), freshness of uuid1() (counter in the model), h5py value semantics beyond "
        "equality of encoded values",
    ]
    rng = ctx.rng
    cases = fixed_cases() + [gen_case(rng, ctx.quick) for _ in range(ctx.budget(220, 3200))]
    model = vlib.run_model("c10", [to_model(c) for c in cases])
    model_faults = vlib.run_model("c10", [to_model_faults(c) for c in cases])
    impl = vlib.pmap(w_exec, cases, chunksize=2)

    disagreements: List[Dict[str, Any]] = []
    hits: List[Tuple[int, str, str]] = []
    nontrivial = set()
    stats = {"commits": 0, "upd_ops": 0, "upd_ops_ok": 0, "stub_nodes": 0, "timeouts": 0, "errors": 0,
             "patch_index_differs_after_stub_patch": 0, "upd_with_exts": 0}
    kinds: Dict[str, int] = {}
    refused_kinds: Dict[str, int] = {}
    for ci, (case, m, ob) in enumerate(zip(cases, model, impl)):
        if ob["st"] == "timeout":
            stats["timeouts"] += 1
            continue
        if ob["st"] != "ok":
            stats["errors"] += 1
            found = oracle(case, ob)
            for cls, text in found:
                hits.append((ci, cls, text))
            if not found:
                disagreements.append({"kind": "impl-" + ob["st"], "case": ci, "what": ob.get("err"), "tb": ob.get("tb")})
            continue
        for cls, text in oracle(case, ob):
            hits.append((ci, cls, text))
        for d in compare(case, m, ob) + compare_faults(case, model_faults[ci], ob):
            d["case"] = ci
            disagreements.append(d)
        for f in ob.get("faults", []):
            if not f["name"].endswith("(accepted)"):
                stats["refused_ops"] = stats.get("refused_ops", 0) + 1
                refused_kinds[f"{f['name']}/{f['phase']}"] = refused_kinds.get(f"{f['name']}/{f['phase']}", 0) + 1
        stats["commits"] += len(case["rounds"]) + 3
        stats["upd_ops"] += len(case["upd"][0])
        ok = sum(1 for r in ob["sp"]["results"] if r == "T")
        stats["upd_ops_ok"] += ok
        stats["stub_nodes"] += len(ob["stub"]["skel"])
        stats["upd_with_exts"] += case["upd"][1] is not None
        for o in case["upd"][0]:
            kinds[o[0]] = kinds.get(o[0], 0) + 1
        for o in ob["rounds"] + [ob["stub"], ob["sp"], ob["direct"]]:
            if o["mf"] is not None:
                stats["manifests"] = stats.get("manifests", 0) + 1
                stats["manifests_listed_parent_first"] = stats.get("manifests_listed_parent_first", 0) + bool(o["mf"]["parent_first"])
        if index_observation(ob):
            stats["patch_index_differs_after_stub_patch"] += 1
        if ok >= 1 and len(case["rounds"]) >= 2 and len(ob["stub"]["skel"]) >= 2:
            nontrivial.add(vlib.signature(case))
    ctx.sample({"case": cases[1], "model_patch_on_stub": _un(model[1][4])[1][-1] if model[1][0] == "ok" else None})
    ctx.sample({"case": cases[len(fixed_cases())]})
    ctx.sample({"case": cases[-1]})

    # ---- negative control: an update that copies stored data is *not* existence-based; through the
    #      stub it transports placeholders, and the oracle must see the difference
    neg = []
    for _ in range(ctx.budget(8, 40)):
        k = rng.sample(KEY_POOL, 3)
        v = rng.choice([x for x in VALUES if x != PLACEHOLDER])
        neg.append({"rounds": [[[["set", [k[0], k[1]], v]], None]] + ([[[["aset", [k[0]], k[2], v]], None]] if rng.random() < 0.5 else []),
                    "upd": [[["copy", [k[0], k[1]], [k[2]]]], None]})
    nres = vlib.pmap(w_exec, neg, chunksize=1)
    neg_seen = sum(1 for c, ob in zip(neg, nres)
                   if ob["st"] == "ok" and any(cls == "different-result" for cls, _ in oracle(c, ob)))
    cov["negative_control"] = {"copy_updates_run": len(neg), "difference_seen_by_oracle": neg_seen}
    if neg_seen == 0:
        ctx.notes.append("negative control: no copy-through-stub update differed from the direct one (the oracle may be insensitive)")

    # ---- handed-over manifest (manifest_file=...), merge, further patches: the manifest clause on the code
    hcases = fixed_handover() + [gen_handover(rng, ctx.quick) for _ in range(ctx.budget(40, 400))]
    hres = vlib.pmap(w_exec_h, hcases, chunksize=1)
    hhits: Dict[str, List[int]] = {}
    hstats = {"cases": len(hcases), "timeouts": 0, "errors": 0, "merges_after_handover": 0, "stale_manifest_at_inferred_place": 0,
              "further_commits": 0, "commits_on_merged": 0, "inferred": _hist(c["inferred"] for c in hcases)}
    for hi, (hc, ho) in enumerate(zip(hcases, hres)):
        if ho["st"] == "timeout":
            hstats["timeouts"] += 1
            continue
        if ho["st"] != "ok":
            hstats["errors"] += 1
            if not ho["bad"]:
                disagreements.append({"kind": "impl-" + ho["st"] + " (handover)", "hcase": hi, "what": ho.get("err"), "tb": ho.get("tb")})
        hstats["merges_after_handover"] += bool(ho["did"].get("merge1"))
        hstats["stale_manifest_at_inferred_place"] += bool(ho["did"].get("stale_present"))
        hstats["further_commits"] += ho["did"].get("more", 0)
        hstats["commits_on_merged"] += ho["did"].get("after", 0)
        for cls in sorted({c for c, _ in ho["bad"]}):
            hhits.setdefault(cls, []).append(hi)
    cov["handover"] = {**hstats, "hits_by_class": {c: len(v) for c, v in hhits.items()}}
    hpicked = []
    for cls in sorted(hhits):
        hsmall = sorted(hhits[cls], key=lambda hi: len(_flat(hcases[hi])) + 3 * len(hcases[hi]["more"]) + 3 * len(hcases[hi]["after"]))[:2]
        hpicked += [(hcases[hi], cls) for hi in hsmall]
    hshrunk = vlib.pmap(w_shrink_h, hpicked, chunksize=1) if hpicked else []
    hseen = set()
    hper: Dict[str, int] = {}
    for (hc, cls), r in zip(hpicked, hshrunk):
        if r is None:
            ctx.notes.append(f"handover oracle hit [{cls}] did not reproduce when re-run alone; not reported")
            continue
        sig = {"class": cls, "handover": canon_handover(r["case"])}
        key = vlib.signature(sig)
        if key in hseen or hper.get(cls, 0) >= 1:
            continue
        hseen.add(key)
        hper[cls] = hper.get(cls, 0) + 1
        ctx.violation(f"[{cls}] {r['what']}  (handover case: {json.dumps(r['case'])[:400]})",
                      {"kind": "handover", "class": cls, "case": r["case"], "canonical": sig}, sig_obj=sig)

    # ---- oracle hits: a few per class, shrink in parallel, report distinct minimal ones
    by_cls: Dict[str, List[int]] = {}
    for ci, cls, _t in hits:
        by_cls.setdefault(cls, [])
        if ci not in by_cls[cls]:
            by_cls[cls].append(ci)
    picked = []
    for cls in sorted(by_cls):
        small_first = sorted(by_cls[cls], key=lambda ci: len(_flat(cases[ci])))[:3]
        picked += [(cases[ci], cls) for ci in small_first]
    shrunk = vlib.pmap(w_shrink, picked, chunksize=1) if picked else []
    seen = set()
    unconfirmed = 0
    per_class: Dict[str, int] = {}
    for (case, cls), r in zip(picked, shrunk):
        if r is None:
            unconfirmed += 1
            continue
        sig = {"class": cls, "case": canon_case(r["case"])}
        key = vlib.signature(sig)
        if key in seen:
            continue
        seen.add(key)
        per_class[cls] = per_class.get(cls, 0) + 1
        if per_class[cls] > 2:
            continue
        ctx.violation(f"[{cls}] {r['what']}  (case: {json.dumps(r['case'])[:400]})",
                      {"kind": "case", "class": cls, "case": r["case"], "canonical": sig}, sig_obj=sig)
    if unconfirmed:
        ctx.notes.append(f"{unconfirmed} oracle hit(s) did not reproduce when re-run alone; not reported")
    cov["oracle_hits_by_class"] = {c: len(v) for c, v in by_cls.items()}

    mcases = [to_model(c) for c in cases]
    xc = vlib.coq_crosscheck("c10", mcases, model, "c10", max_cases=ctx.budget(6, 24))
    cov["evaluations"] = len(cases)
    cov["distinct_nontrivial"] = len(nontrivial)
    cov["rule"] = ("fixed shapes + random cases: 1-4 commits of shadow-tree-biased operations (create/delete/attributes/copy/move and a "
                   "malformed stream) over a per-case key alphabet from printable ASCII, manifest extensions given at random commits; "
                   "then an existence-based update (create_group, create_dataset, delete, attribute set / delete, malformed ones) of 0-12 "
                   "operations continuing the same shadow tree, with or without own extensions; operations that must be refused (second commit, "
                   "commit with an unknown keyword / through a read-only handle, create_patch while a container is writable, discard "
                   "with nothing pending, create_stub onto an existing target / from a missing manifest) issued before and after random "
                   "commits and on the stub, the manifest invariant + reopen + unchanged files evaluated after each; non-trivial = distinct case with >= 2 real "
                   "containers, >= 2 skeleton entries and >= 1 successful update operation; in addition (cov['handover'], code-side oracle) "
                   "histories + stub-made update where the patch's manifest is handed over via manifest_file= from another name / directory "
                   "with nothing / a stale manifest / a copy at the name-inferred place, then merge, 0-2 further commits + merge, 0-2 commits "
                   "on the merged record + merge")
    cov["input_distribution"] = {**stats, "cases": len(cases), "update_op_kinds": kinds, "refused_op_kinds": refused_kinds,
                                 "rounds_hist": _hist(len(c["rounds"]) for c in cases)}
    cov["coq_crosscheck"] = xc
    cov["disagreements"] = len(disagreements)
    cov["disagreement_kinds"] = _hist(d["kind"] for d in disagreements)
    if stats["patch_index_differs_after_stub_patch"]:
        ctx.notes.append(f"observation (not demanded by the property): in {stats['patch_index_differs_after_stub_patch']} cases the manifest of "
                         "the stub-made patch records the stub's patch index for nodes that the real record created in earlier patches "
                         "(paths, kinds and attribute names agree)")
    if stats.get("manifests", 0) != stats.get("manifests_listed_parent_first", 0):
        ctx.notes.append("some manifest lists a path before its parent: outside the hypothesis of C10_stub_build_eq "
                         "(the raw stub container is still compared with stub_of in every case)")
    if stats["timeouts"]:
        ctx.notes.append(f"{stats['timeouts']} case(s) timed out under load and were skipped")
    ctx.assumptions += ["keys from the IH5 alphabet (printable ASCII without '@' and '/'), '.' excluded",
                        "the deletion-marker value is not used as data (C17)",
                        "updates made through a stub are existence-based: no copy / move / reads of stored values (as in the property)",
                        "uuid1() values are fresh"]
    if not xc["ok"]:
        ctx.violation("extracted runner and in-Coq evaluation of the model disagree", {"kind": "crosscheck", **xc}, found_input=False)
    if not proof["ok"]:
        ctx.violation("proof obligations of Properties/C10.v do not check: " + "; ".join(proof["problems"])[:500],
                      {"kind": "proof", "theorem_file": "coq/Properties/C10.v", "problems": proof["problems"]}, found_input=False)
    if disagreements and not ctx.violations and not ctx.known_hits:
        d0 = disagreements[0]
        ctx.violation("model/implementation correspondence broken but the property oracle found no failing input: " + d0["kind"],
                      {"kind": "correspondence", "correspondence": "coq/IH5/Stub.v (run_c10) vs IH5MFRecord / create_stub / IH5Skeleton",
                       "first_disagreement": d0, "case_input": cases[d0["case"]] if "case" in d0 else None,
                       "count": len(disagreements)}, found_input=False)
    elif disagreements:
        ctx.notes.append(f"{len(disagreements)} model/impl disagreements, kinds: {cov['disagreement_kinds']}")


def _hist(it):
    h: Dict[str, int] = {}
    for x in it:
        h[str(x)] = h.get(str(x), 0) + 1
    return h


def replay(rep) -> int:
    vlib._pool_init()
    if rep.get("kind") == "handover":
        ho = exec_handover(rep["case"])
        same = [t for c, t in ho["bad"] if c == rep.get("class")]
        if ho["st"] != "ok" and not same:
            print("could not run the case:", ho.get("err") or ho["st"])
            return 1
        print("still failing:" if same else "no longer failing", same[:2] if same else "")
        return 1 if same else 0
    if rep.get("kind") != "case":
        print("replay names a proof obligation or correspondence; re-run the check itself")
        return 1
    ob = exec_case(rep["case"])
    if rep.get("class") == "observation-patch-index":
        t = index_observation(ob)
        print("observed:" if t else "not observed", t or "")
        return 1 if t else 0
    found = oracle(rep["case"], ob)
    same = [t for c, t in found if c == rep.get("class")]
    if ob["st"] != "ok" and not same:
        print("could not run the case:", ob.get("err") or ob["st"])
        return 1
    print("still failing:" if same else "no longer failing", same[:2] if same else "")
    return 1 if same else 0
