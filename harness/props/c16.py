"""C16 — plugin references order, match and resolve by semantic version.

Correspondence: exhaustive operator tables over a small reference domain, version tables
built through PluginGroup._add_ep and register_in_group in every registration order,
entry-point name codec, version-less class handles — real code vs. extracted Gallina model
(coq/Util/PluginRef.v).  Codec part additionally against coq/Util/EpName.v (the regular
expressions of plugin/types.py as terms + derivative matcher, literal from_ep_name/to_ep_name):
(name, version) pairs with valid and near-miss names and numerals up to CPython's conversion
limit, and arbitrary well- and malformed strings (acceptance by QUAL_NAME / SemVerStr / EPName,
decoded value or refusal, re-encoding of canonical names).  Oracle for the failing-input search: the order axioms, the
supports formula and "ascending, complete, newest compatible" evaluated on the code alone.
"""
from __future__ import annotations

import itertools
from typing import Any, Dict, List, Tuple

import gentie
import vlib

GROUPS = ["g", "h"]
NAMES = ["aa", "aa.bb"]
VNUM = [0, 2, 10]
OPS = ["eq", "ne", "ge", "le", "gt", "lt", "supports"]


def all_refs():
    return [(g, n, v) for g in GROUPS for n in NAMES for v in itertools.product(VNUM, repeat=3)]


# ---------------------------------------------------------------------------- impl side

def _mkref(r, flavour):
    from metador_core.schema.plugins import PluginRef
    g, n, v = r
    if flavour == 0:
        return PluginRef(group=g, name=n, version=tuple(v))
    cls = _mkref.sub.get(g)
    if cls is None:
        cls = _mkref.sub[g] = PluginRef._subclass_for(g)
    return cls(name=n, version=tuple(v))


_mkref.sub = {}


def impl_cmp_rows(rows: List[int]) -> List[Tuple[int, List[List[Any]]]]:
    """For each row index a: results against every b: [eq ne ge le gt lt supports hasheq inset]."""
    refs = all_refs()
    A = [_mkref(r, 0) for r in refs]
    B = [_mkref(r, 1) for r in refs]
    out = []
    for i in rows:
        a = A[i] if i % 2 == 0 else B[i]
        row = []
        for j in range(len(refs)):
            b = B[j] if (i + j) % 3 else A[j]
            row.append([
                bool(a == b), bool(a != b), bool(a >= b), bool(a <= b), bool(a > b), bool(a < b),
                bool(a.supports(b)), hash(a) == hash(b), (a in {b}),
            ])
        out.append((i, row))
    return out


def _bare_group():
    from metador_core.plugins import schemas
    PG = type(schemas)
    pg = object.__new__(PG)
    pg._ENTRY_POINTS, pg._VERSIONS, pg._LOADED_PLUGINS = {}, {}, {}
    return pg


def _ref_out(r) -> List[Any]:
    return [str(r.group), str(r.name), [str(x) for x in r.version]]


def _observe_group(pg, queries) -> List[Any]:
    keys = [_ref_out(r) for r in pg.keys() if str(r.name).startswith("vt.")]
    qs = []
    for q in queries:
        n, v = q[0], (tuple(q[1:]) if len(q) > 1 else None)
        vers = [_ref_out(r) for r in pg.versions(n, v)]
        res = pg.resolve(n, v)
        key = n if v is None else (n, v)
        qs.append([vers, [] if res is None else [_ref_out(res)], "T" if key in pg else "F"])
    return [keys, qs]


def impl_reg_addep(case) -> Any:
    """case = (regs, queries): run through PluginGroup._add_ep on a bare schema group."""
    from metador_core.plugin.types import to_ep_name
    regs, queries = case
    pg = _bare_group()
    for (n, a, b, c) in regs:
        pg._add_ep(to_ep_name(n, (a, b, c)), None)
    return _observe_group(pg, queries)


def impl_reg_manual(case) -> Any:
    """Same through register_in_group on the live schema group (names are unique per case)."""
    from metador_core.plugins import schemas
    from metador_core.plugin.util import register_in_group
    from metador_core.schema.core import MetadataSchema
    regs, queries = case
    for (n, a, b, c) in regs:
        class S(MetadataSchema):
            class Plugin:
                pass
        S.Plugin.name, S.Plugin.version = n, (a, b, c)
        register_in_group(schemas, S, violently=True)
    keys, qs = _observe_group(schemas, queries)
    names = {r[0] for r in regs}
    keys = [k for k in keys if k[1] in names]
    return [keys, qs]


def impl_epname(case) -> Any:
    from metador_core.plugin.types import EPName, from_ep_name, to_ep_name
    n, v = case
    ep = to_ep_name(n, tuple(v))
    EPName(ep)
    back = from_ep_name(ep)
    return [str(ep), [[str(back[0]), [str(x) for x in back[1]]]]]


def _wire(s: str) -> str:
    """Python str -> the byte string the model sees (UTF-8 bytes as latin-1 characters)."""
    return s.encode("utf-8").decode("latin-1")


def impl_epmk(case) -> Any:
    """case = (name, version): [to_ep_name result or refusal, from_ep_name of it]."""
    from metador_core.plugin.types import from_ep_name, to_ep_name
    n, v = case
    try:
        ep = to_ep_name(n, tuple(v))
    except TypeError:
        return [[], "refused"]
    if not isinstance(ep, str):
        return ["to_ep_name-returned-non-str"]
    try:
        back = from_ep_name(ep)
    except (TypeError, ValueError):
        return [[_wire(str(ep))], []]
    return [[_wire(str(ep))], [_back_out(back)]]


def _back_out(back) -> Any:
    n, v = back
    if not (isinstance(n, str) and isinstance(v, tuple) and len(v) == 3
            and all(type(x) is int for x in v)):
        return ["ill-typed", repr(back)[:80]]
    return [_wire(str(n)), [str(x) for x in v]]


def impl_epstr(s: str) -> Any:
    """[QUAL_NAME fullmatch, SemVerStr accepts, EPName accepts, from_ep_name result or refusal,
    to_ep_name(*from_ep_name(s)) == s (None when not applicable)]."""
    import re
    from metador_core.plugin import types as T

    def accepts(cls):
        try:
            cls(s)
            return True
        except TypeError:
            return False
    vq = re.fullmatch(T.QUAL_NAME, s) is not None
    vs, ve = accepts(T.SemVerStr), accepts(T.EPName)
    again = None
    try:
        back = T.from_ep_name(s)
    except (TypeError, ValueError):
        out = []
    else:
        out = [_back_out(back)]
        if ve:
            try:
                again = str(T.to_ep_name(*back)) == s
            except TypeError:
                again = "refused"
    return [vq, vs, ve, out, again]


def impl_subclass(case) -> Any:
    """case = (group, plugin name, versioned?) -> result of deriving a class from the handle."""
    from metador_core.plugins import plugingroups
    from metador_core.plugin.metaclass import UndefVersion
    gname, pname, versioned = case
    pg = plugingroups[gname]
    ref = pg.resolve(pname)
    base = pg.get(pname, ref.version) if versioned else pg.get(pname)
    if UndefVersion._is_marked(base) == versioned:
        return ["handle-marking-wrong"]
    try:
        cls = type("VtSub", (base,), {"__module__": __name__})
    except TypeError:
        return []
    return ["T" if UndefVersion._is_marked(cls) else "F"]


def list_plugins(_=None):
    from metador_core.plugins import plugingroups
    out = []
    for g in plugingroups.keys():
        if g.name == "plugingroup":
            continue
        for k in plugingroups[g.name].keys():
            if not str(k.name).startswith("vt."):
                out.append((str(g.name), str(k.name)))
    return sorted(set(out))


def _guard(fn, arg):
    try:
        with vlib.time_limit(60):
            return ("ok", fn(arg))
    except Exception as e:  # noqa: BLE001
        return ("exc", f"{type(e).__name__}: {e}"[:300])


def w_addep(c):
    return _guard(impl_reg_addep, c)


def w_manual(c):
    return _guard(impl_reg_manual, c)


def w_epname(c):
    return _guard(impl_epname, c)


def w_subclass(c):
    return _guard(impl_subclass, c)


def w_epmk(c):
    return _guard(impl_epmk, c)


def w_epstr(c):
    return _guard(impl_epstr, c)


# ---------------------------------------------------------------------------- oracles (code only)

def key_of(r):
    return (r[0], r[1], tuple(r[2]))


def oracle_cmp(refs, M) -> List[Dict[str, Any]]:
    """Order axioms evaluated on the implementation's own operator tables."""
    bad = []
    n = len(refs)
    EQ, NE, GE, LE, GT, LT, SUP, HEQ, INS = range(9)

    def add(law, *idx):
        bad.append({"law": law, "refs": [refs[i] for i in idx]})

    for i in range(n):
        r = M[i][i]
        if not (r[EQ] and r[GE] and r[LE] and not r[LT] and not r[GT] and not r[NE]):
            add("reflexivity (a==a, a>=a, a<=a, not a<a, not a>a)", i)
    for i in range(n):
        for j in range(n):
            a, b = M[i][j], M[j][i]
            same = key_of(refs[i]) == key_of(refs[j])
            if a[EQ] != same:
                add("equality is equality of (group,name,version)", i, j)
            if a[GE] and b[GE] and not a[EQ]:
                add("antisymmetry", i, j)
            if not (a[GE] or b[GE]):
                add("totality", i, j)
            if a[LE] != b[GE] or a[GT] != b[LT] or a[LT] != (not a[GE]) or a[NE] != (not a[EQ]):
                add("derived operators consistent", i, j)
            if a[GE] != (key_of(refs[i]) >= key_of(refs[j])):
                add("order is lexicographic on (group,name,version)", i, j)
            if a[EQ] and not (a[HEQ] and a[INS]):
                add("equal refs hash equally / set membership", i, j)
            if (not a[EQ]) and a[INS]:
                add("set membership of unequal refs", i, j)
            (g1, n1, v1), (g2, n2, v2) = refs[i], refs[j]
            sup = g1 == g2 and n1 == n2 and v1[0] == v2[0] and v1[1] >= v2[1]
            if a[SUP] != sup:
                add("supports = same group, name, major and minor not smaller", i, j)
            if len(bad) > 50:
                return bad
    return bad


def oracle_cmp_trans(refs, M, rng, samples) -> List[Dict[str, Any]]:
    n = len(refs)
    bad = []
    for _ in range(samples):
        i, j, k = rng.randrange(n), rng.randrange(n), rng.randrange(n)
        if M[i][j][2] and M[j][k][2] and not M[i][k][2]:
            bad.append({"law": "transitivity", "refs": [refs[i], refs[j], refs[k]]})
            if len(bad) > 5:
                break
    return bad


def oracle_reg(case, obs) -> List[str]:
    """ascending + complete + newest-compatible, from the registered list alone."""
    regs, queries = case
    g = "schema"
    problems = []
    keys, qs = obs
    for q, (vers, res, cont) in zip(queries, qs):
        n, v = q[0], (tuple(q[1:]) if len(q) > 1 else None)
        cand = sorted((a, b, c) for (m, a, b, c) in regs if m == n)
        if v is not None:
            cand = [x for x in cand if x[0] == v[0] and x[1] >= v[1]]
        exp = [[g, n, [str(x) for x in c]] for c in cand]
        if vers != exp:
            problems.append(f"versions({n},{v}) = {vers}, expected ascending complete {exp}")
        expres = [exp[-1]] if exp else []
        if res != expres:
            problems.append(f"resolve({n},{v}) = {res}, expected newest compatible {expres}")
        expcont = any(m == n for (m, *_x) in regs) if v is None else any((m, a, b, c) == (n, *v) for (m, a, b, c) in regs)
        if (cont == "T") != expcont:
            problems.append(f"({n},{v}) in group = {cont}, expected {expcont}")
    expkeys = sorted({(m, a, b, c) for (m, a, b, c) in regs})
    if sorted((k[1], *map(int, k[2])) for k in keys) != expkeys:
        problems.append(f"keys() = {keys}, expected exactly the registered {expkeys}")
    return problems


# ---------------------------------------------------------------------------- case generation

def gen_reg_cases(ctx) -> List[Tuple[list, list]]:
    """Every registration order of every subset (size<=4 quick / <=5 thorough) of a version pool,
    plus two-name mixes."""
    pool = [(1, 0, 0), (1, 2, 0), (1, 2, 3), (2, 0, 0), (10, 0, 0), (1, 10, 0)]
    cases = []
    maxk = ctx.budget(3, 4)
    cid = 0
    for k in range(1, maxk + 1):
        for sub in itertools.combinations(pool, k):
            for perm in itertools.permutations(sub):
                cid += 1
                n = f"vt.c{cid}"
                regs = [(n, *v) for v in perm]
                queries = [[n], [n, 1, 0, 0], [n, 1, 1, 0], [n, 1, 2, 9], [n, 2, 0, 0], [n, 3, 0, 0],
                           [n, 10, 0, 1], [n, 1, 10, 0], ["vt.absent"]]
                cases.append((regs, queries))
    # two names interleaved
    for _ in range(ctx.budget(40, 300)):
        cid += 1
        n1, n2 = f"vt.c{cid}", f"vt.c{cid}-b"
        vs1 = ctx.rng.sample(pool, ctx.rng.randint(1, 4))
        vs2 = ctx.rng.sample(pool, ctx.rng.randint(1, 4))
        regs = [(n1, *v) for v in vs1] + [(n2, *v) for v in vs2]
        ctx.rng.shuffle(regs)
        queries = [[n1], [n2], [n1, 1, 1, 0], [n2, 1, 1, 0], [n1, 2, 0, 0], [n2, 10, 0, 0]]
        cases.append((regs, queries))
    return cases


def gen_names(ctx, n) -> List[str]:
    rng = ctx.rng
    out = ["aa", "a0", "aa.bb", "a1_b.cc-d", "x1_2-3.yy", "core.file", "ab.cd.ef"]
    letters = "abcxyz"
    alnum = "abcxyz0189"
    while len(out) < n:
        parts = []
        for _ in range(rng.randint(1, 3)):
            s = rng.choice(letters) + rng.choice(alnum)
            for _ in range(rng.randint(0, 4)):
                if rng.random() < 0.4:
                    s += rng.choice("_-")
                s += rng.choice(alnum)
            parts.append(s)
        out.append(".".join(parts))
    return out


def gen_versions(ctx, n) -> List[List[int]]:
    """Version triples: small, >= 10 in every position, >= 2**64, hundreds of digits."""
    rng = ctx.rng
    pool = [0, 1, 2, 7, 9, 10, 11, 19, 99, 100, 101, 1000, 2**31, 2**63, 2**64, 2**64 + 1, 10**30, 10**100 - 1]
    out = [[0, 0, 0], [10, 10, 10], [1, 2, 10], [1, 2, 19], [1, 2, 100], [2**64, 2**64, 2**64], [10, 0, 2**64]]
    while len(out) < n:
        v = []
        for _ in range(3):
            r = rng.random()
            if r < 0.55:
                v.append(rng.choice(pool))
            elif r < 0.9:
                v.append(rng.randrange(10 ** rng.randint(1, 40)))
            else:
                v.append(rng.randrange(10 ** rng.randint(41, 400)))
        out.append(v)
    return out


MUT_ALPHABET = ["a", "z", "b", "0", "9", "_", "-", ".", "__", "A", "Z", " ", "\n", "+", "/", "\u00e9", "\u0661", "1", "00"]


def gen_bad_names(ctx, names, n) -> List[str]:
    """Near misses of valid qualified names (most invalid; validity is decided by model and code)."""
    rng = ctx.rng
    out = ["", "a", "a.bb", "aa.b", "a_b", "ab_", "ab-", "ab__cd", "ab_-cd", "ab-_cd", "ab--cd", "AA", "aA", "1a",
           "a1", "aa.", ".aa", "aa..bb", "aa bb", "aa\n", "\naa", "aa__1.2.3", "_aa", "-aa", "aa._b", "aa.1b",
           "\u00e9\u00e9", "aa.\u00e9b", "a_", "ab_c_", "ab.cd_", "ab_.cd", "ab._cd", "ab___cd", "ab_c__d"]
    while len(out) < n:
        s = rng.choice(names)
        for _ in range(rng.randint(1, 2)):
            i = rng.randrange(len(s) + 1)
            op = rng.random()
            if op < 0.45:
                s = s[:i] + rng.choice(MUT_ALPHABET) + s[i:]
            elif op < 0.75 and s:
                i = min(i, len(s) - 1)
                s = s[:i] + rng.choice(MUT_ALPHABET) + s[i + 1:]
            elif s:
                i = min(i, len(s) - 1)
                s = s[:i] + s[i + 1:]
        out.append(s)
    return out


def gen_ep_strings(ctx, names, bad_names, n) -> List[str]:
    """Candidate entry-point name strings: canonical, with leading zeros, with wrong numbers of parts,
    empty parts, non-digits, several/odd separators, mutated."""
    rng = ctx.rng
    out = ["aa__1.2.3", "aa__01.002.3", "aa__00.0.0", "aa__0.0.0", "aa__1.2", "aa__1.2.3.4", "aa__1..3", "aa__.2.3",
           "aa__1.2.", "aa__1.2.3__", "aa__bb__1.2.3", "aa", "aa__", "__1.2.3", "AA__1.2.3", "a__1.2.3", "a_b__1.2.3",
           "aa___1.2.3", "aa____1.2.3", "aa_____1.2.3", "aa__1.2.x", "aa__ 1.2.3", "aa__1.2.3\n", "aa__+1.2.3",
           "aa__1_0.2.3", "aa__\u0661.2.3", "aa__-1.2.3", "aa__1.2.3 ", "", "x y__1.2.3", "aa_._1.2.3", "\u00e9__1.2.3",
           "aa_1.2.3", "aa__1.2.3_", "aa__1.2._3", "aa__1__2.3", "ab___1.2.3", "ab-__1.2.3", "aa.bb__10.20.30",
           "aa__1.2.10", "aa__1.2.19", "aa__1.2.010", "_", "__", "___", "____", "aa__1.2.3__4.5.6", "1.2.3", "__",
           "aa__" + "9" * 300 + ".0." + "1" + "0" * 200, "aa__0" + "9" * 100 + ".0.0"]
    vers = gen_versions(ctx, 60)
    while len(out) < n:
        r = rng.random()
        nm = rng.choice(names) if rng.random() < 0.8 else rng.choice(bad_names)
        v = rng.choice(vers)
        nums = [str(x) for x in v]
        if r < 0.25:
            s = nm + "__" + ".".join(nums)
        elif r < 0.40:
            k = rng.randrange(3)
            nums[k] = "0" * rng.randint(1, 3) + nums[k]
            s = nm + "__" + ".".join(nums)
        elif r < 0.55:
            parts = nums[:rng.choice([0, 1, 2])] if rng.random() < 0.5 else nums + [str(rng.randrange(20))]
            if rng.random() < 0.3 and parts:
                parts[rng.randrange(len(parts))] = ""
            s = nm + rng.choice(["__", "__", "_", "___", "____", "-_", ""]) + ".".join(parts)
        else:
            s = nm + "__" + ".".join(nums)
            for _ in range(rng.randint(1, 2)):
                i = rng.randrange(len(s) + 1)
                if rng.random() < 0.6:
                    s = s[:i] + rng.choice(MUT_ALPHABET) + s[i:]
                elif s:
                    i = min(i, len(s) - 1)
                    s = s[:i] + rng.choice(MUT_ALPHABET) + s[i + 1:]
        out.append(s)
    return out


def _canonical_numeral(t: str) -> bool:
    return t == "0" or (t != "" and t[0] != "0")


def oracle_epstr(s: str, got) -> List[str]:
    """Codec clause evaluated on the code alone, for one string s."""
    vq, vs, ve, out, again = got
    probs = []
    if out and out[0][0] == "ill-typed":
        probs.append(f"from_ep_name({s!r}) returned an ill-typed value {out[0][1]}")
        return probs
    if ve:
        # a string the code itself declares a valid entry-point name must decode ...
        if not out:
            probs.append(f"from_ep_name refuses the valid entry-point name {s!r}")
            return probs
        name, ver = out[0]
        head, _, tail = s.rpartition("__")
        nums = tail.split(".")
        # ... to exactly its name and the values of its three numerals
        if name != _wire(head) or ver != [str(int(t)) for t in nums]:
            probs.append(f"from_ep_name({s!r}) = {out[0]}, expected ({head!r}, {[int(t) for t in nums]})")
        elif all(_canonical_numeral(t) for t in nums) and again is not True:
            probs.append(f"to_ep_name(*from_ep_name({s!r})) does not give the canonical name back ({again})")
    return probs


# ---------------------------------------------------------------------------- main

def run(ctx: vlib.Ctx):
    proof = ctx.check_proofs()
    cov = ctx.coverage
    cov["trusted_base"] = vlib.TRUSTED_COMMON + [
        "modelled, not verified: CPython str/tuple comparison (ASCII strings, modelled as lexicographic code-point order), "
        "functools.total_ordering's derivations from __ge__/__eq__, dict insertion order, list.sort stability, pydantic field parsing of PluginRef",
        "modelled, not verified (codec): Python's re.fullmatch / phantom FullMatch on the four expressions of plugin/types.py "
        "(modelled as membership in the regular language, decided by a derivative matcher proved correct against the standard "
        "semantics, C16_fullmatch_spec), str.split(sep), int() and str() of non-negative integers (decimal, Coq's DecimalString), "
        "f-string concatenation; str compared as UTF-8 bytes",
    ]
    disagreements: List[Dict[str, Any]] = []
    evals = 0

    # ---- 1. operator tables, exhaustive over the reference domain
    refs = all_refs()
    n = len(refs)
    rows = vlib.pmap(impl_cmp_rows, [list(range(i, n, vlib.NPROC)) for i in range(vlib.NPROC)])
    M: List[Any] = [None] * n
    for part in rows:
        for i, row in part:
            M[i] = row
    cases = [["cmp", a[0], a[1], *a[2], b[0], b[1], *b[2]] for a in refs for b in refs]
    model = vlib.run_model("c16", cases)
    evals += len(cases)
    k = 0
    for i in range(n):
        for j in range(n):
            want = model[k]
            got = ["T" if x else "F" for x in M[i][j][:7]]
            if want != got and len(disagreements) < 20:
                disagreements.append({"kind": "cmp", "a": refs[i], "b": refs[j],
                                      "ops": OPS, "model": want, "impl": got})
            k += 1
    ctx.sample({"case": cases[n + 3], "model": model[n + 3]})
    xc = vlib.coq_crosscheck("c16", cases, model, "c16cmp", max_cases=40)

    cmp_bad = oracle_cmp(refs, M) + oracle_cmp_trans(refs, M, ctx.rng, ctx.budget(100000, 1000000))
    seen_laws = set()
    for b in cmp_bad:
        if b["law"] in seen_laws:
            continue
        seen_laws.add(b["law"])
        ctx.violation(f"PluginRef operators violate: {b['law']} on {b['refs']}",
                      {"kind": "cmp-law", **b}, sig_obj={"kind": "cmp-law", "law": b["law"]})

    # ---- 2. version tables in every registration order
    reg_cases = gen_reg_cases(ctx)
    mcases = [["reg", "schema", [list(r) for r in regs], qs] for regs, qs in reg_cases]
    mres = vlib.run_model("c16", mcases)
    evals += 2 * len(reg_cases)
    r_add = vlib.pmap(w_addep, reg_cases, chunksize=16)
    r_man = vlib.pmap(w_manual, reg_cases, chunksize=16)
    xc2 = vlib.coq_crosscheck("c16", mcases, mres, "c16reg", max_cases=30)
    ctx.sample({"case": mcases[7], "model": mres[7]})
    reported = set()
    for path, results in (("_add_ep", r_add), ("register_in_group", r_man)):
        for case, want, (st, got) in zip(reg_cases, mres, results):
            if st != "ok" or got != want:
                if len(disagreements) < 20:
                    disagreements.append({"kind": "reg", "via": path, "regs": case[0],
                                          "model": want, "impl": got})
            probs = [f"raised {got}"] if st != "ok" else oracle_reg(case, got)
            if probs and path not in reported:
                reported.add(path)
                fn = w_addep if path == "_add_ep" else w_manual

                def fails(regs, case=case, fn=fn):
                    # fresh unique names for the live group
                    ren = {}
                    for r in regs:
                        ren.setdefault(r[0], f"vt.s{abs(hash((tuple(regs), r[0]))) % 10**9}")
                    regs2 = [(ren[r[0]], *r[1:]) for r in regs]
                    qs2 = [[ren.get(q[0], q[0]), *q[1:]] for q in case[1] if q[0] in ren]
                    st2, got2 = vlib.pmap(fn, [(regs2, qs2)], procs=2)[0] if False else fn((regs2, qs2))
                    return st2 != "ok" or bool(oracle_reg((regs2, qs2), got2))
                small = vlib.ddmin(list(case[0]), fails, budget=40)
                ctx.violation(
                    f"version table via {path}: {probs[0]}",
                    {"kind": "reg", "via": path, "regs": small, "queries": case[1], "problems": probs[:3]},
                    sig_obj={"kind": "reg", "via": path, "n": len(small)})

    # ---- 3. entry-point name codec
    names = gen_names(ctx, ctx.budget(150, 1500))
    ep_cases = [(nm, [ctx.rng.choice([0, 1, 7, 10, 123]), ctx.rng.choice([0, 9, 10]), ctx.rng.choice([0, 5, 100])])
                for nm in names]
    m_ep = vlib.run_model("c16", [["epname", nm, *v] for nm, v in ep_cases])
    i_ep = vlib.pmap(w_epname, ep_cases, chunksize=64)
    evals += len(ep_cases)
    ep_reported = False
    for (nm, v), want, (st, got) in zip(ep_cases, m_ep, i_ep):
        if st != "ok" or got != want:
            if len(disagreements) < 20:
                disagreements.append({"kind": "epname", "name": nm, "ver": v, "model": want, "impl": got})
        ok = st == "ok" and got[1] == [[nm, [str(x) for x in v]]] and got[0] == f"{nm}__{v[0]}.{v[1]}.{v[2]}"
        if not ok and not ep_reported:
            ep_reported = True
            ctx.violation(f"entry-point name codec loses information for {nm!r} {v}: {got}",
                          {"kind": "epname", "name": nm, "ver": v, "impl": got},
                          sig_obj={"kind": "epname"})
    ctx.sample({"case": ["epname", ep_cases[3][0], *ep_cases[3][1]], "model": m_ep[3]})

    # ---- 3b. codec against the regular expressions of the source (coq/Util/EpName.v):
    #      (name, version) pairs with valid and near-miss names, long numerals; arbitrary strings
    bad_names = gen_bad_names(ctx, names, ctx.budget(250, 2000))
    big_vers = gen_versions(ctx, ctx.budget(80, 400))
    mk_cases = [(nm, ctx.rng.choice(big_vers)) for nm in names] + [(nm, ctx.rng.choice(big_vers)) for nm in bad_names]
    limit = _int_str_limit()
    if limit:
        mk_cases.append(("aa.bb", [10 ** (limit - 1) - 1, 0, 10 ** (limit - 1)]))   # longest numerals CPython converts
    n_valid_gen = len(names)
    m_mk = vlib.run_model("c16e", [["epmk", _wire(nm).encode("latin-1"), *v] for nm, v in mk_cases])
    i_mk = vlib.pmap(w_epmk, mk_cases, chunksize=64)
    evals += len(mk_cases)
    n_refused = 0
    for k, ((nm, v), want, (st, got)) in enumerate(zip(mk_cases, m_mk, i_mk)):
        exp_ep = f"{nm}__{v[0]}.{v[1]}.{v[2]}"
        if st == "ok" and got == [[], "refused"]:
            n_refused += 1
            got_cmp = [[], []]
        else:
            got_cmp = got
        want_cmp = want if want[0] else [[], []]
        if st != "ok" or got_cmp != want_cmp:
            if len(disagreements) < 20:
                disagreements.append({"kind": "epmk", "name": nm, "ver": [str(x) for x in v], "model": _short(want), "impl": _short(got)})
        # oracle: generated-valid names (and the boundary case) must round-trip exactly
        if k < n_valid_gen or k == len(mk_cases) - 1 and limit:
            ok = st == "ok" and got == [[_wire(exp_ep)], [[_wire(nm), [str(x) for x in v]]]]
            if not ok and not ep_reported:
                ep_reported = True
                ctx.violation(f"entry-point name codec loses information for {nm!r} {_short(v)}: {_short(got)}",
                              {"kind": "epname", "name": nm, "ver": v, "impl": _short(got)},
                              sig_obj={"kind": "epname"})
        elif st == "ok" and got[0]:
            # a name the code accepted although not generated as valid: still must round-trip
            if got != [[_wire(exp_ep)], [[_wire(nm), [str(x) for x in v]]]] and not ep_reported:
                ep_reported = True
                ctx.violation(f"entry-point name codec loses information for accepted name {nm!r} {_short(v)}: {_short(got)}",
                              {"kind": "epname", "name": nm, "ver": v, "impl": _short(got)},
                              sig_obj={"kind": "epname"})
    ctx.sample({"case": ["epmk", mk_cases[5][0], *mk_cases[5][1]], "model": m_mk[5]})

    ep_strings = gen_ep_strings(ctx, names, bad_names, ctx.budget(1500, 12000)) + names[:60] + bad_names[:120]
    st_cases = [["epstr", _wire(s).encode("latin-1")] for s in ep_strings]
    m_st = vlib.run_model("c16e", st_cases)
    i_st = vlib.pmap(w_epstr, ep_strings, chunksize=64)
    evals += len(ep_strings)
    str_reported = False
    n_accept = n_noncanon = n_decoded = 0
    for s_, want, (st, got) in zip(ep_strings, m_st, i_st):
        m_vq, m_vs, m_ve, m_canon, m_py, m_pr = want
        bad = st != "ok"
        if not bad:
            vq, vs, ve, out, again = got
            n_accept += ve
            n_decoded += bool(out)
            bad = ([_tf(vq), _tf(vs), _tf(ve)] != [m_vq, m_vs, m_ve] or out != m_py or m_py != m_pr
                   or (ve and again is not None and _tf(again is True) != m_canon))
            if ve and again is False:
                n_noncanon += 1
        if bad and len(disagreements) < 20:
            disagreements.append({"kind": "epstr", "string": s_, "model": _short(want), "impl": _short(got)})
        probs = [f"raised {got}"] if st != "ok" else oracle_epstr(s_, got)
        if probs and not str_reported:
            str_reported = True
            ctx.violation(f"entry-point name codec: {probs[0][:300]}",
                          {"kind": "epstr", "string": s_, "problems": [p[:300] for p in probs[:3]]},
                          sig_obj={"kind": "epstr"})
    ctx.sample({"case": ["epstr", ep_strings[1]], "model": m_st[1]})
    xc3 = vlib.coq_crosscheck("c16e", st_cases[:400] + [["epmk", nm, *v] for nm, v in mk_cases[:60] if nm.isascii()],
                              m_st[:400] + [m for (nm, v), m in zip(mk_cases[:60], m_mk) if nm.isascii()], "c16ep", max_cases=40)

    # ---- 4. version-less handles
    plugins = vlib.pmap(list_plugins, [None, None], procs=2)[0]
    sub_cases = [(g, p, v) for (g, p) in plugins for v in (True, False)]
    m_sub = vlib.run_model("c16", [["subclass", [c[2]]] for c in sub_cases])
    i_sub = vlib.pmap(w_subclass, sub_cases, procs=4)
    evals += len(sub_cases)
    for c, want, (st, got) in zip(sub_cases, m_sub, i_sub):
        if st != "ok" or got != want:
            disagreements.append({"kind": "subclass", "bases_versioned": c, "model": want, "impl": got})
        expect_refused = not c[2]
        if st != "ok" or (got == []) != expect_refused:
            ctx.violation(f"class derived from handle (group, plugin, versioned?)={c}: got {got}, expected "
                          f"{'TypeError' if expect_refused else 'a class'}",
                          {"kind": "subclass", "bases_versioned": c, "impl": got},
                          sig_obj={"kind": "subclass", "group": c[0], "versioned": c[2]})

    # ---- summary
    cov["evaluations"] = evals
    cov["distinct_nontrivial"] = (n * n - n) + len(reg_cases) + len(set(names))
    cov["rule"] = ("operator tables: all ordered pairs over 2 groups x 2 names x {0,2,10}^3 versions (non-trivial = a != b); "
                   "version tables: every registration order of every subset of a 6-version pool up to the tier's size, "
                   "through _add_ep and register_in_group (distinct = distinct order); name codec: generated valid qualified names")
    cov["exhaustive"] = True
    cov["input_distribution"] = {"refs": n, "ref_pairs": n * n, "reg_cases": len(reg_cases),
                                 "reg_sizes": _hist(len(c[0]) for c in reg_cases),
                                 "epnames": len(ep_cases), "subclass_cases": len(sub_cases)}
    cov["coq_crosscheck"] = {"cmp": xc, "reg": xc2, "codec": xc3}
    cov["codec"] = {"name_version_pairs": len(mk_cases), "of_which_refused_names": n_refused,
                    "strings": len(ep_strings), "accepted_as_EPName": n_accept, "decoded": n_decoded,
                    "noncanonical_EPNames_not_reproduced (leading zeros; observation, C16_epname_inverse)": n_noncanon,
                    "max_numeral_digits": max(len(str(x)) for _, v in mk_cases for x in v),
                    "int_max_str_digits": limit}
    cov["disagreements"] = len(disagreements)
    ctx.assumptions += ["strings are ASCII (codec part: any str, compared as UTF-8 bytes)",
                        "registered versions of one name are distinct",
                        f"version numerals have at most {limit or 'unbounded'} decimal digits (CPython's default int/str "
                        "conversion limit, sys.get_int_max_str_digits(); beyond it to_semver_str/from_semver_str raise "
                        "ValueError; the model's numerals are unbounded)"]

    if not xc["ok"] or not xc2["ok"] or not xc3["ok"]:
        ctx.violation("extracted runner and in-Coq evaluation of the model disagree (stale or wrong extraction)",
                      {"kind": "crosscheck", "cmp": xc, "reg": xc2, "codec": xc3}, found_input=False)
    if not proof["ok"]:
        ctx.violation("proof obligations of Properties/C16.v do not check: " + "; ".join(proof["problems"])[:500],
                      {"kind": "proof", "theorem_file": "coq/Properties/C16.v", "problems": proof["problems"]},
                      found_input=False)
    if disagreements and not ctx.violations and not ctx.known_hits:
        ctx.violation("model/implementation correspondence broken but the property oracle found no failing input",
                      {"kind": "correspondence", "correspondence": "coq/Util/PluginRef.v run_c16 vs metador_core.schema.plugins / plugin.interface",
                       "smallest_disagreement": disagreements[0], "count": len(disagreements)},
                      found_input=False)
    elif disagreements:
        ctx.notes.append(f"{len(disagreements)} model/impl disagreements (first: {disagreements[0]})")
    # generated tie: PluginRef.__eq__/__ge__/__hash__/supports and the entry-point name codec are
    # re-translated from the current source and proved equal to the model (coq/Gen/Equiv_*.v)
    gentie.report(ctx)


def _tf(b) -> str:
    return "T" if b else "F"


def _short(x, n=160):
    r = repr(x)
    return x if len(r) <= n else r[:n] + "..."


def _int_str_limit() -> int:
    import sys
    get = getattr(sys, "get_int_max_str_digits", None)
    return int(get()) if get else 0


def _hist(it):
    h: Dict[str, int] = {}
    for x in it:
        h[str(x)] = h.get(str(x), 0) + 1
    return h


def replay(rep) -> int:
    """Re-evaluate the recorded failing case on the current tree; exit 1 if it still fails."""
    vlib._pool_init()
    kind = rep.get("kind")
    if kind == "cmp-law":
        refs = [tuple([r[0], r[1], tuple(r[2])]) for r in rep["refs"]]
        objs = [_mkref(r, 0) for r in refs]
        a = objs[0]
        b = objs[1] if len(objs) > 1 else objs[0]
        c = objs[2] if len(objs) > 2 else b
        print("a>=a", a >= a, "a<a", a < a, "a>=b", a >= b, "b>=a", b >= a, "a==b", a == b, "b>=c", b >= c, "a>=c", a >= c)
        law = rep["law"]
        if law.startswith("reflex"):
            bad = not (a == a and bool(a >= a) and bool(a <= a) and not (a < a) and not (a > a))
        elif law == "transitivity":
            bad = bool(a >= b) and bool(b >= c) and not bool(a >= c)
        else:
            M = impl_cmp_rows(list(range(len(all_refs()))))
            M = [row for _, row in sorted(M)]
            bad = any(x["law"] == law for x in oracle_cmp(all_refs(), M))
        print("still failing" if bad else "no longer failing")
        return 1 if bad else 0
    if kind == "reg":
        fn = impl_reg_addep if rep["via"] == "_add_ep" else impl_reg_manual
        import time
        tag = f"vt.r{int(time.time()) % 100000}"
        ren = {}
        for r in rep["regs"]:
            ren.setdefault(r[0], tag + str(len(ren)))
        regs = [(ren[r[0]], *r[1:]) for r in rep["regs"]]
        qs = [[ren[q[0]], *q[1:]] for q in rep["queries"] if q[0] in ren]
        got = fn((regs, qs))
        probs = oracle_reg((regs, qs), got)
        print("\n".join(probs) if probs else "no longer failing")
        return 1 if probs else 0
    if kind == "epname":
        st, got = _guard(impl_epname, (rep["name"], rep["ver"]))
        print(st, got)
        ok = st == "ok" and got[1] == [[rep["name"], [str(x) for x in rep["ver"]]]]
        return 0 if ok else 1
    if kind == "epnoncanon":
        # observation (not reported by run): a string accepted as EPName that decode+encode does not reproduce
        st, got = _guard(impl_epstr, rep["string"])
        print(st, got)
        bad = st == "ok" and got[2] and got[4] is not True
        print("accepted as EPName but not reproduced" if bad else "refused or reproduced")
        return 1 if bad else 0
    if kind == "epstr":
        st, got = _guard(impl_epstr, rep["string"])
        print(st, got)
        probs = [f"raised {got}"] if st != "ok" else oracle_epstr(rep["string"], got)
        print("\n".join(probs) if probs else "no longer failing")
        return 1 if probs else 0
    if kind == "subclass":
        st, got = _guard(impl_subclass, rep["bases_versioned"])
        print(st, got)
        return 0 if st == "ok" and (got == []) == (not rep["bases_versioned"][2]) else 1
    print("replay names a proof obligation or correspondence; re-run the check itself")
    return 1
