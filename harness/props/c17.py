"""C17 — embedded file bytes and their file metadata are exact.

Theorems (coq/Properties/C17.v): wrapping is lossless and injective, exactly one byte string
wraps to the deletion marker and is refused loudly without a state change by every way of
assigning a value, stored size/hash are those of the source bytes, and any history of
value-preserving operations (copy, move, patch boundary, merge, reopen, unrelated writes)
keeps bytes and metadata of the followed node.

Correspondence: a byte-string corpus x short container histories, executed through the real
`pack_file` on real temporary files into a real `MetadorContainer` over all three drivers
(`h5py.File`, `IH5Record`, `IH5MFRecord`), against the extracted model (coq/IH5/Bytes.v):
result class of every step, class (Empty / opaque) and bytes of every node, `contentSize`,
`sha256`.  Oracle for the failing-input search (code alone, no model): labels (= source bytes)
flow along the operations the *code* accepted; every labelled node must read back exactly its
bytes, `contentSize == len`, `sha256 == hashlib.sha256`; an attempt to store the marker value
on an IH5 driver must raise and leave the raw dump of every container file unchanged.

How the source file is *presented* to `pack_file` is a further input dimension (PRESENTATIONS):
regular file as Path or str, absolute / relative / long-target symbolic link, chain of two links,
hard link, path with `..` components, path relative to the working directory, odd file name.
Every presentation designates an existing regular file with the given bytes, so the oracle is the
same for all of them; the model is given the byte content only (optional 4th element of "pack").

On a plain `h5py.File` there is no deletion marker: there the one-byte file `\\x7f` may either
be stored exactly or be refused loudly without a change; both satisfy the property.
"""
from __future__ import annotations

import hashlib
from typing import Any, Dict, List, Optional, Tuple

import vlib

MARK = b"\x7f"
DRIVERS = ["h5", "ih5", "mf"]
GROUPS = ["a", "b", "c"]
LEAVES = ["f", "g", "h", "x"]
TRANSPORT = {"copy", "move", "rcopy", "rmove", "gcopy", "gmove", "bnd", "reopen", "merge"}
# what h5py / IH5 / MetadorContainer raise to refuse an operation; anything else is class "E"
REFUSALS = (ValueError, KeyError, OSError, RuntimeError, TypeError)
# Every history first embeds an anchor file that is never touched again: deleting the last
# core.file object of a container empties (and removes) TOC groups, and re-creating them in a
# later patch runs into the overlay defect of C01 (virtual group over a deletion marker).
ANCHOR = ["pack", "zz/keep", b"k"]
# Not needed any more since the C01 repairs are in /repo (f5de2ec, 27d2913); set PRE = [list(ANCHOR)]
# to check a tree without them.
PRE: List[Any] = []


# ---------------------------------------------------------------------------- corpus

def corpus(rng, thorough: bool) -> List[Tuple[str, bytes]]:
    rb = lambda n: bytes(rng.getrandbits(8) for _ in range(n))  # noqa: E731
    C: List[Tuple[str, bytes]] = [
        ("empty", b""), ("one", b"a"), ("nul1", b"\x00"), ("nul2", b"\x00\x00"), ("nul64", b"\x00" * 64),
        ("trail-nul", b"ab\x00\x00"), ("trail-nul-long", b"payload" + b"\x00" * 100), ("lead-nul", b"\x00\x00ab"),
        ("mid-nul", b"a\x00b\x00c"), ("marker", MARK), ("marker-nul", MARK + b"\x00"), ("nul-marker", b"\x00" + MARK),
        ("marker2", MARK + MARK), ("marker-a", MARK + b"a"), ("subst", b"\x1a"), ("ff", b"\xff"), ("80", b"\x80"),
        ("high", bytes(range(128, 256))), ("all256", bytes(range(256))), ("all256-rev", bytes(range(255, -1, -1))),
        ("text", b"hello world\n"), ("digit", b"5"), ("space-end", b"abc  "), ("newline-end", b"abc\n\n"),
        ("utf8", "grüße ☃".encode()), ("len63", rb(63)), ("len64", rb(64)), ("len65", rb(65)),
        ("len4095", rb(4095)), ("len4096", rb(4096)), ("len4097", rb(4097)),
        ("len4096-nulend", rb(4090) + b"\x00" * 6), ("len70000", rb(70000)), ("len70000-nul", b"\x00" * 70000),
        ("len65535", rb(65535)), ("len65536", rb(65536)),
    ]
    for i in range(12 if not thorough else 60):
        n = rng.choice([1, 1, 2, 3, 7, 16, 100, 1000, rng.randint(1, 3000)])
        b = rb(n)
        if rng.random() < 0.4:
            b = b[: max(0, n - 2)] + b"\x00" * min(2, n)      # NUL tail
        if rng.random() < 0.2:
            b = MARK + b[1:] if n > 1 else b
        C.append((f"rnd{i}", b))
    if thorough:
        C += [("len69999", rb(69999)), ("len70001", rb(70001)), ("len131072", rb(131072))]
    return C


# ---------------------------------------------------------------------------- large payloads

BIG_TAGS = ["blk-a", "blk-b"]


def big_bytes(n: int, tag: str = "blk-a") -> bytes:
    """n bytes of generated content: a 4099-byte pseudo-random block (odd length, so that no
    power-of-two chunk boundary repeats the same content) repeated and cut."""
    block = b"".join(hashlib.sha256(f"{tag}:{i}".encode()).digest() for i in range(129))[:4099]
    return (block * (n // len(block) + 1))[:n]


def large_sizes(thorough: bool) -> List[int]:
    """Sizes around thresholds implementations like to use (buffer / mmap / chunk limits)."""
    M = 1 << 20
    sizes = [M - 1, M, M + 1, 3 * M + 17]
    if thorough:
        sizes += [2 * M, 4 * M, 8 * M + 1]
    return sizes


def large_histories(thorough: bool) -> List[List[Any]]:
    """Oracle-only cases (no model: the payloads would dominate the wire): every large file is
    packed once into one container, the container is reopened and everything read back;
    thorough adds the 128/256/512 KiB boundaries, each through a short transport history."""
    H = [[["pack", f"big/l{i}", big_bytes(n, BIG_TAGS[i % 2])] for i, n in enumerate(large_sizes(thorough))] + [["reopen"]]]
    if thorough:
        for k in (128, 256, 512):
            for dlt in (-1, 0, 1):
                b = big_bytes(k * 1024 + dlt, "blk-b")
                H.append([["pack", "f", b], ["bnd"], ["copy", "f", "a/g"], ["move", "f", "b/c/h"], ["merge"], ["reopen"]])
    return H


# ---------------------------------------------------------------------------- source presentations

PRESENTATIONS = ["plain", "str", "symlink-abs", "symlink-rel", "symlink-long", "symlink-chain", "symlink-dir",
                 "hardlink", "dotdot", "relcwd", "oddname"]
ODD_NAME = "s r c #%41 \u00e9~(1)'&;$.tar.gz"


def pres_of(op) -> str:
    return op[3] if op[0] == "pack" and len(op) > 3 else "plain"


def present(d, idx: int, bs: bytes, pres: str):
    """Create an existing regular file holding `bs` below directory `d` and return the argument
    that designates it to the embedding API in the way `pres` names.  Names are chosen such that
    no link target string has the length of the content (a size taken from the link itself
    must not pass by coincidence)."""
    import os

    def fresh_name(stem: str, avoid: int, prefix_len: int = 0) -> str:
        n = f"{stem}{idx}.bin"
        return n if prefix_len + len(n) != avoid else f"{stem}{idx}_.bin"
    if pres == "oddname":
        src = d / f"{idx}{ODD_NAME}"
        src.write_bytes(bs)
        return src
    if pres in ("symlink-rel", "symlink-dir"):
        sub = d / f"data{idx}"
        sub.mkdir()
        src = sub / fresh_name("src", len(bs), len(sub.name) + 1)
    elif pres == "symlink-long":
        sub = d / ("long-directory-name-" * 6 + str(idx))
        sub.mkdir()
        src = sub / fresh_name("src", len(bs), len(str(sub)) + 1)
    elif pres == "symlink-abs":
        src = d / fresh_name("src", len(bs), len(str(d)) + 1)
    else:
        src = d / f"src{idx}.bin"
    src.write_bytes(bs)
    if pres == "plain":
        return src
    if pres == "str":
        return str(src)
    if pres in ("symlink-abs", "symlink-long"):
        link = d / f"lnk{idx}.bin"
        os.symlink(str(src), link)
        return link
    if pres == "symlink-rel":
        link = d / f"lnk{idx}.bin"
        os.symlink(f"{src.parent.name}/{src.name}", link)           # relative to the link's directory
        return link
    if pres == "symlink-dir":                                        # the link is a directory on the way, not the last component
        link = d / f"dir{idx}"
        os.symlink(src.parent.name, link)
        return link / src.name
    if pres == "symlink-chain":
        l1 = d / fresh_name("hop", len(bs))
        os.symlink(src.name, l1)
        l2 = d / f"lnk{idx}.bin"
        os.symlink(str(l1) if len(str(l1)) != len(bs) else l1.name, l2)
        return l2
    if pres == "hardlink":
        link = d / f"hard{idx}.bin"
        os.link(src, link)
        return link
    if pres == "dotdot":
        sub = d / f"sub{idx}"
        sub.mkdir()
        return sub / ".." / sub.name / ".." / src.name
    if pres == "relcwd":
        return os.path.relpath(src, os.getcwd())
    raise RuntimeError(f"unknown presentation {pres}")


def presentation_histories(prng, pool: List[bytes], thorough: bool) -> List[List[Any]]:
    """Every presentation with several payloads (lengths around typical link-target lengths,
    empty, NUL-rich, page-sized, random), each packed twice (base container and a patch) and
    carried through copy / move / merge / reopen."""
    rb = lambda n: bytes(prng.getrandbits(8) for _ in range(n))  # noqa: E731
    H: List[List[Any]] = []
    for pi, pres in enumerate(PRESENTATIONS):
        fixed = [b"", b"x", b"ab\x00\x00", rb(prng.randint(5, 60)), rb(4096), rb(prng.randint(100, 3000))]
        picks = fixed if thorough else [fixed[(pi + j) % len(fixed)] for j in (0, 3)]
        picks = picks + [prng.choice(pool) for _ in range(4 if thorough else 1)]
        for j, b in enumerate(picks):
            if b == MARK:
                b = MARK + b"p"
            other = rb(prng.randint(1, 40))
            H.append([["pack", "f", b, pres], ["bnd"], ["pack", "a/g", other, PRESENTATIONS[(pi + j + 1) % len(PRESENTATIONS)]],
                      ["copy", "f", "b/h"], ["bnd"], ["move", "f", "c/x"], ["merge"], ["reopen"]])
    return H


def sprinkle(prng, ops: List[Any], p: float) -> List[Any]:
    """Give each pack step of a history a random presentation with probability p."""
    return [op + [prng.choice(PRESENTATIONS[1:])] if op[0] == "pack" and len(op) == 3 and prng.random() < p else op for op in ops]


# ---------------------------------------------------------------------------- histories
#
# Operations (impl side / model side):
#   ["pack", p, bs(, pres)]     pack_file(c, <file with bs, presented as pres>, target=p)     SPack
#   ["set", p, form, bs]        c[p] = value          form V: np.void, A0: 0-d V array, S: bytes
#   ["write", p, form, bs]      c[p][()] = value  (in place)                     SWrite (class V)
#   ["del", p] ["copy", s, d] ["move", s, d]
#   ["gcopy"|"gmove", g, q]     group copy/move (model: one SCopy/SMove per dataset below g, see group_pairs)
#   ["bnd"] ["reopen"] ["merge"]

def _join(a: str, b: str) -> str:
    return f"{a}/{b}" if a else b


def norm(op):
    """Receiver-relative copy/move -> the plain operation it designates under h5py semantics
    (source relative to the receiver group; destination absolute, relative to the receiver, or
    a group object under which the source's name is kept):
        ["rcopy"|"rmove", receiver, source_rel, dkind, dst]   dkind: abs | rel | grp"""
    if op[0] not in ("rcopy", "rmove"):
        return op
    _, recv, rel, dkind, dst = op
    s = _join(recv, rel)
    d = dst.lstrip("/") if dkind == "abs" else _join(recv, dst) if dkind == "rel" else _join(dst, rel.rsplit("/", 1)[-1])
    return ["copy" if op[0] == "rcopy" else "move", s, d]


def group_pairs(ops, driver: str) -> List[List[List[str]]]:
    """Per step: the (source, destination) dataset pairs a group copy/move stands for, i.e. the
    datasets below the group at that moment.  Computed with a minimal liveness shadow of the
    flat semantics (which names hold a dataset); only used to translate group operations into
    model operations and to know which paths to observe."""
    live: set = set()
    out: List[List[List[str]]] = []
    for op in map(norm, ops):
        k = op[0]
        pairs: List[List[str]] = []
        if k == "pack":
            if op[1] not in live and (op[2] != MARK or driver == "h5"):
                live.add(op[1])
        elif k == "set":
            if op[1] not in live and (op[3] != MARK or op[2] == "S" or driver == "h5"):
                live.add(op[1])
        elif k == "del":
            live.discard(op[1])
        elif k in ("copy", "move"):
            if op[1] in live and op[2] not in live:
                live.add(op[2])
                if k == "move":
                    live.discard(op[1])
        elif k in ("gcopy", "gmove"):
            pre = op[1] + "/"
            pairs = [[p, op[2] + "/" + p[len(pre):]] for p in sorted(live) if p.startswith(pre)]
            for s_, d_ in pairs:
                live.add(d_)
                if k == "gmove":
                    live.discard(s_)
        out.append(pairs)
    return out


def paths_of(ops) -> List[str]:
    out: List[str] = []
    gp = [a + b for a, b in zip(group_pairs(ops, "h5"), group_pairs(ops, "ih5"))]
    for op, pairs in zip(map(norm, ops), gp):
        k = op[0]
        ps = []
        if k in ("pack", "set", "write", "del", "xcreate", "xwrite"):
            ps = [op[1]]
        elif k in ("copy", "move"):
            ps = [op[1], op[2]]
        elif k in ("gcopy", "gmove"):
            ps = [x for pr in pairs for x in pr]
        for p in ps:
            if p not in out:
                out.append(p)
    return out


def templates(bs: bytes, other: bytes) -> List[List[Any]]:
    """Targeted shapes the property names: patches, copy, move, merge, reopen, either order."""
    T = [
        [["pack", "f", bs], ["reopen"], ["bnd"], ["copy", "f", "a/g"], ["move", "f", "b/c/h"], ["merge"], ["reopen"]],
        [["pack", "a/f", bs], ["bnd"], ["copy", "a/f", "b/g"], ["bnd"], ["move", "b/g", "c/a/h"], ["pack", "a/x", other],
         ["bnd"], ["gmove", "c", "q1"], ["reopen"], ["merge"], ["copy", "q1/a/h", "x"], ["reopen"]],
        [["pack", "a/f", bs], ["pack", "a/g", other], ["bnd"], ["gcopy", "a", "q1"],
         ["del", "a/g"], ["bnd"], ["gmove", "a", "q2"], ["merge"], ["move", "q2/f", "f"], ["bnd"],
         ["move", "f", "g"], ["move", "g", "f"], ["reopen"]],
        [["pack", "f", other], ["bnd"], ["del", "f"], ["pack", "f", bs], ["bnd"], ["move", "f", "g"], ["pack", "f", other],
         ["bnd"], ["del", "f"], ["merge"], ["copy", "g", "f"], ["bnd"], ["del", "g"], ["reopen"]],
        [["pack", "f", bs], ["pack", "f", other], ["copy", "f", "f"], ["copy", "nope", "g"],
         ["del", "nope"], ["copy", "f", "g"], ["copy", "f", "g"], ["merge"], ["merge"], ["bnd"], ["bnd"], ["del", "g"]],
        # same-named files with different contents at three levels; copies / moves issued on sub-groups
        [["pack", "data.bin", other], ["pack", "sub/data.bin", bs], ["pack", "sub/deep/data.bin", other + b"!"], ["pack", "oth/x", b"o"],
         ["bnd"], ["rcopy", "sub", "data.bin", "abs", "/backup.bin"], ["rcopy", "sub", "deep/data.bin", "rel", "copy2.bin"],
         ["rcopy", "sub/deep", "data.bin", "grp", "oth"], ["rcopy", "sub", "data.bin", "abs", "/oth/abs.bin"], ["bnd"],
         ["rcopy", "", "sub/data.bin", "grp", "sub/deep"], ["rmove", "sub", "data.bin", "abs", "/moved.bin"],
         ["rmove", "sub/deep", "data.bin", "rel", "renamed.bin"], ["rcopy", "sub", "deep/renamed.bin", "grp", ""],
         ["merge"], ["rcopy", "oth", "data.bin", "rel", "again.bin"], ["rmove", "", "data.bin", "rel", "sub/data.bin"], ["reopen"]],
        [["pack", "sub/deep/k", b"d"], ["pack", "sub/deep/data.bin", bs], ["pack", "sub/data.bin", other], ["pack", "data.bin", b"root twin"], ["bnd"],
         ["rcopy", "sub/deep", "data.bin", "abs", "/c1.bin"], ["rcopy", "sub", "deep/data.bin", "abs", "/sub/c2.bin"],
         ["rmove", "sub", "deep/data.bin", "rel", "deep/m.bin"], ["bnd"], ["rcopy", "sub/deep", "m.bin", "grp", "sub"],
         ["rcopy", "sub", "data.bin", "grp", "sub/deep"], ["rcopy", "sub/deep", "data.bin", "abs", "/sub/deep/again.bin"],
         ["merge"], ["rmove", "sub/deep", "data.bin", "abs", "/top.bin"], ["reopen"]],
    ]
    return T


def relative_form(rng, kind: str, s: str, d: str, live) -> List[Any]:
    """The same copy/move, spelled as a call on one of the groups above the source (or the
    root) with a source path relative to it and an absolute / relative / group-object
    destination, where the spelling exists."""
    segs = s.split("/")
    r = rng.random()
    if r < 0.35:
        return [kind, s, d]
    cut = rng.randrange(len(segs))                 # 0 = root receiver
    recv, rel = "/".join(segs[:cut]), "/".join(segs[cut:])
    forms = [["abs", "/" + d]]
    if not recv or d.startswith(recv + "/"):
        forms.append(["rel", d[len(recv) + 1:] if recv else d])
    dgrp, _, dname = d.rpartition("/")
    if kind == "copy" and dname == segs[-1] and (not dgrp or any(p.startswith(dgrp + "/") for p in live)):
        forms.append(["grp", dgrp])
        forms.append(["grp", dgrp])
    dkind, dst = rng.choice(forms)
    return ["r" + kind, recv, rel, dkind, dst]


def gen_history(rng, bs: bytes, pool: List[bytes], nops: int, with_marker: bool) -> List[Any]:
    """Random history around a tracked payload `bs`; a Python shadow of the flat semantics only
    biases generation towards accepted operations (it is not part of any comparison)."""
    live: Dict[str, bytes] = {}
    strs: set = set()      # nodes of string type (form S): not written in place with opaque values
    bare: set = set()      # nodes created without metadata (MetadorGroup.copy of such a dataset fails: no metadata directory)
    burned: set = set()
    tainted: set = set()   # targets of marker attempts: exist on plain HDF5 only, never reused
    qn = [0]
    ops: List[Any] = []

    def fresh():
        for _ in range(20):
            r = rng.random()
            leaf = rng.choice(LEAVES)
            gs = [g for g in GROUPS if g not in burned]
            if r < 0.3 or not gs:
                p = leaf
            elif r < 0.8:
                p = f"{rng.choice(gs)}/{leaf}"
            else:
                p = f"{rng.choice(gs)}/{rng.choice(GROUPS)}/{leaf}"
            if p not in live and p not in tainted:
                return p
        return None

    p0 = fresh()
    ops.append(["pack", p0, bs])
    if bs != MARK:
        live[p0] = bs
    else:
        tainted.add(p0)
    while len(ops) < nops:
        kind = rng.choices(
            ["pack", "copy", "move", "del", "gmove", "gcopy", "bnd", "reopen", "merge", "set", "write", "bad", "marker"],
            [10, 14, 14, 5, 6, 5, 14, 6, 6, 3, 3, 6, 8 if with_marker else 0])[0]
        ex = sorted(live)
        if kind == "pack":
            p = fresh()
            if p is None:
                continue
            b = rng.choice(pool)
            ops.append(["pack", p, b])
            if b != MARK:
                live[p] = b
            else:
                tainted.add(p)
        elif kind in ("copy", "move") and ex:
            s, d = rng.choice(ex), fresh()
            if d is None or (kind == "copy" and s in bare):
                continue
            if s in bare:
                bare.discard(s)
                bare.add(d)
            if s in strs:
                strs.add(d)
            ops.append(relative_form(rng, kind, s, d, live))
            live[d] = live[s]
            if kind == "move":
                del live[s]
        elif kind == "del" and len(ex) > 1:
            p = rng.choice(ex)
            ops.append(["del", p])
            del live[p]
        elif kind in ("gmove", "gcopy"):
            gs = sorted({p.split("/")[0] for p in ex if "/" in p})
            if not gs:
                continue
            g = rng.choice(gs)
            qn[0] += 1
            q = f"q{qn[0]}"
            pairs = [[p, q + p[len(g):]] for p in ex if p.startswith(g + "/")]
            ops.append([kind, g, q])
            for s, d in pairs:
                live[d] = live[s]
                if s in bare:
                    bare.add(d)
                if s in strs:
                    strs.add(d)
                if kind == "gmove":
                    del live[s]
                    bare.discard(s)
            if kind == "gmove":
                burned.add(g)    # re-creating a moved/deleted group is C01 territory
        elif kind in ("bnd", "reopen", "merge"):
            ops.append([kind])
        elif kind == "set":
            p = fresh()
            if p is None:
                continue
            form = rng.choice(["V", "V", "A0", "S"])
            b = rng.choice([b"a", b"xy", MARK + b"\x00", b"\x00", b"zz\x00"]) if form != "S" else rng.choice([MARK, b"abc", b"q"])
            ops.append(["set", p, form, b])
            live[p] = b
            bare.add(p)
            if form == "S":
                strs.add(p)
        elif kind == "write":
            cands = [p for p in ex if len(live[p]) >= 1 and p not in strs]
            if not cands:
                continue
            p = rng.choice(cands)
            n = len(live[p])
            b = bytes(rng.getrandbits(8) for _ in range(n))
            if b == MARK:
                b = b"m"
            ops.append(["write", p, "V", b])
            live[p] = b          # accepted only when the node is in the newest container
        elif kind == "bad":
            c = rng.randrange(5)
            if c == 0 and ex:
                ops.append(["pack", rng.choice(ex), rng.choice(pool)])
            elif c == 1 and len([p for p in ex if p not in bare]) >= 2:
                ops.append(["copy"] + rng.sample([p for p in ex if p not in bare], 2))
            elif c == 2:
                ops.append(["del", "nope"])
            elif c == 3 and len(ex) >= 2:
                ops.append(["move"] + rng.sample(ex, 2))
            elif c == 4:
                ops.append(["copy", "nope", "n2"])
        elif kind == "marker":
            c = rng.randrange(4)
            if c == 0:
                p = fresh()
                if p:
                    ops.append(["pack", p, MARK])
                    tainted.add(p)
            elif c == 1:
                p = fresh()
                if p:
                    ops.append(["set", p, rng.choice(["V", "A0"]), MARK])
                    tainted.add(p)
            else:
                ones = [p for p in ex if len(live[p]) == 1 and p not in strs]
                if ones:
                    ops.append(["write", rng.choice(ones), rng.choice(["V", "S", "A0"]), MARK])
                else:
                    p = fresh()
                    if p:
                        ops.append(["pack", p, rng.choice([b"a", b"\x00", b"\xff"])])
                        live[p] = ops[-1][2]
    return ops


def marker_histories() -> List[List[Any]]:
    """Every way a value is assigned, with the marker, in base and patch containers."""
    H = []
    for pre in ([], [["bnd"]], [["bnd"], ["merge"]]):
        H.append([["pack", "keep", b"k"]] + pre + [["pack", "a/f", MARK], ["pack", "a/f", b"ok"], ["pack", "g", MARK]])
        H.append([["pack", "keep", b"k"]] + pre + [["set", "a/f", "V", MARK], ["set", "g", "A0", MARK], ["set", "h", "S", MARK],
                                                    ["set", "x", "V", MARK + b"\x00"]])
        H.append([["pack", "a/f", b"a"], ["pack", "keep", b"k"]] + pre + [["write", "a/f", "V", b"b"]] * (0 if pre else 1)
                 + [["pack", "g", b"z"], ["write", "g", "V", MARK], ["write", "g", "S", MARK], ["write", "g", "A0", MARK],
                    ["write", "g", "V", b"y"], ["copy", "g", "h"], ["write", "h", "V", MARK]])
    return H


# ---- every public way to get a value stored, with every spelling h5py coerces to the marker
#
#   ["xcreate", p, how, form]      how: setitem | create | create-shape | create-dtype | create-dtype-shape | require
#   ["xwrite", p, key, form]       in-place assignment to the one-byte opaque dataset p; key: () | ...
#   ["xattr", p, name, how, form]  attribute of node p; how: setitem | create | create-dtype | modify
# Whether such an operation would store the marker is decided by h5py itself: the same call on
# a scratch in-memory plain HDF5 file (reference oracle), never by re-implementing the coercion.

FORMS = ["V", "A0", "A1", "S", "NB", "U8", "I", "BA", "MV", "V2", "REC", "LST", "A0u8", "A0S"]
XCREATE = ["setitem", "create", "create-shape", "create-dtype", "create-dtype-shape", "require"]
XWRITE = ["()", "..."]
XATTR = ["setitem", "create", "create-dtype", "modify"]
NO_DTYPE = {"setitem", "create", "modify"}       # the value alone decides what is stored


def _spell(form: str):
    import numpy as np
    return {
        "V": lambda: np.void(MARK), "A0": lambda: np.array(MARK, dtype="V1"), "A1": lambda: np.array([MARK], dtype="V1"),
        "S": lambda: MARK, "NB": lambda: np.bytes_(MARK), "U8": lambda: np.uint8(127), "I": lambda: 127,
        "BA": lambda: bytearray(MARK), "MV": lambda: memoryview(MARK), "V2": lambda: np.void(MARK + b"\x00"),
        "REC": lambda: np.array([(127,)], dtype=[("a", "u1")])[0], "LST": lambda: [MARK],
        "A0u8": lambda: np.array(127, dtype="u1"), "A0S": lambda: np.array(MARK, dtype="S1"),
    }[form]()


def _x_apply(root, op, target=None):
    """Perform an x-operation through the h5py-like API of `root` (container or plain file)."""
    k = op[0]
    if k == "xcreate":
        _, p, how, form = op
        v = _spell(form)
        if how == "setitem":
            root[p] = v
        elif how == "create":
            root.create_dataset(p, data=v)
        elif how == "create-shape":
            root.create_dataset(p, shape=(), data=v)
        elif how == "create-dtype":
            root.create_dataset(p, dtype="V1", data=v)
        elif how == "create-dtype-shape":
            root.create_dataset(p, shape=(), dtype="V1", data=v)
        elif how == "require":
            root.require_dataset(p, shape=(), dtype="V1", data=v)
    elif k == "xwrite":
        _, p, key, form = op
        root[p][() if key == "()" else Ellipsis] = _spell(form)
    elif k == "xattr":
        _, p, name, how, form = op
        at = root[p].attrs
        if how != "setitem" and not hasattr(at, "create" if how != "modify" else "modify"):
            raise NotImplementedError(how)
        v = _spell(form)
        if how == "setitem":
            at[name] = v
        elif how == "create":
            at.create(name, v)
        elif how == "create-dtype":
            at.create(name, v, shape=(), dtype="V1")
        elif how == "modify":
            at.modify(name, v)


_REF: Dict[Any, str] = {}


def ref_outcome(op) -> str:
    """MARK / other / exc: what plain h5py stores for this call (scratch file in memory)."""
    import h5py
    import numpy as np
    key = tuple(op)
    if key in _REF:
        return _REF[key]
    out = "other"
    with h5py.File(f"ref{len(_REF)}", "w", driver="core", backing_store=False) as f:
        p = op[1]
        if op[0] == "xwrite":
            f[p] = np.void(b"z")
        elif op[0] == "xattr":
            f[p] = np.void(b"z")
            if op[3] == "modify":
                f[p].attrs[op[2]] = np.void(b"q")
        try:
            _x_apply(f, op)
            got = f[p].attrs[op[2]] if op[0] == "xattr" else f[p][()]
            if isinstance(got, np.void) and got.tobytes() == MARK:
                out = "MARK"
        except Exception:  # noqa: BLE001
            out = "exc"
    _REF[key] = out
    return out


def x_via(op) -> str:
    """Root cause class of an accepted marker: spelled differently / explicit dtype or shape / in place."""
    if op[0] == "xwrite":
        return "write"
    how = op[2] if op[0] == "xcreate" else op[3]
    alone = ref_outcome(["xcreate", "probe", "setitem", op[-1]]) == "MARK"     # a marker whatever the target type
    return "set-A0" if how in NO_DTYPE or alone else "create-dtype"


def exotic_histories() -> List[List[Any]]:
    """All (entry point, spelling) pairs for which plain h5py stores the marker, in a base
    container, in a patch and in a merged record.  Judged by the oracle only (the model's values
    are byte strings, not numpy spellings)."""
    xs: List[Any] = []
    n = 0
    for form in FORMS:
        for how in XCREATE:
            n += 1
            xs.append(["xcreate", f"n{n}", how, form])
        for key in XWRITE:
            n += 1
            xs.append(["set", f"w{n}", "V", b"z"])
            xs.append(["xwrite", f"w{n}", key, form])
        for how in XATTR:
            n += 1
            if how == "modify":
                xs.append(["xattr0", "g", f"k{n}"])
            xs.append(["xattr", "g", f"k{n}", how, form])
    keep = []
    for i, op in enumerate(xs):
        if op[0] in ("set", "xattr0"):
            nxt = xs[i + 1]
            if ref_outcome(nxt) == "MARK":
                keep.append(op)
        elif ref_outcome(op) == "MARK":
            keep.append(op)
    # one history per root-cause class, so that each class is judged (the oracle stops at the first failure)
    groups: Dict[str, List[Any]] = {"set-A0": [], "create-dtype": [], "write": []}
    for i, op in enumerate(keep):
        if op[0] in ("set", "xattr0"):
            groups[x_via(keep[i + 1])].append(op)
        else:
            groups[x_via(op)].append(op)
    H = []
    for pre in ([], [["bnd"]], [["bnd"], ["merge"]]):
        for ops in groups.values():
            H.append([["pack", "keep", b"k"]] + pre + [["pack", "g", b"z"]] + ops + [["copy", "keep", "keep2"], ["bnd"]])
    return H


def form_table(cases, results) -> Dict[str, Any]:
    """Outcome of every marker-producing (entry point, spelling) pair on the IH5 drivers."""
    stored, refused, na = set(), set(), set()
    for (drv, ops), r in zip(cases, results):
        if drv == "h5":
            continue
        for op, st in zip(ops, r["steps"]):
            if op[0] in ("xcreate", "xwrite", "xattr") and ref_outcome(op) == "MARK":
                key = op[0] + ":" + "/".join(op[2:] if op[0] != "xattr" else op[3:])
                (stored if st[0] == "T" else na if st[0] == "N" else refused).add(key)
    return {"pairs": len(stored | refused | na), "refused": len(refused - stored), "not_offered_by_ih5": sorted(na),
            "stored": sorted(stored)}


# ---------------------------------------------------------------------------- model side

def model_ops(ops, driver: str) -> Tuple[List[Any], List[Tuple[int, int]]]:
    """Expanded model operations and, per impl step, the span (first, last) of its model
    operations ((-1, -1): no model operation, the step must be accepted)."""
    mops: List[Any] = []
    spans: List[Tuple[int, int]] = []
    for op, pairs in zip(map(norm, ops), group_pairs(ops, driver)):
        k = op[0]
        start = len(mops)
        if k == "pack":
            mops.append(["pack", op[1], op[2].hex()])
        elif k == "set":
            mops.append(["set", op[1], "S" if op[2] == "S" else "V", op[3].hex()])
        elif k == "write":
            mops.append(["write", op[1], "V", op[3].hex()])     # in-place assignment never changes the type
        elif k in ("del", "copy", "move"):
            mops.append(list(op))
        elif k in ("gcopy", "gmove"):
            for s, d in pairs:
                mops.append(["copy" if k == "gcopy" else "move", s, d])
        elif k in ("bnd", "reopen", "merge"):
            if driver != "h5":
                mops.append([k])
        spans.append((start, len(mops) - 1) if len(mops) > start else (-1, -1))
    return mops, spans


# ---------------------------------------------------------------------------- impl side

def _classify(v):
    import h5py
    import numpy as np
    if isinstance(v, h5py.Empty):
        return "E", b""
    if isinstance(v, np.void):
        return "V", v.tobytes()
    if isinstance(v, (bytes, np.bytes_)):
        return "S", bytes(v)
    return "?", repr(v)[:80].encode()


def _value(form: str, bs: bytes):
    import numpy as np
    if form == "V":
        return np.void(bs)
    if form == "A0":
        return np.array(bs, dtype=f"V{len(bs)}")
    return bs


def _raw_dump(files) -> List[Any]:
    """Content of every open container file: paths, kinds, values, attributes (TOC included)."""
    import h5py
    import ih5lib

    def short(v):
        e = ih5lib.enc(v)
        return e if len(e) < 200 else e[:8] + hashlib.sha1(e.encode()).hexdigest()
    dumps = []
    for f in files:
        out = []

        def attrs_of(node, name):
            for k in node.attrs.keys():
                out.append([name + "@" + k, short(node.attrs[k])])
        attrs_of(f, "/")

        def visit(name, node):
            if isinstance(node, h5py.Dataset):
                out.append([name, "D", short(node[()])])
            else:
                out.append([name, "G"])
            attrs_of(node, name)
        f.visititems(visit)
        out.sort(key=lambda e: e[0])
        dumps.append(out)
    return dumps


class _Run:
    def __init__(self, driver: str, d):
        self.driver, self.d, self.gen = driver, d, 0
        self.raw = self._open("w")
        self._wrap()

    def _name(self):
        return self.d / (f"p{self.gen}.h5" if self.driver == "h5" else f"rec{self.gen}")

    def _open(self, mode):
        import h5py
        from metador_core.ih5.container import IH5MFRecord, IH5Record
        if self.driver == "h5":
            return h5py.File(self._name(), mode)
        return (IH5Record if self.driver == "ih5" else IH5MFRecord)(self._name(), mode)

    def _wrap(self):
        from metador_core.container import MetadorContainer
        self.c = MetadorContainer(self.raw)

    def files(self):
        return [self.raw] if self.driver == "h5" else list(self.raw.__files__)

    def apply(self, op, idx):
        from metador_core.packer.utils import pack_file
        k, c = op[0], self.c
        if k == "pack":
            pack_file(c, present(self.d, idx, op[2], pres_of(op)), target=op[1])
        elif k == "set":
            c[op[1]] = _value(op[2], op[3])
        elif k == "write":
            c[op[1]][()] = _value(op[2], op[3])
        elif k in ("xcreate", "xwrite", "xattr"):
            _x_apply(c, op)
        elif k == "xattr0":
            import numpy as np
            c[op[1]].attrs[op[2]] = np.void(b"q")
        elif k == "del":
            del c[op[1]]
        elif k in ("rcopy", "rmove"):
            _, recv, rel, dkind, dst = op
            g = c[recv] if recv else c
            dest = dst if dkind != "grp" else (c[dst] if dst else c)
            (g.copy if k == "rcopy" else g.move)(rel, dest)
        elif k in ("copy", "gcopy"):
            c.copy(op[1], op[2])
        elif k in ("move", "gmove"):
            c.move(op[1], op[2])
        elif k == "bnd":
            if self.driver != "h5":
                self.raw.commit_patch()
                self.raw.create_patch()
        elif k == "reopen":
            c.close()
            self.raw = self._open("r+")
            self._wrap()
        elif k == "merge":
            if self.driver != "h5":
                self.raw.commit_patch()
                self.gen += 1
                try:
                    self.raw.merge_files(self._name())
                except Exception:
                    self.gen -= 1
                    self.raw.create_patch()
                    raise
                c.close()
                self.raw = self._open("r+")
                self._wrap()
        else:
            raise RuntimeError(f"unknown op {k}")

    def observe(self, paths) -> List[Any]:
        out = []
        for p in paths:
            try:
                n = self.c[p]
            except KeyError:
                out.append([])
                continue
            cls, b = _classify(n[()])
            m = n.meta.get("core.file")
            out.append([cls, b, [] if m is None else [int(m.contentSize), str(m.sha256)]])
        return out

    def close(self):
        try:
            self.c.close()
        except Exception:  # noqa: BLE001
            pass


def _is_marker_attempt(op, prev_obs: Dict[str, Any]) -> bool:
    k = op[0]
    if k == "pack":
        return op[2] == MARK
    if k == "set":
        return op[2] in ("V", "A0") and op[3] == MARK
    if k == "write":
        cur = prev_obs.get(op[1])
        return op[3] == MARK and bool(cur) and cur[0] == "V" and len(cur[1]) == 1
    if k in ("xcreate", "xattr"):
        return ref_outcome(op) == "MARK"
    if k == "xwrite":
        cur = prev_obs.get(op[1])
        return ref_outcome(op) == "MARK" and bool(cur) and cur[0] == "V" and len(cur[1]) == 1
    return False


def impl_run(case) -> Dict[str, Any]:
    """case = (driver, ops).  Per step: [res, obs, err, marker-info]; res T accepted, F refused
    (ValueError/KeyError), E other exception, X timeout / unusable."""
    driver, ops = case
    paths = paths_of(ops)
    xhist = any(op[0] == "xcreate" or op[0] == "xwrite" or op[0] == "xattr" for op in ops)
    steps: List[Any] = []
    with vlib.workdir("c17") as d:
        run = _Run(driver, d)
        prev: Dict[str, Any] = {}
        dead = None
        try:
            for i, op in enumerate(ops):
                if dead:
                    steps.append(["X", None, dead, None])
                    continue
                mk = None
                try:
                    with vlib.time_limit(90):
                        attempt = _is_marker_attempt(op, prev)
                        before = _raw_dump(run.files()) if attempt else None
                        err = ""
                        try:
                            run.apply(op, i)
                            res = "T"
                        except NotImplementedError as e:
                            res, err = "N", f"entry point not offered by this driver: {e}"
                        except REFUSALS as e:
                            res, err = "F", f"{type(e).__name__}: {e}"[:160]
                        except vlib.CaseTimeout:
                            raise
                        except Exception as e:  # noqa: BLE001
                            res, err = "E", f"{type(e).__name__}: {e}"[:160]
                        if xhist and op[0] in ("set", "xcreate", "xwrite", "xattr", "xattr0"):
                            # long marker-form histories: re-read only the node aimed at (everything is
                            # re-read at the copy / boundary steps that end such a history)
                            part = dict(prev)
                            part.update(zip([op[1]], run.observe([op[1]])) if op[1] in paths else [])
                            obs = [part.get(p, []) for p in paths]
                        else:
                            obs = run.observe(paths)
                        if attempt:
                            mk = {"raw_unchanged": _raw_dump(run.files()) == before}
                except vlib.CaseTimeout:
                    dead = "timeout"
                    steps.append(["X", None, dead, None])
                    continue
                except Exception as e:  # noqa: BLE001
                    dead = f"unusable after step: {type(e).__name__}: {e}"[:200]
                    steps.append(["X", None, dead, None])
                    continue
                prev = dict(zip(paths, obs))
                steps.append([res, obs, err, mk])
        finally:
            run.close()
    return {"paths": paths, "steps": steps}


def w_impl(case):
    try:
        return impl_run(case)
    except Exception as e:  # noqa: BLE001
        return {"paths": paths_of(case[1]), "steps": [["X", None, f"harness: {type(e).__name__}: {e}"[:200], None]] * len(case[1])}


# ---------------------------------------------------------------------------- oracle (code only)

def oracle(case, result) -> Optional[Dict[str, Any]]:
    """First step at which the property fails, judged on the code's own behaviour."""
    driver, ops = case
    paths = result["paths"]
    labels: Dict[str, Tuple[bytes, bool, str]] = {}       # path -> (bytes, metadata expected exact?, class)
    prev: Dict[str, Any] = {}
    for i, (op, st) in enumerate(zip(map(norm, ops), result["steps"])):
        res, obs, err, mk = st
        if res == "X":
            if err == "timeout":
                return None        # CPU contention is not a property violation; the case is re-run alone by the caller
            return {"step": i, "kind": "unusable", "what": f"container unusable: {err}"}
        k = op[0]
        attempt = _is_marker_attempt(op, prev) and res != "N"
        if attempt:
            if driver != "h5" and res == "T":
                node = dict(zip(paths, obs)).get(op[1])
                via = x_via(op) if k[0] == "x" else (k if k != "set" else f"set-{op[2]}")
                how = "pack_file" if k == "pack" else "/".join(str(x) for x in op[2:] if not isinstance(x, bytes))
                return {"step": i, "kind": "marker-stored", "via": via,
                        "what": f"the deletion marker value was accepted by {k} ({how}) on {driver} "
                                f"instead of being rejected; " + ("the attribute is gone" if k == "xattr" else
                                                                  f"the node now reads {'ABSENT' if not node else node[:2]}")}
            if res != "T" and mk and not mk["raw_unchanged"]:
                return {"step": i, "kind": "marker-refusal-changed-state", "via": k,
                        "what": f"{k} of the marker value raised ({err}) but the raw content of the container files changed"}
            if res == "E" and driver != "h5":
                return {"step": i, "kind": "marker-odd-exception", "via": k, "what": f"{k} of the marker value raised {err}"}
        if res == "T":
            if k == "pack":
                labels[op[1]] = (op[2], True, "E" if not op[2] else "V", pres_of(op))
            elif k == "set":
                labels[op[1]] = (op[3], False, "S" if op[2] == "S" else "V", None)
            elif k == "write":
                old = labels.get(op[1])
                was = prev.get(op[1])
                if was and len(was[1]) == len(op[3]):
                    labels[op[1]] = (op[3], False, old[2] if old else "V", None)
                else:
                    labels.pop(op[1], None)     # h5py pads/truncates to the dataset's size: outside the property
            elif k in ("del", "xwrite", "xcreate"):
                labels.pop(op[1], None)     # x-operations: the stored value is h5py's business, nothing is claimed
            elif k == "copy":
                if op[1] in labels:
                    labels[op[2]] = labels[op[1]]
            elif k == "move":
                if op[1] in labels:
                    labels[op[2]] = labels.pop(op[1])
            elif k in ("gcopy", "gmove"):
                pre = op[1] + "/"
                for p in [p for p in labels if p.startswith(pre)]:
                    labels[op[2] + "/" + p[len(pre):]] = labels[p] if k == "gcopy" else labels.pop(p)
        elif res == "E":
            # an operation meant to remove nodes died half-way: nothing is claimed about them any more
            if k in ("del", "move"):
                labels.pop(op[1], None)
            elif k == "gmove":
                for p in [p for p in labels if p.startswith(op[1] + "/")]:
                    labels.pop(p)
        cur = dict(zip(paths, obs))
        for p, (bs, meta, cls, pres) in labels.items():
            src = "" if pres in (None, "plain") else f" (source presented as {pres})"
            via = None if pres in (None, "plain") else "pack-" + pres.split("-")[0]
            o = cur.get(p)
            if o is None:
                continue           # not observed (cannot happen: paths cover every label)
            if not o:
                return {"step": i, "kind": "lost", "what": f"node {p} holding {len(bs)} bytes is gone after {k}{src}"}
            if o[1] != bs or (o[0] == "E") != (len(bs) == 0) or o[0] not in ("E", "V", "S"):
                return {"step": i, "kind": "bytes", "via": via, "presentation": pres,
                        "what": f"node {p} reads back {o[0]}:{_show(o[1])} instead of {_show(bs)} after {k}{src}"}
            if meta:
                if not o[2]:
                    return {"step": i, "kind": "meta-missing", "what": f"core.file metadata of {p} is gone after {k}{src}"}
                if o[2][0] != len(bs) or o[2][1] != hashlib.sha256(bs).hexdigest():
                    return {"step": i, "kind": "meta", "via": via, "presentation": pres,
                            "what": f"core.file of {p}: contentSize={o[2][0]} sha256={o[2][1][:16]}.. "
                                    f"but the bytes have len={len(bs)} sha256={hashlib.sha256(bs).hexdigest()[:16]}..{src}"}
        prev = cur
    return None


def _show(b: bytes) -> str:
    return repr(b) if len(b) <= 24 else f"{b[:12]!r}..{b[-8:]!r}(len {len(b)})"


# ---------------------------------------------------------------------------- comparison with the model

def _dec(x) -> bytes:
    """Byte strings cross the wire hex-encoded (the runner's `\\e` escape shadows bytes 0xe0-0xef)."""
    return bytes.fromhex(x) if isinstance(x, str) else x


def compare(case, result, mres, last) -> Optional[Dict[str, Any]]:
    driver, ops = case
    skip_from = None
    prev: Dict[str, Any] = {}
    for i, (op, st) in enumerate(zip(ops, result["steps"])):
        res, obs, err, mk = st
        if res == "X":
            return {"step": i, "what": f"impl unusable: {err}"}
        if driver == "h5" and _is_marker_attempt(op, prev):
            return None      # plain HDF5 has no marker; the model describes the IH5 drivers from here on
        k0, j = last[i]
        if j < 0:
            if op[0] in ("gcopy", "gmove"):
                prev = dict(zip(result["paths"], obs))
                continue          # a group without datasets below it: nothing the flat model speaks about
            want_ok = "T"
            want_obs = None
        else:
            # accepted = every model operation of the (expanded) step accepted
            want_ok = "T" if all(mres[k][0] == "T" for k in range(k0, j + 1)) else "F"
            want_obs = mres[j][1]
        if (res == "T") != (want_ok == "T"):
            return {"step": i, "op": _op_show(op), "what": f"result class: impl {res} ({err}) vs model {want_ok}"}
        if want_obs is not None and want_obs != "-":
            for p, o, w in zip(result["paths"], obs, want_obs):
                w2 = [] if not w else [w[0], _dec(w[1]), [] if not w[2] else
                                       [int(w[2][0]), hashlib.sha256(_dec(w[1] if w[2][1] == "=" else w[2][1])).hexdigest()]]
                if o != w2:
                    return {"step": i, "op": _op_show(op), "path": p, "what": f"impl {_obs_show(o)} vs model {_obs_show(w2)}"}
        prev = dict(zip(result["paths"], obs))
    return None


def _obs_show(o):
    return "absent" if not o else [o[0], _show(o[1]), o[2] if not o[2] else [o[2][0], o[2][1][:12]]]


def _op_show(op):
    return [(_show(x) if isinstance(x, bytes) else x) for x in op]


# ---------------------------------------------------------------------------- JSON-safe cases

def _json_bytes(x: bytes):
    if len(x) > 100000:
        for tag in BIG_TAGS:
            if x == big_bytes(len(x), tag):
                return {"big": [len(x), tag]}
    return {"hex": x.hex()}


def case_to_json(case):
    driver, ops = case
    return {"driver": driver, "ops": [[(_json_bytes(x) if isinstance(x, bytes) else x) for x in op] for op in ops]}


def case_from_json(j):
    def un(x):
        if isinstance(x, dict) and "hex" in x:
            return bytes.fromhex(x["hex"])
        if isinstance(x, dict) and "big" in x:
            return big_bytes(*x["big"])
        return x
    return (j["driver"], [[un(x) for x in op] for op in j["ops"]])


def canon_sig(case, bad) -> Dict[str, Any]:
    """Signature of a failing case: failure kind, the way the value was assigned, driver family
    (payloads and the rest of the shrunk history vary with the seed and are left out)."""
    driver, ops = case
    return {"kind": bad["kind"], "via": bad.get("via"), "driver": "ih5" if driver != "h5" else "h5"}


def fails(case) -> Optional[Dict[str, Any]]:
    return oracle(case, w_impl(case))


def shrink(case, bad):
    driver, ops = case
    kind = bad["kind"]

    def still(sub):
        b = fails((driver, sub))
        return b is not None and b["kind"] == kind
    plain = [o[:3] if o[0] == "pack" else o for o in ops]
    if plain != ops and still(plain):                  # the failure does not depend on how sources were presented
        ops = plain
    i = bad.get("step", len(ops) - 1)
    packs = [o for o in ops[:i] if o[0] == "pack" and o != ANCHOR]
    for cand in ([ops[i]], ops[max(0, i - 1):i + 1], packs + [ops[i]], packs + ops[max(0, i - 1):i + 1]):
        if len(cand) < len(ops) and still(cand):       # the failing step with its obvious prerequisites
            return (driver, vlib.ddmin(list(cand), still, budget=10))
    small = vlib.ddmin(list(ops), still, budget=40)
    return (driver, small)


# ---------------------------------------------------------------------------- main

def run(ctx: vlib.Ctx):
    proof = ctx.check_proofs()
    cov = ctx.coverage
    rng = ctx.rng
    cov["trusted_base"] = vlib.TRUSTED_COMMON + [
        "modelled, not verified: HDF5/h5py storage of opaque scalars (numpy.void) and h5py.Empty, h5py's coercion of assigned values, "
        "native H5Ocopy/H5Lmove of the h5py.File driver, MetadorContainer's metadata/TOC bookkeeping on copy/move/delete (the model "
        "carries metadata along with the node), group structure (flat node names here; groups, virtual nodes and attribute managers "
        "are the overlay model of C01), pydantic parsing of core.file, python-magic (encodingFormat is not compared), the file system",
        "SHA-256: abstract function H in the theorems (injectivity is a premise of C17_filemeta_identifies only); the runner instantiates "
        "H by the identity and the harness composes it with hashlib.sha256, which is also the reference for the code's sha256 field",
    ]
    C = corpus(rng, not ctx.quick)
    pool = [b for _, b in C if len(b) <= 5000]

    # ---- 1. wrap / unwrap / guard classes over the whole corpus (model vs _h5_wrap_bytes, _guard_value)
    wcases = [["wrap", b.hex()] for _, b in C]
    wres = vlib.run_model("c17", wcases, chunk=10 ** 9)
    wimpl = vlib.pmap(w_wrap, [b for _, b in C], chunksize=8)
    disagreements: List[Dict[str, Any]] = []
    for (name, b), w, got in zip(C, wres, wimpl):
        want = [w[0], _dec(w[1]), w[2], w[3], w[4]]
        if got != want and len(disagreements) < 20:
            disagreements.append({"kind": "wrap", "corpus": name, "model": [want[0], _show(want[1])] + want[2:4], "impl": got if not isinstance(got, list) else [got[0], _show(got[1])] + got[2:4]})
        if isinstance(got, list) and (got[1] != b or (got[0] == "E") != (b == b"") or (got[3] == "F") != (b == MARK)):
            ctx.violation(f"_h5_wrap_bytes/_guard_value on corpus entry {name}: {got[0]} {_show(got[1])} guard={got[3]}",
                          {"kind": "wrap", "bytes_hex": b.hex(), "impl": [got[0], got[1].hex()[:400], got[2], got[3]]},
                          sig_obj={"kind": "wrap", "corpus": name})
    evals = len(C)
    ctx.sample({"case": ["wrap", "ab\\x00\\x00"], "model": vlib.run_model("c17", [["wrap", b"ab\x00\x00".hex()]])[0]})

    # ---- 2. histories
    hist: List[List[Any]] = []
    others = [b"other", b"\x00", MARK + b"\x00", b""]
    cases: List[Tuple[str, List[Any]]] = []
    for idx, (name, b) in enumerate(C):
        ts = templates(b, others[idx % len(others)])
        take = ts if not ctx.quick else [ts[idx % len(ts)]]
        for h in take:
            cases += [(drv, PRE + h) for drv in DRIVERS]
        for r in range(ctx.budget(1, 3) if len(b) < 10000 else 1):
            h = PRE + gen_history(rng, b, pool, rng.randint(6, ctx.budget(12, 18)), with_marker=rng.random() < 0.35)
            drvs = DRIVERS if not ctx.quick else ["h5", ("ih5", "mf")[(idx + r) % 2]]
            cases += [(drv, h) for drv in drvs]
    for i, h in enumerate(marker_histories()):
        cases += [(drv, PRE + h) for drv in (DRIVERS if not ctx.quick else ["h5", ("ih5", "mf")[i % 2]])]
    # source presentation: an independent stream derived from ctx.rng after all other draws
    import random as _random
    prng = _random.Random(rng.getrandbits(64))
    memo: Dict[Any, List[Any]] = {}
    for ci, (drv, h) in enumerate(cases):
        key = tuple(id(o) for o in h)
        if key not in memo:
            memo[key] = sprinkle(prng, h, 0.3)
        cases[ci] = (drv, memo[key])
    for i, h in enumerate(presentation_histories(prng, pool, not ctx.quick)):
        cases += [(drv, PRE + h) for drv in (DRIVERS if not ctx.quick else ["h5", ("ih5", "mf")[i % 2]])]
    first_x = len(cases)          # from here on: oracle only, no model
    xh = exotic_histories()
    for i, h in enumerate(xh[:6] if ctx.quick else xh):   # quick: base container and patch; thorough: merged record too
        # plain HDF5 has no marker to guard; quick: one IH5 driver per history, alternating
        cases += [(drv, PRE + h) for drv in (("ih5", "mf") if not ctx.quick else (("ih5", "mf")[i % 2],))]
    for h in large_histories(not ctx.quick):
        cases += [(drv, h) for drv in DRIVERS]
    hist = [h for _, h in cases]
    import time as _t
    t0 = _t.time()
    results = vlib.pmap(w_impl, cases[:first_x], chunksize=4) + vlib.pmap(w_impl, cases[first_x:], chunksize=1)
    vlib.log(f"c17: {len(cases)} impl cases in {_t.time() - t0:.1f}s")
    # timeouts under CPU contention: re-run those cases alone, sequentially
    for i, r in enumerate(results):
        if any(s[0] == "X" and s[2] == "timeout" for s in r["steps"]):
            results[i] = w_impl(cases[i])
            if any(s[0] == "X" and s[2] == "timeout" for s in results[i]["steps"]):
                ctx.notes.append(f"case {i} timed out twice; not judged")
    evals += len(cases)

    mcases, lasts = [], []
    for ci, (drv, h) in enumerate(cases):
        mo, last = model_ops(h if ci < first_x else [], drv)
        big = sum(len(x) for o in h for x in o if isinstance(x, bytes)) > 6000
        mcases.append(["hist", False, not big, paths_of(h), mo])
        lasts.append(last)
    t0 = _t.time()
    mres = vlib.run_model("c17", mcases)
    vlib.log(f"c17: model in {_t.time() - t0:.1f}s")
    small = [i for i, (c, r) in enumerate(zip(wcases + mcases, list(wres) + list(mres))) if len(repr(c)) + len(repr(r)) < 6000]
    xc = vlib.coq_crosscheck("c17", [(wcases + mcases)[i] for i in small], [(list(wres) + list(mres))[i] for i in small],
                             "c17", max_cases=ctx.budget(25, 60))
    # the pinned variant of the model reproduces what the pinned tree does with in-place marker writes
    pin = [["hist", True, True, ["g"], [["pack", "g", b"z".hex()], ["write", "g", "V", MARK.hex()]]]]
    pres = vlib.run_model("c17", pin)[0]
    ctx.sample({"case": ["hist", "pinned", ["g"], [["pack", "g", "z"], ["write", "g", "V", "\\x7f"]]], "model": pres})

    vlib.log(f"c17: crosscheck done {_t.time() - t0:.1f}s")
    reported = set()
    nontrivial = set()
    for ci, (case, res, mr, last) in enumerate(zip(cases, results, mres, lasts)):
        bad = oracle(case, res)
        if bad is not None:
            small = shrink(case, bad)
            bad2 = fails(small) or bad
            sig = canon_sig(small, bad2)
            key = (sig["kind"], sig.get("via"), sig["driver"])
            if key not in reported:
                reported.add(key)
                ctx.violation(f"[{small[0]}] {bad2['what']}  (history: {[_op_show(o) for o in small[1]]})",
                              {"kind": "history", "fail": bad2, "presentations": [pres_of(o) for o in small[1] if o[0] == "pack"],
                               **case_to_json(small)}, sig_obj=sig)
        d = compare(case, res, mr, last) if ci < first_x else None
        if d is not None and len(disagreements) < 40:
            disagreements.append({"kind": "history", "driver": case[0], "ops": [_op_show(o) for o in case[1]], **d})
        drv, h = case
        k0 = len(PRE)
        if bad is None and h[k0][0] == "pack" and len(h[k0][2]) > 0 and any(o[0] in TRANSPORT for o in h[k0 + 1:]):
            nontrivial.add((drv, hashlib.sha1(repr(h).encode()).hexdigest()))
    if len(cases) > 4:
        ctx.sample({"case": ["hist", "F", "T", mcases[3][3], [_op_show(o) for o in mcases[3][4]]],
                    "model_last_step": mres[3][-1] if len(repr(mres[3][-1])) < 600 else "(long)"})

    # ---- summary
    cov["evaluations"] = evals
    cov["distinct_nontrivial"] = len(nontrivial)
    cov["rule"] = ("a history counts when it embeds a non-empty byte string through pack_file, the node then passes through at least "
                   "one transport operation (copy, move, group copy/move, patch boundary, reopen, merge) and the oracle judged every "
                   "step; distinct = distinct (driver, full operation list incl. payloads)")
    cov["exhaustive"] = False
    lens = sorted({len(b) for _, b in C})
    cov["input_distribution"] = {
        "corpus": len(C), "lengths": lens[:12] + ["..."] + lens[-8:], "large_sizes_oracle_only": large_sizes(not ctx.quick), "histories": len({repr(h) for h in hist}), "drivers": _hist(d for d, _ in cases),
        "cases": len(cases), "ops_per_history": _hist(len(h) for h in hist),
        "op_kinds": _hist(o[0] for h in hist for o in h),
        "source_presentations": _hist(pres_of(o) for h in hist for o in h if o[0] == "pack"),
        "source_presentations_accepted": _hist(pres_of(o) for (d, h), r in zip(cases, results) for o, s in zip(h, r["steps"])
                                               if o[0] == "pack" and s[0] == "T"),
        "marker_attempts": sum(1 for h in hist for o in h if (o[0] == "pack" and o[2] == MARK) or (o[0] in ("set", "write") and o[3] == MARK)),
        "marker_attempts_refused_ih5": sum(1 for (d, h), r in zip(cases, results) if d != "h5" for s in r["steps"] if s[3] is not None and s[0] == "F"),
        "refused_steps_impl": sum(1 for r in results for s in r["steps"] if s[0] == "F"),
    }
    cov["marker_forms"] = form_table(cases, results)
    cov["coq_crosscheck"] = xc
    cov["disagreements"] = len(disagreements)
    ctx.assumptions += [
        "node names are printable ASCII without '@'; leaf names never collide with group names (no dataset below a dataset)",
        "a group that was moved away is not re-created under the same name (that shape belongs to C01)",
        "in-place writes keep the length of the value (h5py pads/truncates otherwise)",
        "datasets created without metadata (c[p] = value) are moved but not copied individually (MetadorGroup.copy raises on a missing metadata directory)",
        "source and destination of a copy/move differ (h5py treats move(x, x) as a no-op, IH5 refuses it; the node is kept either way)",
        "core.file metadata is the harvested default (no user-supplied metadata object)",
        "the source path designates an existing regular file, directly or through symbolic links (dangling links, links to directories "
        "and special files are outside the property); the file is not modified while it is embedded",
    ]

    if not xc["ok"]:
        ctx.violation("extracted runner and in-Coq evaluation of the model disagree (stale or wrong extraction)",
                      {"kind": "crosscheck", "detail": xc}, found_input=False)
    if not proof["ok"]:
        ctx.violation("proof obligations of Properties/C17.v do not check: " + "; ".join(proof["problems"])[:500],
                      {"kind": "proof", "theorem_file": "coq/Properties/C17.v", "problems": proof["problems"]}, found_input=False)
    if disagreements and not ctx.violations and not ctx.known_hits:
        ctx.violation("model/implementation correspondence broken but the property oracle found no failing input",
                      {"kind": "correspondence", "correspondence": "coq/IH5/Bytes.v run_c17 vs packer/utils.py pack_file, ih5/overlay.py, container/wrappers.py",
                       "smallest_disagreement": min(disagreements, key=lambda d: len(repr(d))), "count": len(disagreements),
                       "others": [{k: v for k, v in d.items() if k != "ops"} for d in disagreements[:8]]},
                      found_input=False)
    elif disagreements:
        ctx.notes.append(f"{len(disagreements)} model/impl disagreements (first: {disagreements[0]})")


def w_wrap(b: bytes):
    """_h5_wrap_bytes + _is_del_mark/_guard_value on one byte string."""
    try:
        import ih5lib
        from metador_core.ih5.overlay import IH5Node, _is_del_mark
        from metador_core.packer.utils import _h5_wrap_bytes
        with vlib.time_limit(60):
            v = _h5_wrap_bytes(b)
            cls, back = _classify(v)
            try:
                IH5Node._guard_value(None, v)
                g = "T"
            except ValueError:
                g = "F"
            return [cls, back, "T" if _is_del_mark(v) else "F", g, ih5lib.enc(v) if cls != "E" else "e:"]
    except Exception as e:  # noqa: BLE001
        return f"{type(e).__name__}: {e}"[:200]


def _hist(it):
    h: Dict[str, int] = {}
    for x in it:
        h[str(x)] = h.get(str(x), 0) + 1
    return h


def replay(rep) -> int:
    """Re-evaluate the recorded failing history on the current tree; exit 1 if it still fails."""
    vlib._pool_init()
    if rep.get("kind") == "history":
        case = case_from_json(rep)
        unknown = sorted({pres_of(o) for o in case[1]} - set(PRESENTATIONS))
        if unknown:
            print(f"unknown source presentation(s) {unknown}")
            return 1
        print("source presentations:", [pres_of(o) for o in case[1] if o[0] == "pack"])
        res = w_impl(case)
        for op, st in zip(case[1], res["steps"]):
            print(_op_show(op), "->", st[0], st[2], [_obs_show(o) for o in (st[1] or [])], st[3] or "")
        bad = oracle(case, res)
        print("still failing: " + bad["what"] if bad else "no longer failing")
        return 1 if bad else 0
    if rep.get("kind") == "wrap":
        b = bytes.fromhex(rep["bytes_hex"])
        got = w_wrap(b)
        print(got if not isinstance(got, list) else [got[0], _show(got[1])] + got[2:])
        ok = isinstance(got, list) and got[1] == b and (got[0] == "E") == (b == b"") and (got[3] == "F") == (b == MARK)
        return 0 if ok else 1
    print("replay names a proof obligation or correspondence; re-run the check itself")
    return 1
