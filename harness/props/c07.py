"""C07 — metadata comes back as stored and queries are exact.

Correspondence (model coq/Toc/Query.v, entry ``run_c07``): a schema family registered by the
harness in the real ``schema`` plugin group (harness/qlib.py: 3 levels of inheritance, minor
and major bumps, an auxiliary schema with an attachable child, a schema whose parent changes
with the major version) plus two installed schemas; random histories of attach / detach /
node create / delete / move / copy (with and without metadata) / re-open run through
``MetadorContainer`` over both drivers (``h5py.File``, ``IH5Record``), plus targeted shapes
(``gen_reuse_history``): move / copy / delete of a *group* whose descendants (depth 1-3) carry
metadata, followed by re-creation of nodes at the old paths (same and other kind), attach /
detach on the fresh nodes and on copies, a group moved / copied onto the path of a deleted
group of the same shape.  After every step:
outcome class, the nodes with their attached objects (schema release and stored value),
``keys()``, ``in`` / ``get`` / ``[]`` for every (schema, version) argument at every node, and
``node.metador.query`` for a seeded sample of (start node, schema, version) -- all arguments
on the last step -- are compared with the model; the model's ``query`` is compared with the
model's ``brute`` (the theorem, re-evaluated).

Oracles on the code alone (no model):
  (a) ``query`` from every sampled start node equals a brute-force scan of the *raw* dump of
      the container (metadata directories beside/below the nodes) against the inheritance
      table of harness/qlib.py and the ``supports`` formula;
  (b) ``get(s, v)`` / ``[s]`` / ``in``: present exactly when the raw dump holds a matching
      object at that node; the returned object has the stored field values, is an instance of
      a release of the *requested* schema and that release supports (same major, minor not
      smaller) the release of the requested schema the object was stored as (itself or its
      ancestor); no exception except ``KeyError`` when no installed release supports an
      explicitly requested version;
  (c) a second object of the same schema name, an auxiliary schema, an unknown schema or
      version are refused and the raw dump is unchanged; an accepted attach reads back;
  (d) the answers of (a),(b) immediately before closing and after re-opening are the same;
  (e) the uuids of all stored objects in the raw dump are distinct (copies get fresh ones).
On the last step every node is a start node for every schema in use (and its ancestors).
"""
from __future__ import annotations

import json
import time
from typing import Any, Dict, List, Optional, Tuple

import gentie
import qlib
import vlib

SEGS = ["a", "b", "c", "d"]
BAD_VER = (9, 0, 0)
META_PREF = "metador_meta_"


# ---------------------------------------------------------------------------- static tables

def all_releases() -> List[qlib.Ref]:
    return [(n, v) for n, v, *_ in qlib.FAMILY] + list(qlib.INSTALLED)


def versions_of(name: str) -> List[qlib.Ver]:
    return [v for n, v in all_releases() if n == name]


def parent_of(ref: qlib.Ref) -> Optional[qlib.Ref]:
    return None if ref in qlib.INSTALLED else qlib.parent_of(ref)


def chain(ref: qlib.Ref) -> List[qlib.Ref]:
    """ref, parent, ..., root -- from the static table only."""
    out = [ref]
    while (p := parent_of(out[-1])) is not None:
        out.append(p)
    return out


def is_aux(ref: qlib.Ref) -> bool:
    return ref not in qlib.INSTALLED and qlib.is_aux(ref)


def supports(self_v, other_v) -> bool:
    """PluginRef.supports on versions of equally named references (independent restatement)."""
    return self_v[0] == other_v[0] and self_v[1] >= other_v[1]


def admits(name: str, ver, a: qlib.Ref) -> bool:
    """A request (name, ver) admits release `a`."""
    return a[0] == name and (ver is None or supports(tuple(ver), a[1]))


def matched_ancestor(name: str, ver, ref: qlib.Ref) -> Optional[qlib.Ref]:
    for a in chain(ref):
        if admits(name, ver, a):
            return a
    return None


def qargs() -> List[Tuple[str, Optional[qlib.Ver]]]:
    out: List[Tuple[str, Optional[qlib.Ver]]] = []
    for n in qlib.NAMES + [r[0] for r in qlib.INSTALLED]:
        out.append((n, None))
        for v in versions_of(n):
            out.append((n, v))
        out.append((n, BAD_VER))
        if n == "vq.aa":
            out.append((n, (1, 5, 0)))     # admits stored 1.x releases, no installed release supports it
    out.append(("vq.zz", None))
    return out


QARGS = qargs()


def env_sx() -> list:
    out = []
    for n, v, p, aux, _r, _o in qlib.FAMILY:
        out.append([[n, *v], [[p[0], *p[1]]] if p else [], bool(aux)])
    for n, v in qlib.INSTALLED:
        out.append([[n, *v], [], False])
    return out


def value_fields(op) -> Dict[str, Any]:
    """Fields of the value an attach operation passes (from the static table and the seed)."""
    vname, vver, seed = op[5], op[6], op[7]
    if (vname, tuple(vver)) in qlib.INSTALLED:
        return dict(qlib.INSTALLED_KW[vname])
    return qlib.obj_kwargs((vname, tuple(vver)), seed)


def valid_for(fields: Dict[str, Any]) -> List[qlib.Ref]:
    out = []
    for n, v, *_ in qlib.FAMILY:
        req, _opt = qlib.fields_of((n, v))
        if all(f in fields for f in req):
            out.append((n, v))
    for r in qlib.INSTALLED:
        if all(k in fields for k in qlib.INSTALLED_KW[r[0]]):
            out.append(r)
    return out


def model_ops(ops: List[list]) -> List[list]:
    out = []
    for op in ops:
        k = op[0]
        if k == "attach":
            fields = value_fields(op)
            ver = [] if op[4] is None else list(op[4])
            out.append(["attach", op[1], op[3], ver, f"o{op[7]}",
                        [[n, *v] for n, v in valid_for(fields)]])
        elif k == "detach":
            out.append(["detach", op[1], op[2]])
        elif k == "mk":
            out.append(["mk", op[1], op[2], bool(op[3])])
        elif k == "del":
            out.append(["del", op[1]])
        elif k == "move":
            out.append(["move", op[1], op[2], op[3]])
        elif k == "copy":
            out.append(["copy", op[1], op[2], op[3], bool(op[4])])
        elif k == "reopen":
            out.append(["reopen"])
        else:
            raise ValueError(k)
    return out


# ---------------------------------------------------------------------------- generator

class Mirror:
    """Rough mirror of nodes and attached schema names, to bias the generator."""

    def __init__(self):
        self.nodes: Dict[Tuple[str, ...], bool] = {(): True}
        self.meta: Dict[Tuple[str, ...], Dict[str, qlib.Ref]] = {(): {}}

    def groups(self):
        return [p for p, g in self.nodes.items() if g]

    def under(self, p):
        return [q for q in self.nodes if q[:len(p)] == p]


def gen_history(rng, nops: int, seed0: int = 0) -> List[list]:
    mir = Mirror()
    ops: List[list] = []
    seed = seed0
    fam = [(n, v) for n, v, *_ in qlib.FAMILY]
    guard = 0
    while len(ops) < nops and guard < nops * 20:
        guard += 1
        r = rng.random()
        existing = [p for p in mir.nodes if p]
        if len(mir.nodes) < 3:
            r = min(r, 0.15)
        if r < 0.16:
            par = rng.choice(mir.groups())
            name = rng.choice(SEGS)
            if par + (name,) in mir.nodes or len(mir.nodes) >= 9:
                continue
            grp = rng.random() < 0.65
            ops.append(["mk", list(par), name, grp])
            mir.nodes[par + (name,)] = grp
            mir.meta[par + (name,)] = {}
        elif r < 0.58:
            p = rng.choice(list(mir.nodes))
            seed += 1
            rr = rng.random()
            if rr < 0.08:
                name = rng.choice([x[0] for x in qlib.INSTALLED])
                ops.append(["attach", list(p), "name", name, None, name, [0, 1, 0], seed])
                mir.meta[p].setdefault(name, (name, (0, 1, 0)))
                continue
            if rr < 0.12:
                ops.append(["attach", list(p), "name", "vq.zz", None, "vq.aa", [1, 0, 0], seed])
                continue
            if rr < 0.16:
                ops.append(["attach", list(p), "tuple", "vq.aa", [3, 0, 0], "vq.aa", [2, 0, 0], seed])
                continue
            ref = rng.choice(fam)
            kk = rng.random()
            if kk < 0.6:
                key, kver = "cls", list(ref[1])
            elif kk < 0.8:
                key, kver = "name", None
            else:
                # a class of another release of the same schema as key
                oth = rng.choice(versions_of(ref[0]))
                key, kver = "cls", list(oth)
            ops.append(["attach", list(p), key, ref[0], kver, ref[0], list(ref[1]), seed])
            mir.meta[p].setdefault(ref[0], ref)
        elif r < 0.68:
            have = [(p, s) for p, d in mir.meta.items() for s in d]
            if have and rng.random() < 0.85:
                p, s = rng.choice(have)
                del mir.meta[p][s]
            else:
                p, s = rng.choice(list(mir.nodes)), rng.choice(qlib.NAMES)
            ops.append(["detach", list(p), s])
        elif r < 0.74:
            if not existing:
                continue
            p = rng.choice(existing)
            ops.append(["del", list(p)])
            for q in mir.under(p):
                del mir.nodes[q]
                del mir.meta[q]
        elif r < 0.92:
            if not existing:
                continue
            s = rng.choice(existing)
            dpar = rng.choice(mir.groups())
            dname = rng.choice(SEGS)
            d = dpar + (dname,)
            if d in mir.nodes or d[:len(s)] == s:
                continue
            if r < 0.82:
                ops.append(["move", list(s), list(dpar), dname])
                for q in mir.under(s):
                    nq = d + q[len(s):]
                    mir.nodes[nq] = mir.nodes.pop(q)
                    mir.meta[nq] = mir.meta.pop(q)
            else:
                wm = rng.random() < 0.35
                if not mir.nodes[s] and not mir.meta[s]:
                    wm = True      # copying a dataset that has no metadata: C08 side finding, avoided
                if len(mir.nodes) + len(mir.under(s)) > 12:
                    continue
                ops.append(["copy", list(s), list(dpar), dname, wm])
                for q in mir.under(s):
                    nq = d + q[len(s):]
                    mir.nodes[nq] = mir.nodes[q]
                    mir.meta[nq] = {} if wm else dict(mir.meta[q])
        elif r < 0.965:
            ops.append(["reopen"])
    return ops


def gen_reuse_history(rng, seed0: int = 0) -> List[list]:
    """Move / copy / delete of a GROUP whose descendants (depth 1-3) carry metadata, then
    re-creation of nodes at the old paths (same kind and the other kind), attach / detach on
    the fresh nodes; mirror shape: a group is moved / copied onto the path of a deleted group
    of the same shape.  (The per-node reads after every step touch `.meta` of every node.)"""
    fam = [(n, v) for n, v, _p, aux, _r, _o in qlib.FAMILY if not aux]
    seed = seed0
    ops: List[list] = []
    G = rng.choice(SEGS)
    H = rng.choice([x for x in SEGS if x != G])
    depth = rng.randint(1, 3)
    sub: List[Tuple[List[str], bool]] = []          # below G: (relative path, is group)
    rel: List[str] = []
    for i in range(depth):
        rel = rel + [rng.choice(SEGS)]
        sub.append((list(rel), True if i < depth - 1 else rng.random() < 0.5))
    if rng.random() < 0.6:
        sib = rng.choice([x for x in SEGS if x != sub[0][0][0]])
        sub.append(([sib], rng.random() < 0.4))

    def build(root: str, with_meta: bool, flip: float = 0.0) -> List[Tuple[List[str], bool]]:
        made = []
        ops.append(["mk", [], root, True])
        dead: List[List[str]] = []
        for r, grp in sub:
            if any(r[:len(x)] == x for x in dead):
                continue
            g2 = (not grp) if rng.random() < flip else grp
            if not g2:
                dead.append(r)
            ops.append(["mk", [root] + r[:-1], r[-1], g2])
            made.append(([root] + r, g2))
        return made

    def attach(p: List[str], ref=None):
        nonlocal seed
        seed += 1
        ref = ref or rng.choice(fam)
        ops.append(["attach", list(p), "cls", ref[0], list(ref[1]), ref[0], list(ref[1]), seed])
        return ref

    made = build(G, True)
    had: Dict[Tuple[str, ...], List[qlib.Ref]] = {}
    for p, _g in made + ([([G], True)] if rng.random() < 0.4 else []):
        for _ in range(rng.choice([1, 1, 1, 2])):
            if rng.random() < 0.8:
                had.setdefault(tuple(p), []).append(attach(p))
    if not had:
        had.setdefault(tuple(made[0][0]), []).append(attach(made[0][0]))
    mode = rng.choice(["move", "move", "copy", "copywm", "del", "mirror-move", "mirror-copy"])
    if mode.startswith("mirror"):
        # a group of the same shape without metadata at H (its empty listings get looked at), deleted,
        # then G is moved / copied onto its path
        save, sub2 = list(ops), sub
        build(H, False)
        ops.append(["del", [H]])
        ops.append(["move", [G], [], H] if mode == "mirror-move" else ["copy", [G], [], H, False])
        fresh_root = H
        olds = [([H] + list(p[1:]), refs) for p, refs in had.items()]
        for p, refs in olds[:2]:
            ops.append(["detach", p, refs[0][0]])
            attach(p, refs[0])
    else:
        if mode == "move":
            ops.append(["move", [G], [], H])
        elif mode in ("copy", "copywm"):
            ops.append(["copy", [G], [], H, mode == "copywm"])
        else:
            ops.append(["del", [G]])
        if mode in ("copy", "copywm"):
            # old paths stay: work on the copies, then remove the original and re-create it
            for p, refs in list(had.items())[:1]:
                q = [H] + list(p[1:])
                ops.append(["detach", q, refs[0][0]])
                attach(q, refs[0])
            ops.append(["del", [G]])
        fresh = build(G, False, flip=0.35)
        for p, _g in fresh[:3]:
            refs = had.get(tuple(p), [])
            if refs and rng.random() < 0.8:
                ops.append(["detach", p, refs[0][0]])        # nothing there: must be refused
                attach(p, refs[0])                            # same schema as the old object: must work
                if rng.random() < 0.5:
                    ops.append(["detach", p, refs[0][0]])
            elif rng.random() < 0.5:
                attach(p)
    if rng.random() < 0.5:
        ops.append(["reopen"])
        p = rng.choice(made)[0]
        attach(p)
    return ops


def pattern_histories() -> List[List[list]]:
    """Shapes the property and DESIGN §6 name explicitly."""
    A, B, Cc = "vq.aa", "vq.bb", "vq.cc"
    g = ["mk", [], "a", True]
    h = ["mk", [], "b", True]
    ds = ["mk", ["a"], "d", False]
    out = [
        # chain A > B > C: remove the last B object while C is still in use, then re-open
        [g, h, ["attach", ["a"], "cls", Cc, [1, 0, 0], Cc, [1, 0, 0], 1],
         ["attach", ["b"], "cls", B, [1, 0, 0], B, [1, 0, 0], 2],
         ["detach", ["b"], B], ["reopen"], ["detach", ["a"], Cc], ["reopen"]],
        # auxiliary parent, old major release read by name, class of an older minor as key
        [g, ds, ["attach", ["a"], "cls", "vq.dd", [1, 0, 0], "vq.dd", [1, 0, 0], 3],
         ["attach", ["a", "d"], "cls", A, [1, 0, 0], A, [1, 0, 0], 4],
         ["attach", [], "cls", "vq.ff", [1, 0, 0], "vq.ff", [1, 0, 0], 5],
         ["attach", ["a"], "cls", Cc, [2, 0, 0], Cc, [2, 0, 0], 6], ["reopen"]],
        # two objects below one ancestor schema at one node; copy with and without metadata
        [g, ds, ["attach", ["a"], "cls", B, [1, 2, 0], B, [1, 2, 0], 7],
         ["attach", ["a"], "cls", "vq.ee", [1, 0, 0], "vq.ee", [1, 0, 0], 8],
         ["attach", ["a", "d"], "cls", Cc, [1, 1, 0], Cc, [1, 1, 0], 9],
         ["copy", ["a"], [], "c", False], ["copy", ["a"], [], "d", True],
         ["move", ["a", "d"], ["c"], "b"], ["del", ["a"]], ["reopen"]],
        # group move, then a new node at the old path of a descendant that carried metadata
        [g, ds, ["attach", ["a", "d"], "cls", B, [1, 2, 0], B, [1, 2, 0], 20], ["move", ["a"], [], "b"],
         g, ds, ["detach", ["a", "d"], B], ["attach", ["a", "d"], "cls", B, [2, 0, 0], B, [2, 0, 0], 21],
         ["detach", ["b", "d"], B]],
        # a release whose parent is not the newest release of the parent schema
        [g, ["attach", ["a"], "cls", "vq.hh", [1, 0, 0], "vq.hh", [1, 0, 0], 22],
         ["attach", [], "cls", "vq.gg", [1, 0, 0], "vq.gg", [1, 0, 0], 23], ["reopen"]],
        # refusals
        [g, ["attach", ["a"], "name", "vq.xx", None, "vq.xx", [1, 0, 0], 10],
         ["attach", ["a"], "cls", A, [2, 0, 0], A, [2, 0, 0], 11],
         ["attach", ["a"], "cls", A, [1, 0, 0], A, [1, 0, 0], 12],
         ["attach", ["a"], "name", "vq.zz", None, A, [1, 0, 0], 13],
         ["attach", ["a"], "tuple", A, [3, 0, 0], A, [2, 0, 0], 14],
         ["attach", ["a"], "name", A, None, A, [1, 0, 0], 15],
         ["detach", ["a"], B], ["detach", ["a"], A], ["detach", ["a"], A]],
    ]
    return out


# ---------------------------------------------------------------------------- implementation side

def absname(p: List[str]) -> str:
    return "/" + "/".join(p)


def classify(e: BaseException) -> str:
    from pydantic import ValidationError
    if isinstance(e, vlib.CaseTimeout):
        raise e
    if isinstance(e, ValidationError):
        return "invalid"
    if isinstance(e, ValueError) and "already exists" in str(e):
        return "exists"
    if isinstance(e, TypeError) and "auxiliary" in str(e):
        return "aux"
    if isinstance(e, KeyError):
        return "keyerror"
    return "fail:" + type(e).__name__


def apply_op(env: Dict[str, Any], op: list) -> None:
    from metador_core.plugins import schemas
    m = env["m"]
    k = op[0]
    if k == "mk":
        g = m[absname(op[1])]
        if op[3]:
            g.create_group(op[2])
        else:
            g[op[2]] = 7
    elif k == "attach":
        node = m[absname(op[1])]
        name, ver = op[3], (tuple(op[4]) if op[4] is not None else None)
        vref = (op[5], tuple(op[6]))
        C = qlib.install_family()
        if vref in qlib.INSTALLED:
            value = schemas.get(vref[0], vref[1])(**qlib.INSTALLED_KW[vref[0]])
        else:
            value = qlib.make_obj(vref, op[7])
        if op[2] == "name":
            key: Any = name
        elif op[2] == "cls":
            key = C[(name, ver)]
        else:
            key = (name, ver)
        node.meta[key] = value
    elif k == "detach":
        del m[absname(op[1])].meta[op[2]]
    elif k == "del":
        del m[absname(op[1])]
    elif k == "move":
        m.move(absname(op[1]), absname(op[2] + [op[3]]))
    elif k == "copy":
        m.copy(absname(op[1]), absname(op[2] + [op[3]]), without_meta=bool(op[4]))
    elif k == "reopen":
        reopen(env)
    else:
        raise ValueError(k)


def reopen(env: Dict[str, Any]) -> None:
    import h5py
    from metador_core.container import MetadorContainer
    from metador_core.ih5.container import IH5Record
    env["raw"].close()
    env["raw"] = (h5py.File(env["dir"] / "cont.h5", "r+") if env["drv"] == "h5"
                  else IH5Record(env["dir"] / "rec", "r+"))
    env["m"] = MetadorContainer(env["raw"])


def raw_objects(dump: Dict[str, Any]) -> Dict[str, List[Tuple[str, qlib.Ver, Dict[str, Any]]]]:
    """user node name -> [(schema name, version, stored fields)] read off the raw dump."""
    out: Dict[str, List[Tuple[str, qlib.Ver, Dict[str, Any]]]] = {}
    for name, val in dump.items():
        segs = name.split("/")
        if len(segs) < 3 or not segs[-2].startswith(META_PREF) or segs[1] == "metador_container":
            continue
        if any(s.startswith("metador_") for s in segs[:-2]):
            continue
        base = segs[-2]
        if base == META_PREF:
            node = "/".join(segs[:-2]) or "/"
        else:
            node = "/".join(segs[:-2] + [base[len(META_PREF):]])
        ep, _uuid = segs[-1].split("=")
        sname, sver = ep.split("__")
        ver = tuple(int(x) for x in sver.split("."))
        out.setdefault(node, []).append((sname, ver, json.loads(val)))
    return out


def raw_uuids(dump: Dict[str, Any]) -> List[str]:
    """uuid of every stored metadata object (from the object names in the raw dump)."""
    out = []
    for name in dump:
        segs = name.split("/")
        if len(segs) >= 3 and segs[-2].startswith(META_PREF) and segs[1] != "metador_container" and "=" in segs[-1]:
            out.append(segs[-1].split("=")[1])
    return out


def user_nodes(dump: Dict[str, Any]) -> Dict[str, bool]:
    return {n: (v == "G") for n, v in dump.items()
            if not any(s.startswith("metador_") for s in n.split("/"))}


def describe_obj(obj) -> list:
    info = type(obj).Plugin
    d = {k: v for k, v in json.loads(obj.json()).items() if v is not None}
    return ["found", d, str(info.name), [int(x) for x in info.version]]


def observe(env: Dict[str, Any], sample: List[Tuple[str, int]]) -> Dict[str, Any]:
    """Everything the check looks at, on the live container."""
    m, raw = env["m"], env["raw"]
    dump = qlib.dump_raw(raw)
    nodes = user_nodes(dump)
    obs: Dict[str, Any] = {"nodes": {}, "raw_objs": raw_objects(dump), "queries": {}, "uuids": raw_uuids(dump)}
    obs["raw_sig"] = sorted((k, v if isinstance(v, str) else v.decode("latin-1")) for k, v in dump.items())
    view_names = ["/"]
    m.visititems(lambda n, o: view_names.append("/" + n.strip("/")) or None)
    obs["view_names"] = sorted(view_names)
    for name, grp in nodes.items():
        node = m[name]
        meta = node.meta
        ent: Dict[str, Any] = {"grp": grp, "keys": sorted(meta.keys())}
        ent["items"] = sorted([str(sm.schema.name), [int(x) for x in sm.schema.version],
                               json.loads(sm.node[()])] for sm in meta.values())
        per: Dict[str, Any] = {}
        for qi, (s, v) in enumerate(QARGS):
            o: Dict[str, Any] = {}
            try:
                o["in"] = ((s, v) in meta) if v is not None else (s in meta)
            except Exception as e:  # noqa: BLE001
                o["in"] = "raises " + type(e).__name__
            try:
                r = meta.get(s, v)
                o["get"] = ["none"] if r is None else describe_obj(r)
            except vlib.CaseTimeout:
                raise
            except Exception as e:  # noqa: BLE001
                o["get"] = ["err", type(e).__name__, str(e)[:80]]
            if v is None:
                try:
                    r = meta[s]
                    o["item"] = describe_obj(r)
                except KeyError:
                    o["item"] = ["none"]
                except Exception as e:  # noqa: BLE001
                    o["item"] = ["err", type(e).__name__, str(e)[:80]]
            per[str(qi)] = o
        ent["per"] = per
        obs["nodes"][name] = ent
    for name, qi in sample:
        if name not in nodes:
            continue
        s, v = QARGS[qi]
        node = m[name]
        try:
            got = sorted(n.name for n in node.metador.query(s, v))
            if name == "/":
                alt = sorted(n.name for n in m.metador.query(s, v))
                if alt != got:
                    got = ["container-level query differs", got, alt]
        except vlib.CaseTimeout:
            raise
        except Exception as e:  # noqa: BLE001
            got = ["raises", type(e).__name__, str(e)[:80]]
        obs["queries"][f"{name}|{qi}"] = got
    return obs


# ---------------------------------------------------------------------------- oracles (code alone)

def installed_supporting(name: str, ver) -> List[qlib.Ver]:
    return [v for v in versions_of(name) if supports(v, tuple(ver))]


def oracle_step(obs: Dict[str, Any]) -> List[dict]:
    """Oracles (a) and (b) on one observation."""
    bad: List[dict] = []
    raw_objs = obs["raw_objs"]
    names = sorted(obs["nodes"])
    if len(set(obs["uuids"])) != len(obs["uuids"]):
        dup = sorted(u for u in set(obs["uuids"]) if obs["uuids"].count(u) > 1)
        bad.append({"kind": "uuid-dup", "uuids": dup[:3], "sig": {"kind": "uuid-dup"}})
    # (a) queries against the raw dump
    for key, got in obs["queries"].items():
        start, qi = key.split("|")
        s, v = QARGS[int(qi)]
        pre = start.rstrip("/") + "/"
        want = sorted(n for n in names if (n == start or n.startswith(pre))
                      and any(matched_ancestor(s, v, (on, ov)) for on, ov, _ in raw_objs.get(n, [])))
        if got != want:
            bad.append({"kind": "query", "start": start, "schema": s, "version": v, "got": got, "want": want,
                        "sig": {"kind": "query", "extra": sorted(set(map(str, got)) - set(want))[:1] != [],
                                "missing": sorted(set(want) - set(map(str, got)))[:1] != []}})
    # (b) per-node reads
    for n in names:
        ent = obs["nodes"][n]
        objs = raw_objs.get(n, [])
        if sorted(ent["keys"]) != sorted(o[0] for o in objs) or len(set(ent["keys"])) != len(objs):
            bad.append({"kind": "keys", "node": n, "got": ent["keys"], "raw": [o[:2] for o in objs],
                        "sig": {"kind": "keys"}})
        for qi, (s, v) in enumerate(QARGS):
            o = ent["per"][str(qi)]
            matching = [(ob, matched_ancestor(s, v, (ob[0], ob[1]))) for ob in objs]
            matching = [(ob, a) for ob, a in matching if a is not None]
            exact = [(ob, a) for ob, a in matching if ob[0] == s and a == (ob[0], ob[1])]
            if exact:
                matching = exact
            ctx = {"node": n, "schema": s, "version": v, "stored": [list(ob[:2]) for ob in objs]}
            sigbase = {"aux": any(is_aux((s, vv)) for vv in versions_of(s)), "ver_given": v is not None,
                       "via": "self" if exact else "parent"}
            if o["in"] != bool(matching):
                bad.append({"kind": "contains", **ctx, "got": o["in"], "want": bool(matching),
                            "sig": {"kind": "contains", **sigbase}})
            for meth in ("get", "item"):
                if meth not in o:
                    continue
                g = o[meth]
                if not matching:
                    if g != ["none"]:
                        bad.append({"kind": "get", "method": meth, **ctx, "got": g, "want": "nothing",
                                    "sig": {"kind": "get", "problem": "unexpected " + g[0], **sigbase}})
                    continue
                if g[0] == "err":
                    if g[1] == "KeyError" and v is not None and not installed_supporting(s, v):
                        continue        # no installed release can present the requested version
                    bad.append({"kind": "get", "method": meth, **ctx, "got": g,
                                "want": "the stored object" if exact else "a parent-schema view of the stored object",
                                "sig": {"kind": "get", "problem": "raises " + g[1], **sigbase}})
                    continue
                if g[0] == "none":
                    bad.append({"kind": "get", "method": meth, **ctx, "got": g, "want": "an object",
                                "sig": {"kind": "get", "problem": "missing", **sigbase}})
                    continue
                _f, fields, cname, cver = g
                hit = [(ob, a) for ob, a in matching if ob[2] == fields]
                if not hit:
                    bad.append({"kind": "get", "method": meth, **ctx, "got": g,
                                "want": [ob[2] for ob, _ in matching],
                                "sig": {"kind": "get", "problem": "value differs", **sigbase}})
                    continue
                if not any(cname == s and supports(tuple(cver), a[1]) for _ob, a in hit):
                    bad.append({"kind": "get", "method": meth, **ctx, "got": g,
                                "want": f"an instance of a release of {s} supporting {[a for _o, a in hit]}",
                                "sig": {"kind": "get", "problem": "view of an incompatible release", **sigbase}})
    return bad


def oracle_refusal(op: list, cls: str, before: Dict[str, Any], after: Dict[str, Any]) -> List[dict]:
    """Oracle (c) for attach operations."""
    if op[0] != "attach":
        return []
    bad: List[dict] = []
    node = absname(op[1]).rstrip("/") or "/"
    name = op[3]
    had = [o for o in before["raw_objs"].get(node, []) if o[0] == name]
    ver = tuple(op[4]) if op[4] is not None else None
    rels = versions_of(name)
    cand = [v for v in rels if ver is None or supports(v, ver)]
    must_refuse = None
    if node in before["nodes"]:
        if had:
            must_refuse = "a second object of schema " + name
        elif not cand:
            must_refuse = "unknown schema or version"
        elif is_aux((name, max(cand))):
            must_refuse = "auxiliary schema"
    if must_refuse:
        if cls == "ok" or before["raw_sig"] != after["raw_sig"]:
            bad.append({"kind": "refusal", "op": op, "why": must_refuse, "outcome": cls,
                        "raw_changed": before["raw_sig"] != after["raw_sig"],
                        "sig": {"kind": "refusal", "why": must_refuse.split(" ")[0]}})
    elif cls == "ok":
        now = [o for o in after["raw_objs"].get(node, []) if o[0] == name]
        if len(now) != 1:
            bad.append({"kind": "attach-lost", "op": op, "stored": [o[:2] for o in now],
                        "sig": {"kind": "attach-lost"}})
    return bad


def compare_reopen(pre: Dict[str, Any], post: Dict[str, Any]) -> List[dict]:
    bad = []
    if pre["queries"] != post["queries"]:
        k = next(k for k in pre["queries"] if pre["queries"][k] != post["queries"].get(k))
        bad.append({"kind": "reopen-query", "query": k, "live": pre["queries"][k], "reopened": post["queries"].get(k),
                    "sig": {"kind": "reopen-query"}})
    for n, ent in pre["nodes"].items():
        pe = post["nodes"].get(n)
        if pe is None or pe["per"] != ent["per"] or pe["keys"] != ent["keys"] or pe["items"] != ent["items"]:
            bad.append({"kind": "reopen-node", "node": n, "sig": {"kind": "reopen-node"}})
            break
    return bad


# ---------------------------------------------------------------------------- worker

def run_history(task: Dict[str, Any]) -> Dict[str, Any]:
    """Run one history on one driver; observations after every step plus oracle verdicts."""
    import random
    t0 = time.time()
    ops, drv = task["ops"], task["drv"]
    rng = random.Random(task.get("qseed", 0))
    nq = task.get("nq", 10)
    out: Dict[str, Any] = {"drv": drv, "steps": [], "viol": [], "error": None}
    qlib.install_family()
    with vlib.workdir("c07") as d:
        env: Dict[str, Any] = {"drv": drv, "dir": d}
        try:
            with vlib.time_limit(task.get("limit", 240)):
                from metador_core.container import MetadorContainer
                env["raw"] = qlib.open_raw(drv, d)
                env["m"] = MetadorContainer(env["raw"])
                prev = observe(env, [])
                for i, op in enumerate(ops):
                    last = i == len(ops) - 1
                    names = sorted(prev["nodes"])
                    if task.get("all_queries"):
                        sample = None
                    elif last:
                        # every node as start with a few arguments, the root with more ...
                        sample = [(n, qi) for n in names for qi in rng.sample(range(len(QARGS)), min(nq // 2, len(QARGS)))]
                        sample += [("/", qi) for qi in rng.sample(range(len(QARGS)), min(2 * nq, len(QARGS)))]
                        # ... and every schema in use (or an ancestor of one), by name, from every node
                        rel = {a[0] for objs in prev["raw_objs"].values() for on, ov, _ in objs
                               for a in (chain((on, ov)) if (on, ov) in set(all_releases()) else [(on, ov)])}
                        sample += [(n, qi) for n in names for qi, (qs, qv) in enumerate(QARGS) if qv is None and qs in rel]
                    else:
                        sample = [(rng.choice(names + ["/"]), rng.randrange(len(QARGS))) for _ in range(nq)]
                    if sample is not None and task.get("focus"):
                        sample = sample + [(n, qi) for n in names + ["/"] for qi in task["focus"]]
                    pre_obs = None
                    if op[0] == "reopen":
                        sample = sample if sample is not None else [(n, qi) for n in names for qi in range(len(QARGS))]
                        pre_obs = observe(env, sample)
                    cls, err = "ok", None
                    try:
                        apply_op(env, op)
                    except vlib.CaseTimeout:
                        raise
                    except Exception as e:  # noqa: BLE001
                        cls, err = classify(e), f"{type(e).__name__}: {e}"[:200]
                    if sample is None:
                        d0 = qlib.dump_raw(env["raw"])
                        sample = [(n, qi) for n in sorted(user_nodes(d0)) for qi in range(len(QARGS))]
                    elif last and op[0] != "reopen":
                        d0 = qlib.dump_raw(env["raw"])
                        new = [n for n in sorted(user_nodes(d0)) if n not in names]
                        sample += [(n, qi) for n in new for qi in rng.sample(range(len(QARGS)), min(nq // 2, len(QARGS)))]
                        sample += [(n, qi) for n in new for qi, (qs, qv) in enumerate(QARGS) if qv is None and qs in rel]
                    obs = observe(env, sample)
                    viol = oracle_step(obs) + oracle_refusal(op, cls, prev, obs)
                    if pre_obs is not None:
                        viol += compare_reopen(pre_obs, obs)
                    for v in viol:
                        v["step"] = i
                    out["viol"] += viol
                    slim = {k: obs[k] for k in ("nodes", "queries", "view_names")}
                    out["steps"].append({"cls": cls, "err": err, "obs": slim})
                    prev = obs
        except vlib.CaseTimeout:
            out["error"] = "timeout"
        except Exception as e:  # noqa: BLE001
            import traceback
            out["error"] = f"{type(e).__name__}: {e}"[:300] + " | " + traceback.format_exc()[-800:]
        finally:
            try:
                env["raw"].close()
            except Exception:  # noqa: BLE001
                pass
    out["secs"] = round(time.time() - t0, 1)
    return out


def w_run(task):
    return run_history(task)


# ---------------------------------------------------------------------------- comparison with the model

MODEL_RES = {"ok": "ok", "exists": "exists", "unknown": "keyerror", "aux": "aux", "invalid": "invalid",
             "noobj": "keyerror", "nonode": "keyerror"}


def _mver(x) -> List[int]:
    return [int(t) for t in x]


def expected_fields(ops: List[list]) -> Dict[str, Dict[str, Any]]:
    return {f"o{op[7]}": value_fields(op) for op in ops if op[0] == "attach"}


def compare_with_model(ops: List[list], mres: list, got: Dict[str, Any]) -> List[dict]:
    dis: List[dict] = []
    if got["error"]:
        return [{"what": "implementation run did not complete", "error": got["error"]}]
    exp = expected_fields(ops)
    for i, (op, mstep, istep) in enumerate(zip(ops, mres, got["steps"])):
        where = {"step": i, "op": op, "drv": got["drv"]}
        mr, mnodes, mobs = mstep
        want_cls = MODEL_RES.get(mr, "fail")
        icls = istep["cls"]
        if op[0] in ("mk", "del", "move", "copy") and icls != "ok":
            icls = "fail"
        if mr == "badpath":
            want_cls = "fail"
        if mr == "nonode":
            # a missing node: KeyError, or ValueError when the path runs into a dataset (driver
            # difference, property C09) -- any refusal will do
            want_cls = "fail"
            if icls != "ok":
                icls = "fail"
        if icls != want_cls:
            dis.append({**where, "what": "outcome", "model": mr, "impl": istep["cls"], "err": istep["err"]})
            break
        obs = istep["obs"]
        # nodes and attached objects
        mview = {}
        for p, grp, metas in mnodes:
            mview[absname(p)] = [grp == "T", sorted([r[0], _mver(r[1]), tok] for r, _u, tok in metas)]
        iview = {}
        for n, ent in obs["nodes"].items():
            iview[n] = [ent["grp"], ent["items"]]
        if sorted(mview) != sorted(iview) or sorted(mview) != obs["view_names"]:
            dis.append({**where, "what": "node set", "model": sorted(mview), "impl": sorted(iview),
                        "visit": obs["view_names"]})
            break
        stop = False
        for n in mview:
            mg, mm = mview[n]
            ig, im = iview[n]
            ok = mg == ig and len(mm) == len(im)
            if ok:
                for (sn, sv, tok), (isn, isv, fields) in zip(mm, im):
                    e = exp[tok]
                    if (sn, sv) != (isn, isv) or any(fields.get(k) != x for k, x in e.items()):
                        ok = False
            if ok and sorted(x[0] for x in mm) != obs["nodes"][n]["keys"]:
                ok = False
            if not ok:
                dis.append({**where, "what": "objects at node", "node": n, "model": mm, "impl": im,
                            "keys": obs["nodes"][n]["keys"]})
                stop = True
                break
        if stop:
            break
        # per-node reads and queries
        for p, perq in mobs:
            n = absname(p)
            ent = obs["nodes"][n]
            for qi, (mq, mb, mc, mgets, _mpin) in enumerate(perq):
                s, v = QARGS[qi]
                mqs, mbs = sorted(absname(x) for x in mq), sorted(absname(x) for x in mb)
                if mqs != mbs:
                    dis.append({**where, "what": "model query differs from model brute (theorem C07_query_exact!)",
                                "start": n, "schema": s, "version": v, "query": mqs, "brute": mbs})
                key = f"{n}|{qi}"
                if key in obs["queries"] and obs["queries"][key] != mqs:
                    dis.append({**where, "what": "query", "start": n, "schema": s, "version": v,
                                "model": mqs, "impl": obs["queries"][key]})
                o = ent["per"][str(qi)]
                if o["in"] != (mc == "T"):
                    dis.append({**where, "what": "contains", "node": n, "schema": s, "version": v,
                                "model": mc, "impl": o["in"]})
                for meth in ("get", "item"):
                    if meth not in o:
                        continue
                    g = o[meth]
                    okg = False
                    if not mgets:
                        okg = g == ["none"]
                    for mg_ in mgets:
                        if mg_[0] == "found" and g[0] == "found":
                            (_r, _u, tok), cls_ = mg_[1], mg_[2]
                            e = exp[tok]
                            if (g[2], g[3]) == (cls_[0], _mver(cls_[1])) and all(g[1].get(k) == x for k, x in e.items()):
                                okg = True
                        elif mg_[0] == "err" and g[0] == "err" and g[1] == "KeyError":
                            okg = True
                    if not okg:
                        dis.append({**where, "what": meth, "node": n, "schema": s, "version": v,
                                    "model": mgets, "impl": g})
            if len(dis) > 5:
                break
        if dis:
            break
    return dis


def sanitize(ops: List[list], mres: list) -> bool:
    """Flip the first copy of a metadata-less dataset 'with metadata' to 'without'; True if changed."""
    for i, op in enumerate(ops):
        if op[0] == "copy" and not op[4] and i > 0:
            for p, grp, metas in mres[i - 1][1]:
                if p == op[1] and grp == "F" and not metas:
                    op[4] = True
                    return True
    return False


# ---------------------------------------------------------------------------- shrinking

def _focus_of(v: Optional[dict]) -> List[int]:
    """Index of the query argument a recorded query violation is about."""
    if v and v.get("kind") in ("query", "reopen-query"):
        try:
            if v["kind"] == "query":
                ver = tuple(v["version"]) if v.get("version") is not None else None
                return [QARGS.index((v["schema"], ver))]
            return [int(v["query"].split("|")[1])]
        except (ValueError, KeyError, IndexError):
            return []
    return []


def _viol_kinds(ops, drv, focus=()):
    r = run_history({"ops": ops, "drv": drv, "nq": 0, "limit": 120, "focus": list(focus)})
    if r["error"]:
        return []
    return r["viol"]


def w_shrink(job) -> list:
    ops, drv, sig, focus = job

    def fails(cand):
        try:
            return any(v["sig"] == sig for v in _viol_kinds(cand, drv, focus))
        except Exception:  # noqa: BLE001
            return False

    small = vlib.ddmin(list(ops), fails, budget=60)
    return small


def canon_ops(ops: List[list]) -> list:
    """Operation kinds with schema releases; paths renamed by first occurrence."""
    ren: Dict[str, str] = {}

    def rp(p):
        return [ren.setdefault(s, f"n{len(ren)}") for s in p]
    out = []
    for op in ops:
        k = op[0]
        if k == "attach":
            out.append([k, rp(op[1]), op[2], op[3], op[4], op[5], op[6]])
        elif k == "detach":
            out.append([k, rp(op[1]), op[2]])
        elif k == "mk":
            out.append([k, rp(op[1] + [op[2]]), op[3]])
        elif k == "del":
            out.append([k, rp(op[1])])
        elif k in ("move", "copy"):
            out.append([k, rp(op[1]), rp(op[2] + [op[3]])] + ([op[4]] if k == "copy" else []))
        else:
            out.append([k])
    return out


# ---------------------------------------------------------------------------- run

def run(ctx: vlib.Ctx):
    proof = ctx.check_proofs()
    cov = ctx.coverage
    cov["trusted_base"] = vlib.TRUSTED_COMMON + [
        "modelled, not verified: the schema environment is an abstract table (parent pointer, auxiliary flag, registration "
        "order) -- PGSchema's loading, pydantic validation/parsing of values and parent views (property C13; the model takes "
        "the list of releases accepting a value as an input and returns the stored value with the release used for the view), "
        "PluginGroup.resolve (model of C16, reused); h5py/IH5 node semantics for create/delete/move/copy (properties C01/C09) "
        "modelled as a flat path table; TOC links (property C06: 'last object of a schema removed' is decided by counting the "
        "stored objects); uuid freshness is a counter",
        "harness-registered schema family in the live `schema` plugin group with a fabricated providing package "
        "(harness/qlib.py); nothing is written to /repo",
    ]
    n_hist = ctx.budget(22, 200)
    n_ops = ctx.budget(10, 14)
    hists = pattern_histories()
    for i in range(n_hist):
        hists.append(gen_history(ctx.rng, n_ops + ctx.rng.randrange(0, 6), seed0=100 * (i + 1)))
    n_reuse = ctx.budget(12, 120)
    for i in range(n_reuse):
        hists.append(gen_reuse_history(ctx.rng, seed0=100 * (n_hist + i + 1)))
    # corpus of recorded violations is run first
    corpus = []
    for f in sorted((vlib.VERIF / "corpus" / "C07").glob("*.json")) if (vlib.VERIF / "corpus" / "C07").exists() else []:
        try:
            corpus.append(json.loads(f.read_text())["ops"])
        except Exception:  # noqa: BLE001
            pass
    hists = corpus + hists
    env = env_sx()
    mq = [[s, [] if v is None else list(v)] for s, v in QARGS]
    mcases = [[env, model_ops(h), mq] for h in hists]
    t0 = time.time()
    mres = vlib.run_model("c07", mcases, chunk=4)
    # copying a dataset that carries no metadata "with metadata" raises after the raw copy (C08 side
    # finding, not C07): such operations are turned into copies without metadata (decided on the model
    # state before the operation), then the model is run again on the changed histories
    changed = [hi for hi, h in enumerate(hists) if sanitize(h, mres[hi])]
    for _ in range(6):
        if not changed:
            break
        for hi in changed:
            mcases[hi] = [env, model_ops(hists[hi]), mq]
        sub = vlib.run_model("c07", [mcases[hi] for hi in changed], chunk=4)
        for hi, r in zip(changed, sub):
            mres[hi] = r
        changed = [hi for hi in changed if sanitize(hists[hi], mres[hi])]
    t_model = time.time() - t0
    tasks = []
    for hi, h in enumerate(hists):
        for drv in ("h5", "ih5"):
            tasks.append({"ops": h, "drv": drv, "qseed": ctx.seed + hi, "nq": ctx.budget(8, 12), "hi": hi,
                          "limit": 300})
    order = list(range(len(tasks)))
    ctx.rng.shuffle(order)
    res_shuf = vlib.pmap(w_run, [tasks[i] for i in order])
    results: List[Any] = [None] * len(tasks)
    for i, r in zip(order, res_shuf):
        results[i] = r
    # a time-out under load is re-run alone before anything is concluded from it
    for i, r in enumerate(results):
        if r["error"] == "timeout":
            results[i] = run_history({**tasks[i], "limit": 900})

    disagreements: List[dict] = []
    evals = 0
    nontrivial = set()
    op_hist: Dict[str, int] = {}
    res_hist: Dict[str, int] = {}
    nq_total = 0
    nq_nonempty = 0
    reported: Dict[str, dict] = {}
    errors = []
    for task, r in zip(tasks, results):
        h = hists[task["hi"]]
        if r["error"]:
            errors.append({"hi": task["hi"], "drv": task["drv"], "error": r["error"]})
            continue
        dis = compare_with_model(h, mres[task["hi"]], r)
        if dis and len(disagreements) < 30:
            disagreements.append({"hi": task["hi"], "ops": h, **dis[0]})
        for st, op in zip(r["steps"], h):
            evals += 1
            op_hist[op[0]] = op_hist.get(op[0], 0) + 1
            res_hist[st["cls"]] = res_hist.get(st["cls"], 0) + 1
            for k, q in st["obs"]["queries"].items():
                nq_total += 1
                if q:
                    nq_nonempty += 1
                    nontrivial.add((k.split("|")[1], json.dumps(q)))
            evals += len(st["obs"]["queries"]) + sum(len(e["per"]) for e in st["obs"]["nodes"].values())
        for v in r["viol"]:
            key = json.dumps(v["sig"], sort_keys=True)
            if key not in reported or len(h) < len(reported[key]["ops"]):
                reported[key] = {"ops": h, "drv": task["drv"], "viol": v}
    # shrink and report each distinct oracle failure
    jobs = [(x["ops"], x["drv"], x["viol"]["sig"], _focus_of(x["viol"])) for x in reported.values()]
    smalls = vlib.pmap(w_shrink, jobs) if jobs else []
    for (key, x), small in zip(reported.items(), smalls):
        vs = [v for v in _viol_kinds(small, x["drv"], _focus_of(x["viol"])) if v["sig"] == x["viol"]["sig"]] or [x["viol"]]
        v = vs[0]
        what = describe(v)
        ctx.violation(what, {"kind": v["kind"], "ops": small, "drv": x["drv"], "violation": v, "qargs_index": "harness/props/c07.py QARGS"},
                      sig_obj={"sig": v["sig"], "ops": canon_ops(small)})
    for s in (0, 1, 2):
        if len(mcases) > s:
            ctx.sample({"ops": hists[s][:6], "model_first_step": mres[s][0][:2]}, limit=3)
    xc_idx = [i for i, h in enumerate(hists) if len(h) <= 10][:ctx.budget(3, 8)]
    xc_cases = [[env, model_ops(hists[i][:5]), mq[:6]] for i in xc_idx]
    xc_res = vlib.run_model("c07", xc_cases)
    xc = vlib.coq_crosscheck("c07", xc_cases, xc_res, "c07", max_cases=len(xc_cases))
    if not xc["ok"]:        # other builders compile concurrently: rebuild once and retry
        vlib.ensure_built(need=["Properties/C07.vo"])
        xc = vlib.coq_crosscheck("c07", xc_cases, xc_res, "c07", max_cases=len(xc_cases))

    cov["evaluations"] = evals
    cov["distinct_nontrivial"] = len(nontrivial)
    cov["rule"] = ("evaluations = history steps + per-node in/get/[] reads + container/group queries compared; distinct "
                   "non-trivial = distinct (query argument, non-empty result set) pairs observed on the code")
    cov["exhaustive"] = False
    cov["input_distribution"] = {
        "histories": len(hists), "drivers": ["h5py.File", "IH5Record"], "ops": op_hist, "outcomes": res_hist,
        "query_args": len(QARGS), "queries_run": nq_total, "queries_nonempty": nq_nonempty,
        "family_releases": len(qlib.FAMILY), "installed": [r[0] for r in qlib.INSTALLED],
        "model_seconds": round(t_model, 1),
        "impl_seconds_max": max([r["secs"] for r in results if r.get("secs")] or [0]),
    }
    cov["coq_crosscheck"] = xc
    cov["disagreements"] = len(disagreements)
    cov["harness_errors"] = errors[:5]
    ctx.assumptions += [
        "the schema environment does not change during a history (same plugins before and after re-opening)",
        "values are generated valid instances; validation itself is property C13",
        "copying a dataset that carries no metadata with metadata requested is avoided (raises after the copy: C08 side finding)",
    ]
    if errors:
        ctx.violation("implementation runs did not complete: " + errors[0]["error"][:300],
                      {"kind": "harness-error", "errors": errors[:5], "correspondence": "harness/props/c07.py run_history"},
                      found_input=False)
    if not xc["ok"]:
        ctx.violation("extracted runner and in-Coq evaluation of the model disagree (stale or wrong extraction)",
                      {"kind": "crosscheck", "xc": xc}, found_input=False)
    if not proof["ok"]:
        ctx.violation("proof obligations of Properties/C07.v do not check: " + "; ".join(proof["problems"])[:500],
                      {"kind": "proof", "theorem_file": "coq/Properties/C07.v", "problems": proof["problems"]},
                      found_input=False)
    if disagreements and not ctx.violations and not ctx.known_hits:
        ctx.violation("model/implementation correspondence broken but the property oracles found no failing input",
                      {"kind": "correspondence", "correspondence": "coq/Toc/Query.v run_c07 vs metador_core.container.interface",
                       "smallest_disagreement": min(disagreements, key=lambda d: len(d["ops"])),
                       "count": len(disagreements)}, found_input=False)
    elif disagreements:
        ctx.notes.append(f"{len(disagreements)} model/impl disagreements (first: {json.dumps(disagreements[0], default=str)[:600]})")
    # generated tie: TOCSchemas.versions is re-translated from the current source and proved equal to
    # Toc/Query.v `tversions` (coq/Gen/Equiv_tocschemas.v)
    gentie.report(ctx)


def describe(v: dict) -> str:
    k = v["kind"]
    if k == "get":
        return (f"{v['method']}({v['schema']}, {v['version']}) at {v['node']} holding {v['stored']}: got {v['got']}, "
                f"expected {v['want']}")
    if k == "query":
        return f"query({v['schema']}, {v['version']}) from {v['start']}: got {v['got']}, raw scan says {v['want']}"
    if k == "contains":
        return f"({v['schema']}, {v['version']}) in meta at {v['node']} holding {v['stored']}: got {v['got']}, expected {v['want']}"
    if k == "refusal":
        return f"attach that must be refused ({v['why']}): outcome {v['outcome']}, raw changed: {v['raw_changed']}"
    if k.startswith("reopen"):
        return f"answers differ between the live and the re-opened container: {json.dumps(v, default=str)[:300]}"
    return json.dumps(v, default=str)[:300]


def replay(rep) -> int:
    """Re-run the recorded history on the current tree and evaluate the oracles."""
    vlib._pool_init()
    if "ops" not in rep:
        print("replay names a proof obligation or correspondence; re-run the check itself")
        return 1
    drvs = [rep["drv"]] if rep.get("drv") else ["h5", "ih5"]
    want = (rep.get("violation") or {}).get("sig")
    bad = 0
    for drv in drvs:
        r = run_history({"ops": rep["ops"], "drv": drv, "nq": 0, "limit": 300,
                         "focus": _focus_of(rep.get("violation"))})
        if r["error"]:
            print(drv, "run failed:", r["error"])
            bad = 1
            continue
        vs = [v for v in r["viol"] if want is None or v["sig"] == want] or r["viol"]
        for v in vs[:4]:
            print(f"[{drv}] step {v['step']}: {describe(v)}")
        bad = bad or (1 if vs else 0)
    print("still failing" if bad else "no longer failing")
    return bad
