"""C14 — merging partial metadata is a lossless, associative, non-mutating monoid.

Correspondence: families of real schema classes are generated (MetadataSchema subclasses,
harvester-argument models and plain pydantic models under their own PartialFactory;
optional primitives incl. falsy values, lists, sets, lists/sets of models, nested,
recursive, inheritance chains) and a few installed schemas are taken as they are.  Per class
a pool of partial instances is obtained in every way the library produces them
(parse_obj, parse_raw JSON/YAML, parse_file, to_partial(complete), to_partial(ignore_invalid),
constructor, construct, harvester output through harvest(), results of earlier merges).
Every ordered pair and every triple of the pool is merged with the real `merge_with` in
both overwrite modes; operands and results are abstracted to the positional values of
coq/Schema/Partial.v (atoms interned to integers, falsy ones to numbers <= 0) and compared
with the extracted Gallina model (`pool`, `fp`, `fold`, `tri` cases of `run_c14`).

Oracle (code alone, no model): identity, associativity of outcomes, the field-wise laws
(nothing dropped, list concatenation, set union, nested recursion, refusal exactly on a
conflict without overwrite permission, later value with it), complete -> partial -> complete,
`merge(*xs)` = left fold, harvest(sources) = that fold (then completed) and raises on two
sources providing one atomic place, to_partial/merge_with(ignore_invalid=True) keep exactly the
valid fields, and operand snapshots before/after for non-mutation.
"""
from __future__ import annotations

import copy
import json
import sys
import types
from typing import Any, Dict, List, Optional, Tuple

import vlib

PRIMS = ["int", "float", "bool", "str", "union"]
FALSY = {"int": 0, "float": 0.0, "bool": False, "str": "", "union": 0}
BASES = ["schema", "schema", "schema", "plain", "args"]
WAYS_PLUS = ["obj", "json", "yaml", "file", "complete", "ctor", "construct", "ignore_invalid", "harvest", "sub"]
WAYS_PLAIN = ["obj", "json", "complete", "ctor", "construct", "ignore_invalid", "sub"]
MAX_REPORT = 8


# ======================================================================================
# family specifications (pure data; generated in the main process from ctx.rng)

def gen_family(rng, fid: int, base: str) -> Dict[str, Any]:
    """A family: element class E, nested chain L0 < L1 [< L2], Top [< TopSub]."""
    strs_ok_empty = base == "plain"          # MetadataSchema / BaseModelPlus forbid ""
    nfield = [0]

    def fields(n, kinds=("opt",), types_=None, allow_nested=()):
        out = []
        for _ in range(n):
            nfield[0] += 1
            tkind = rng.choice(types_ or ["prim", "prim", "list", "set"])
            if tkind == "prim":
                t = [rng.choice(PRIMS)]
            elif tkind == "list":
                t = ["list", rng.choice(["int", "str"])]
            elif tkind == "set":
                t = ["set", rng.choice(["int", "str"])]
            else:
                t = list(tkind)
            kind = rng.choice(kinds)
            f = {"name": f"f{nfield[0]}", "kind": kind, "type": t}
            if kind == "dflt":
                if t[0] == "list":
                    f["default"] = ["l", []]
                elif t[0] == "set":
                    f["default"] = ["s", []]
                else:
                    f["default"] = ["a", _prim_value(rng, t[0], strs_ok_empty, falsy_p=0.5)]
            out.append(f)
        return out

    classes = []
    classes.append({"name": "E", "parent": None, "fields": [
        {"name": "ea", "kind": "opt", "type": ["int"]}, {"name": "es", "kind": "opt", "type": ["str"]}]})
    # chains of three only under MetadataSchema (Extra.allow): a merge result is an instance of the
    # left class carrying the attributes of the right operand's subclass, and converting it into a
    # class in the middle of the chain (dict()/parse_obj) keeps those only if extras are allowed
    chain_len = rng.choice([1, 2, 2, 3]) if base == "schema" else rng.choice([1, 2, 2])
    # elements of lists are compared as opaque values: their class gets no defaulted fields
    lm_cls = rng.choice(["E", "L0"])
    l0 = fields(rng.randint(1, 3), kinds=("opt", "opt", "opt", "req") + (("dflt",) if lm_cls == "E" else ()))
    if rng.random() < 0.5:
        l0.append({"name": "le", "kind": "opt", "type": ["listm", "E"]})
    classes.append({"name": "L0", "parent": None, "fields": l0})
    for k in range(1, chain_len):
        classes.append({"name": f"L{k}", "parent": f"L{k-1}", "fields": fields(rng.randint(1, 2))})
    top = fields(rng.randint(2, 5), kinds=("opt", "opt", "opt", "opt", "req", "dflt"))
    # falsy-capable primitives of every kind are always present
    for p in PRIMS[:4]:
        nfield[0] += 1
        top.append({"name": f"p{p}", "kind": "opt", "type": [p]})
    top.append({"name": "nest", "kind": "opt", "type": ["obj", "L0"]})
    if rng.random() < 0.4:
        top.append({"name": "nreq", "kind": "req", "type": ["obj", "L0"]})
    if chain_len > 1 and rng.random() < 0.5:
        top.append({"name": "nmid", "kind": "opt", "type": ["obj", "L1"]})
    top.append({"name": "lm", "kind": "opt", "type": ["listm", lm_cls]})
    # a subclass of the top class only under MetadataSchema: converting a base-class partial into
    # the subclass partial goes through dict()/parse_obj, which under pydantic's default
    # Extra.ignore (plain) / Extra.forbid (harvester arguments) cannot carry instances of
    # subclasses at nested positions
    has_sub = base == "schema" and rng.random() < 0.7
    # sets of models: complete instances must be hashable - frozen plain models and frozen
    # harvester-argument models are; MetadataSchema forbids changing `frozen`, so there a
    # Set[Schema] field can only ever hold *partial* instances (parsed), and dict()/from_partial/
    # complete construction raise TypeError: such a field is generated only without a subclass
    # of the top class (the conversion base -> subclass partial goes through dict())
    if base in ("plain", "args") or (not has_sub and rng.random() < 0.6):
        top.append({"name": "sm", "kind": "opt", "type": ["setm", "E"]})
    if rng.random() < 0.7:
        top.append({"name": "rec", "kind": "opt", "type": ["obj", "Top"]})
    rng.shuffle(top)
    classes.append({"name": "Top", "parent": None, "fields": top})
    if has_sub:
        classes.append({"name": "TopSub", "parent": "Top", "fields": fields(rng.randint(1, 2))})
    return {"kind": "generated", "id": fid, "base": base, "classes": classes, "top": "Top"}


def _prim_value(rng, p: str, empty_str_ok: bool, falsy_p: float = 0.35):
    if rng.random() < falsy_p and (p != "str" or empty_str_ok):
        return FALSY[p]
    if p == "int":
        return rng.choice([1, 2, 7, -3, 0])
    if p == "float":
        return rng.choice([1.5, 2.25, -0.5, 0.0])
    if p == "bool":
        return rng.choice([True, False])
    if p == "str":
        return rng.choice(["a", "b", "xy", "q r"])
    return rng.choice([3, "u", 0, "vv"])


# ---- installed schemas: hand-written contents (field names, not aliases)

def _qv(v, unit=None):
    f = {"value": ["a", v]}
    if unit:
        f["unitText"] = ["a", unit]
    return f


def installed_families() -> List[Dict[str, Any]]:
    px = lambda v, **kw: ["o", {"cls": None, "f": dict(_qv(v), **kw)}]    # noqa: E731
    person = lambda **kw: {"cls": None, "f": {k: ["a", v] for k, v in kw.items()}}   # noqa: E731
    img = [
        {},
        {"filename": ["a", "a.png"], "contentSize": ["a", 0], "sha256": ["a", "sha256:00"],
         "encodingFormat": ["a", "image/png"], "width": px(0), "height": px(10)},
        {"contentSize": ["a", 0]},
        {"width": px(0)},
        {"width": ["o", {"cls": None, "f": {"unitText": ["a", "px"]}}], "keywords": ["s", ["k1"]]},
        {"keywords": ["s", ["k2", "k1"]], "alternateName": ["l", ["x"]]},
        {"alternateName": ["l", []], "keywords": ["s", []]},
        {"alternateName": ["l", ["y", "x"]], "name": ["a", "n1"], "copyrightYear": ["a", 0]},
        {"height": px(10, description=["a", "tall"]), "description": ["a", "d"]},
        {"filename": ["a", "b.png"], "contentSize": ["a", 5], "sha256": ["a", "sha256:11"],
         "encodingFormat": ["a", "image/jpeg"], "width": px(3), "height": px(0)},
    ]
    bib = [
        {},
        {"name": ["a", "T"], "abstract": ["a", "A"], "dateCreated": ["a", "2020-01-02"],
         "author": ["lm", [person(name="P1"), person(name="P2", givenName="G", familyName="F")]]},
        {"author": ["lm", []]},
        {"author": ["lm", [person(name="P3")]], "keywords": ["s", ["k"]]},
        {"keywords": ["s", []], "copyrightYear": ["a", 0], "version": ["a", 0]},
        {"version": ["a", 1], "alternateName": ["l", ["alt"]]},
        {"name": ["a", "T2"], "abstract": ["a", "A2"], "dateCreated": ["a", "2021-05-06"],
         "author": ["lm", [person(name="P1")]], "hasPart": ["s", []]},
        {"description": ["a", "dd"]},
    ]
    instr = [
        {},
        {"instrumentName": ["a", "I"], "instrumentModel": ["a", "M"]},
        {"instrumentManufacturer": ["o", {"cls": None, "f": {"name": ["a", "Org"]}}]},
        {"instrumentManufacturer": ["o", {"cls": None, "f": {"description": ["a", "dsc"]}}]},
        {"instrumentName": ["a", "I"], "instrumentModel": ["a", "M2"],
         "instrumentManufacturer": ["o", {"cls": None, "f": {"name": ["a", "Org2"], "alternateName": ["l", []]}}]},
        {"instrumentModel": ["a", "M3"]},
    ]
    return [
        {"kind": "installed", "id": "core.imagefile", "base": "schema", "schema": "core.imagefile", "contents": img},
        {"kind": "installed", "id": "core.bib", "base": "schema", "schema": "core.bib", "contents": bib},
        {"kind": "installed", "id": "example.matsci.instrument", "base": "schema",
         "schema": "example.matsci.instrument", "contents": instr},
    ]


# ======================================================================================
# worker side: real classes

class Fam:
    """Real classes of a family plus the layout used by the abstraction."""

    def __init__(self, spec):
        self.spec = spec
        self.base = spec["base"]
        self.cls: Dict[str, Any] = {}          # key -> complete class
        self.own: Dict[str, List[dict]] = {}   # key -> all fields (inherited first)
        self.child: Dict[str, Optional[str]] = {}
        self.tab: Dict[Tuple[str, str], int] = {}
        self.npos = 0
        self.nneg = 0
        self.rev: Dict[int, str] = {}
        self.content_of: Dict[int, int] = {}    # set element (class, content) -> content only
        if spec["kind"] == "generated":
            self._build_generated()
        else:
            self._build_installed()

    # ---- generated
    def _build_generated(self):
        from typing import List as TList, Optional as TOpt, Set as TSet, Union as TUnion
        spec = self.spec
        modname = f"c14fam_{spec['id']}"
        mod = types.ModuleType(modname)
        sys.modules[modname] = mod
        if self.base == "schema":
            from metador_core.schema.core import MetadataSchema
            root = MetadataSchema
        elif self.base == "args":
            from metador_core.harvester import HarvesterArgs, HarvesterArgsPartial
            root = HarvesterArgs
            self.factory = HarvesterArgsPartial
        else:
            from pydantic import BaseModel
            from metador_core.schema.partial import PartialFactory

            class PlainBase(BaseModel):
                class Config:
                    frozen = True
            PlainBase.__module__ = modname

            class PlainFactory(PartialFactory):
                base_model = PlainBase
            root = PlainBase
            self.factory = PlainFactory
        prim = {"int": int, "float": float, "bool": bool, "str": str, "union": TUnion[int, str]}

        def hint(t):
            if t[0] in prim:
                return prim[t[0]]
            if t[0] == "list":
                return TList[prim[t[1]]]
            if t[0] == "set":
                return TSet[prim[t[1]]]
            if t[0] == "listm":
                return TList[mod.__dict__.get(t[1], t[1])]
            if t[0] == "setm":
                return TSet[mod.__dict__.get(t[1], t[1])]
            return mod.__dict__.get(t[1], t[1])     # forward reference by name

        for c in spec["classes"]:
            parent = mod.__dict__[c["parent"]] if c["parent"] else root
            ann, ns = {}, {"__module__": modname}
            for f in c["fields"]:
                h = hint(f["type"])
                if f["kind"] == "opt":
                    ann[f["name"]] = TOpt[h]
                else:
                    ann[f["name"]] = h
                    if f["kind"] == "dflt":
                        ns[f["name"]] = self._default_value(f["default"])
            ns["__annotations__"] = ann
            if self.base == "args" and c["name"] == "E":
                ns["Config"] = type("Config", (root.Config,), {"frozen": True})
            cls = type(parent)(c["name"], (parent,), ns)
            setattr(mod, c["name"], cls)
            self.cls[c["name"]] = cls
            inherited = self.own[c["parent"]] if c["parent"] else []
            self.own[c["name"]] = inherited + c["fields"]
            self.child[c["name"]] = None
            if c["parent"]:
                self.child[c["parent"]] = c["name"]
        for cls in self.cls.values():
            cls.update_forward_refs(**mod.__dict__)
        self.top = spec["top"]

    @staticmethod
    def _default_value(d):
        if d[0] == "l":
            return list(d[1])
        if d[0] == "s":
            return set(d[1])
        return d[1]

    # ---- installed: layout by introspection
    def _build_installed(self):
        from metador_core.plugins import schemas
        from metador_core.plugin.metaclass import UndefVersion
        S = schemas[self.spec["schema"]]
        S = UndefVersion._unwrap(S) or S
        self.top = self._intro(S)

    def _intro(self, K) -> str:
        import typing
        from typing_extensions import Annotated, get_args, get_origin
        from metador_core.schema.core import SchemaBase
        key = f"{K.__module__}.{K.__qualname__}"
        if key in self.cls:
            return key
        self.cls[key] = K
        self.child[key] = None
        self.own[key] = []
        consts = set(getattr(K, "__constants__", {}) or {})
        hints = K._typehints
        out = []
        for fname, fld in K.__fields__.items():
            if fname.startswith("_") or fname in consts:
                continue
            h = hints.get(fname)
            if get_origin(h) is Annotated:
                h = get_args(h)[0]
            if get_origin(h) is typing.Union:
                args = [a for a in get_args(h) if a is not type(None)]
                if len(args) == 1:
                    h = args[0]
            org = get_origin(h)
            t = ["atom"]
            if org in (list, typing.List):
                (e,) = get_args(h)
                t = ["listm", self._intro(e)] if isinstance(e, type) and issubclass(e, SchemaBase) else ["list", "atom"]
            elif org in (set, typing.Set, frozenset):
                (e,) = get_args(h)
                t = ["setm", self._intro(e)] if isinstance(e, type) and issubclass(e, SchemaBase) else ["set", "atom"]
            elif isinstance(h, type) and issubclass(h, SchemaBase):
                t = ["obj", self._intro(h)]
            if fld.required:
                f = {"name": fname, "kind": "req", "type": t}
            elif fld.default is None:
                f = {"name": fname, "kind": "opt", "type": t}
            else:
                f = {"name": fname, "kind": "dflt", "type": t, "default_obj": fld.default}
            out.append(f)
        self.own[key] = out
        return key

    # ---- common
    def partial(self, key):
        if self.base == "schema":
            return self.cls[key].Partial
        return self.factory.get_partial(self.cls[key])

    def deepest(self, key) -> str:
        while self.child.get(key):
            key = self.child[key]
        return key

    def layout(self, key) -> List[dict]:
        return self.own[self.deepest(key)]

    def chain(self, key) -> List[str]:
        out = [key]
        while self.child.get(out[-1]):
            out.append(self.child[out[-1]])
        return out

    # ---- interning
    def atom(self, v) -> int:
        k = (type(v).__name__, repr(v))
        n = self.tab.get(k)
        if n is None:
            if bool(v):
                self.npos += 1
                n = self.npos
            else:
                n = -self.nneg
                self.nneg += 1
            self.tab[k] = n
            self.rev[n] = repr(v)
        return n

    def elem(self, sx: str, shown: str = "") -> int:
        k = ("obj", sx)
        n = self.tab.get(k)
        if n is None:
            self.npos += 1
            n = self.tab[k] = self.npos
            self.rev[n] = shown or sx
        return n

    def pretty(self, p, key=None) -> str:
        """Readable form of an abstract value: provided fields by name, real values."""
        if isinstance(p, str):
            return {"R": "raises ValueError"}.get(p, p)
        if isinstance(p, int):
            return self.rev.get(p, str(p))
        tag, body = p
        if tag == "o":
            lay = self.layout(key or self.top)
            parts = []
            for f, x in zip(lay, body):
                if x is not None:
                    parts.append(f"{f['name']}={self.pretty(x, f['type'][1] if f['type'][0] == 'obj' else None)}")
            return "{" + ", ".join(parts) + "}"
        inner = ", ".join(self.rev.get(x, str(x)) for x in body)
        return "[" + inner + "]" if tag == "l" else "set(" + inner + ")"

    # ---- abstraction of real objects to pval (python form)
    def abs_obj(self, o, key):
        lay = self.layout(key)
        d = o.__dict__
        consts = getattr(type(o), "__constants__", None) or ()
        names = {f["name"] for f in lay}
        for k in d:
            if not k.startswith("_") and k not in names and k not in consts:
                raise AbstractionError(f"unexpected attribute {k!r} on {type(o).__name__}")
        out = []
        for f in lay:
            v = d.get(f["name"])
            out.append(None if v is None else self.abs_val(v, f["type"]))
        return ("o", out)

    def abs_val(self, v, t):
        k = t[0]
        if k in ("list", "listm"):
            if not isinstance(v, list):
                raise AbstractionError(f"list field holds {type(v).__name__}")
            return ("l", [self._el(x, t) for x in v])
        if k in ("set", "setm"):
            if not isinstance(v, (set, frozenset)):
                raise AbstractionError(f"set field holds {type(v).__name__}")
            return ("s", sorted({self._el(x, t) for x in v}))
        if k == "obj":
            if not hasattr(v, "__fields__"):
                raise AbstractionError(f"model field holds {type(v).__name__}")
            return self.abs_obj(v, t[1])
        return self.atom(v)

    def _el(self, x, t):
        if t[0] == "listm":
            a = self.abs_obj(x, t[1])
            return self.elem(vlib.sx_dumps(to_sx(a)), self.pretty(a, t[1]))
        if t[0] == "setm":
            # Python's set identifies elements by hash and ==: for pydantic models == compares
            # the field dicts, the hash of a frozen model includes the class - so the identity
            # of a set element is (class, field values); a complete E(a=1) and a partial
            # E.PartialModel(a=1) are two elements
            a = self.abs_obj(x, t[1])
            sx = vlib.sx_dumps(to_sx(a))
            n = self.elem(type(x).__name__ + ":" + sx, type(x).__name__ + self.pretty(a, t[1]))
            self.content_of[n] = self.elem("content:" + sx, self.pretty(a, t[1]))
            return n
        return self.atom(x)

    def norm_sets(self, p, key):
        """Set elements reduced to their content (what from_partial makes of them)."""
        if not (isinstance(p, tuple) and p[0] == "o"):
            return p
        out = []
        for f, x in zip(self.layout(key), p[1]):
            if x is None:
                out.append(None)
            elif f["type"][0] == "setm":
                out.append(("s", sorted({self.content_of.get(e, e) for e in x[1]})))
            elif f["type"][0] == "obj":
                out.append(self.norm_sets(x, f["type"][1]))
            else:
                out.append(x)
        return ("o", out)

    def has_model_set(self, p, key) -> bool:
        if not (isinstance(p, tuple) and p[0] == "o"):
            return False
        for f, x in zip(self.layout(key), p[1]):
            if x is None:
                continue
            if f["type"][0] == "setm" and x[1]:
                return True
            if f["type"][0] == "obj" and self.has_model_set(x, f["type"][1]):
                return True
        return False

    # ---- field type of a position as sx
    def ty_sx(self, key, depth: int):
        if depth <= 0:
            return "a"
        out = []
        for f in self.layout(key):
            t = f["type"]
            if t[0] in ("list", "listm"):
                ts = "l"
            elif t[0] in ("set", "setm"):
                ts = "s"
            elif t[0] == "obj":
                ts = self.ty_sx(t[1], depth - 1)
            else:
                ts = "a"
            if f["kind"] == "req":
                ks = "r"
            elif f["kind"] == "opt":
                ks = "o"
            else:
                ks = ["d", to_sx(self.default_pval(f))]
            out.append([ks, ts])
        return ["o", out]

    def default_pval(self, f):
        if "default_obj" in f:
            return self.abs_val(f["default_obj"], f["type"])
        d = f["default"]     # generated defaults are type-correct: stored as they are
        if d[0] == "l":
            return ("l", [self.atom(x) for x in d[1]])
        if d[0] == "s":
            return ("s", sorted({self.atom(x) for x in d[1]}))
        return self.atom(d[1])

    def key_of(self, cls) -> Optional[str]:
        for k, v in self.cls.items():
            if v is cls:
                return k
        return None


class AbstractionError(Exception):
    pass


def to_sx(p):
    if p is None:
        return []
    if isinstance(p, int):
        return str(p)
    tag, body = p
    if tag == "o":
        return ["o", [[] if x is None else [to_sx(x)] for x in body]]
    return [tag, [str(x) for x in body]]


def from_sx(x):
    if isinstance(x, str):
        return int(x)
    tag, body = x
    if tag == "o":
        return ("o", [None if not f else from_sx(f[0]) for f in body])
    return (tag, [int(e) for e in body])


def depth_of(p) -> int:
    if isinstance(p, tuple) and p[0] == "o":
        return 1 + max([depth_of(x) for x in p[1] if x is not None] or [0])
    return 0


# ---- contents -> real objects

def gen_content(rng, fam: Fam, key: str, depth: int, complete: bool, flat: bool, top: bool = False):
    """Random content for a value at a position declared with class `key`."""
    chain = fam.chain(key)
    ckey = key if flat else rng.choice(chain)
    empty_ok = fam.base == "plain"
    out = {}
    for f in fam.own[ckey]:
        t = f["type"]
        need = complete and f["kind"] == "req"
        p = 0.3 if t[0] in PRIMS or t[0] == "atom" else 0.55
        if t[0] == "obj" and depth <= 0:
            if need:
                return None
            continue
        if not need and rng.random() > p:
            continue
        if t[0] == "setm" and getattr(fam, "_skip_setm", False):
            continue
        if t[0] in PRIMS:
            out[f["name"]] = ["a", _prim_value(rng, t[0], empty_ok)]
        elif t[0] in ("list", "set"):
            n = rng.choice([0, 0, 1, 2, 3])
            vals = [_prim_value(rng, t[1], empty_ok, falsy_p=0.2) for _ in range(n)]
            out[f["name"]] = ["l" if t[0] == "list" else "s", vals]
        elif t[0] in ("listm", "setm"):
            n = rng.choice([0, 1, 1, 2])
            els = []
            for _ in range(n):
                e = gen_content(rng, fam, t[1], depth - 1, True, flat or t[0] == "setm")
                if e is not None:
                    els.append(e)
            out[f["name"]] = ["lm" if t[0] == "listm" else "sm", els]
        elif t[0] == "obj":
            sub = gen_content(rng, fam, t[1], depth - 1, complete, flat)
            if sub is None:
                if need:
                    return None
                continue
            out[f["name"]] = ["o", sub]
    return {"cls": ckey, "f": out}


def falsy_content(fam: Fam, key: str, depth: int):
    """Every optional primitive falsy, every collection empty (the shape the property names)."""
    out = {}
    for f in fam.own[key]:
        t = f["type"]
        if t[0] in PRIMS and (t[0] != "str" or fam.base == "plain"):
            out[f["name"]] = ["a", FALSY[t[0]]]
        elif t[0] in ("list", "set"):
            out[f["name"]] = [t[0][0], []]
        elif t[0] == "listm":
            out[f["name"]] = ["lm", []]
        elif t[0] == "setm":
            out[f["name"]] = ["sm", []]
        elif t[0] == "obj" and depth > 0 and f["kind"] == "opt":
            out[f["name"]] = ["o", falsy_content(fam, t[1], depth - 1)]
    return {"cls": key, "f": out}


def plain(fam: Fam, O, jsonable: bool):
    out = {}
    for k, v in O["f"].items():
        tag, body = v
        if tag == "a":
            out[k] = body
        elif tag == "l":
            out[k] = list(body)
        elif tag == "s":
            out[k] = list(body) if jsonable else set(body)
        elif tag in ("lm", "sm"):
            out[k] = [plain(fam, e, jsonable) for e in body]
        else:
            out[k] = plain(fam, body, jsonable)
    return out


def inst(fam: Fam, O, pos_key: str, mode: str, flip: int = 0):
    """Instantiate content with nested *instances*.
    mode: complete (validated complete classes), ctor (partial classes through the
    constructor), construct (partial classes through construct(), nested alternating between
    complete and partial instances)."""
    key = O["cls"] or pos_key
    lay = {f["name"]: f for f in fam.own[key]}
    kw = {}
    for k, v in O["f"].items():
        tag, body = v
        t = lay[k]["type"]
        sub_mode = mode
        if mode == "construct":
            sub_mode = "complete" if flip % 2 == 0 else "ctor"
        if tag == "a":
            kw[k] = body
        elif tag == "l":
            kw[k] = list(body)
        elif tag == "s":
            kw[k] = set(body)
        elif tag == "lm":
            kw[k] = [_inst_or_none(fam, e, t[1], sub_mode, flip + 1) for e in body]
        elif tag == "sm":
            kw[k] = {_inst_or_none(fam, e, t[1], sub_mode, flip + 1) for e in body}
        else:
            kw[k] = _inst_or_none(fam, body, t[1], sub_mode, flip + 1)
    if mode == "complete":
        return fam.cls[key](**kw)
    P = fam.partial(key)
    if mode == "construct":
        return P.construct(**kw)
    return P(**kw)


def _inst_or_none(fam, O, pos_key, mode, flip):
    if mode == "complete":
        try:
            return inst(fam, O, pos_key, "complete", flip)
        except Exception:    # noqa: BLE001  (content not complete at this place: use a partial)
            return inst(fam, O, pos_key, "ctor", flip)
    return inst(fam, O, pos_key, mode, flip)


def realise(fam: Fam, recipe, tmpdir=None):
    """recipe = {"way":..., "content": O} | {"way":"merged","of":[r1,r2],"ow":bool} -> (obj, complete|None)."""
    way = recipe["way"]
    P = fam.partial(fam.top)
    if way == "empty":
        return P(), None
    if way == "merged":
        a, _ = realise(fam, recipe["of"][0], tmpdir)
        b, _ = realise(fam, recipe["of"][1], tmpdir)
        return a.merge_with(b, allow_overwrite=recipe["ow"]), None
    O = recipe["content"]
    if way == "obj":
        return P.parse_obj(plain(fam, O, False)), None
    if way == "json":
        return P.parse_raw(json.dumps(plain(fam, O, True))), None
    if way == "yaml":
        import yaml
        return P.parse_raw(yaml.safe_dump(plain(fam, O, True), default_flow_style=False)), None
    if way == "file":
        import os
        import tempfile
        import yaml
        fd, path = tempfile.mkstemp(suffix=".yaml", dir=tmpdir)
        with os.fdopen(fd, "w") as fh:
            yaml.safe_dump(plain(fam, O, True), fh)
        try:
            return P.parse_file(path), None
        finally:
            os.unlink(path)
    if way == "ignore_invalid":
        return P.to_partial(plain(fam, O, False), ignore_invalid=True), None
    if way == "complete":
        c = inst(fam, O, fam.top, "complete")
        return P.to_partial(c), c
    if way == "ctor":
        return inst(fam, O, fam.top, "ctor"), None
    if way == "construct":
        return inst(fam, O, fam.top, "construct"), None
    if way == "sub":
        key = O["cls"] or fam.top
        return fam.partial(key).parse_obj(plain(fam, O, False)), None
    if way == "harvest":
        from metador_core.harvester import harvest
        H = _harvester_class(fam)
        return harvest(fam.cls[fam.top], [H(payload=plain(fam, O, False))], return_partial=True), None
    raise ValueError(way)


def _harvester_class(fam: Fam):
    H = getattr(fam, "_H", None)
    if H is None:
        from metador_core.harvester import Harvester
        P = fam.partial(fam.top)

        class H(Harvester):
            class Plugin:
                name = "vt.c14harvester"
                version = (0, 1, 0)
                returns = None

            class Args(Harvester.Args):
                payload: dict

            schema = property(lambda self: P)

            def run(self):
                return self.schema(**self.args.payload)
        fam._H = H
    return H


def make_recipes(rng, fam: Fam, n: int) -> List[dict]:
    spec = fam.spec
    if spec["kind"] == "installed":
        ways = ["obj", "json", "yaml", "file", "ctor", "ignore_invalid", "harvest", "construct"]
        out = []
        for i, c in enumerate(spec["contents"]):
            out.append({"way": "empty"} if not c else {"way": ways[i % len(ways)], "content": {"cls": None, "f": c}})
        # complete contents also through to_partial(complete) (others drop out when realised)
        for c in spec["contents"]:
            if c:
                out.append({"way": "complete", "content": {"cls": None, "f": c}})
        for i, c in enumerate(spec["contents"]):
            if c:
                out.append({"way": ways[(i + 3) % len(ways)], "content": {"cls": None, "f": c}})
        return out
    ways = WAYS_PLAIN if fam.base == "plain" else WAYS_PLUS
    if fam.base == "args":
        ways = [w for w in ways if w != "harvest"]
    out = [{"way": "empty"}, {"way": "obj", "content": falsy_content(fam, fam.top, 1)}]
    k = 0
    guard = 0
    while len(out) < n and guard < 50 * n:
        guard += 1
        way = ways[k % len(ways)]
        if len(out) >= n - 2 and len(out) >= 4 and rng.random() < 0.8:
            i, j = rng.sample(range(1, len(out)), 2)
            out.append({"way": "merged", "of": [out[i], out[j]], "ow": True})
            continue
        flat = way in ("obj", "json", "yaml", "file", "ignore_invalid", "harvest")
        # complete MetadataSchema instances are unhashable: no set of models where one would be built
        fam._skip_setm = fam.base == "schema" and way in ("complete", "construct")
        O = gen_content(rng, fam, fam.top, rng.choice([1, 2, 2, 3]), way == "complete", flat)
        fam._skip_setm = False
        if O is None:
            continue
        if way == "sub":
            O["cls"] = fam.deepest(fam.top) if not flat else O["cls"]
        elif flat:
            O["cls"] = fam.top
        out.append({"way": way, "content": O})
        k += 1
    return out


# ======================================================================================
# worker side: merging, oracle

def snap(o, seen=None):
    """Deep structural snapshot (types, field dicts incl. None, collection contents)."""
    if hasattr(o, "__fields__") and hasattr(o, "__dict__"):
        return (type(o).__name__, tuple((k, snap(v)) for k, v in o.__dict__.items()),
                tuple(sorted(getattr(o, "__fields_set__", ()) or ())))
    if isinstance(o, list):
        return ("list", tuple(snap(x) for x in o))
    if isinstance(o, (set, frozenset)):
        return ("set", tuple(sorted(repr(snap(x)) for x in o)))
    if isinstance(o, dict):
        return ("dict", tuple((repr(k), snap(v)) for k, v in o.items()))
    return (type(o).__name__, repr(o))


def do_merge(a, b, ow):
    """-> ("ok", obj) | ("ref", msg) | ("exc", text)"""
    from pydantic import ValidationError
    try:
        return ("ok", a.merge_with(b, allow_overwrite=ow))
    except ValidationError as e:
        return ("exc", f"ValidationError: {e}"[:300])
    except ValueError as e:
        return ("ref", str(e)[:200])
    except Exception as e:  # noqa: BLE001
        return ("exc", f"{type(e).__name__}: {e}"[:300])


def has_conflict(A, B) -> bool:
    """Two atoms provided at one place."""
    if isinstance(A, int) and isinstance(B, int):
        return True
    if isinstance(A, tuple) and isinstance(B, tuple) and A[0] == "o" and B[0] == "o":
        return any(x is not None and y is not None and has_conflict(x, y) for x, y in zip(A[1], B[1]))
    return False


def law_fieldwise(A, B, R, ow, path=()) -> List[Tuple[str, tuple]]:
    """The documented per-field rule, checked on abstract operands/result of the code."""
    bad = []
    for i, (a, b, r) in enumerate(zip(A[1], B[1], R[1])):
        p = path + (i,)
        if a is None and b is None:
            if r is not None:
                bad.append(("a value appears that neither operand provides", p))
        elif b is None:
            if r != a:
                bad.append(("no provided value is dropped (only the left operand provides it)", p))
        elif a is None:
            if r != b:
                bad.append(("no provided value is dropped (only the right operand provides it)", p))
        elif r is None:
            bad.append(("no provided value is dropped (both operands provide it)", p))
        elif isinstance(a, int) or isinstance(b, int):
            if not ow:
                bad.append(("a conflicting merge without overwrite permission raises", p))
            elif r != b:
                bad.append(("with overwrite permission the later value wins", p))
        elif a[0] == "l" and b[0] == "l":
            if r != ("l", a[1] + b[1]):
                bad.append(("lists are concatenated in order", p))
        elif a[0] == "s" and b[0] == "s":
            if r != ("s", sorted(set(a[1]) | set(b[1]))):
                bad.append(("sets are united", p))
        elif a[0] == "o" and b[0] == "o":
            if not (isinstance(r, tuple) and r[0] == "o"):
                bad.append(("nested objects are merged recursively", p))
            else:
                bad.extend(law_fieldwise(a, b, r, ow, p))
        else:
            bad.append(("operands of different shape at one field", p))
    return bad


def gen_spoils(rng, fam: Fam, O) -> List[List[str]]:
    """Which fields of the raw data get a value of the wrong shape: [field] or [field, inner field]."""
    out = []
    fields = fam.own[O["cls"] or fam.top]
    for f in rng.sample(fields, min(len(fields), rng.choice([1, 1, 2, 3]))):
        t = f["type"]
        if t[0] == "obj" and f["name"] in O["f"] and rng.random() < 0.6:
            inner = fam.own[O["f"][f["name"]][1]["cls"] or t[1]]
            out.append([f["name"], rng.choice(inner)["name"]])
        else:
            out.append([f["name"]])
    return out


def apply_spoils(fam: Fam, O, spoils):
    """-> (raw dict for the library, abstract raw value) ; None if the content is not parseable."""
    P = fam.partial(fam.top)
    raw = plain(fam, O, False)
    valid = fam.abs_obj(P.parse_obj(plain(fam, O, False)), fam.top)
    absr = [x for x in valid[1]]
    lay = fam.layout(fam.top)
    pos = {f["name"]: i for i, f in enumerate(lay)}

    def bad(t):
        if t[0] in ("list", "set", "listm", "setm", "obj"):
            return 5, fam.atom(5)
        return ["zz"], ("l", [fam.atom("zz")])

    for sp in spoils:
        f = lay[pos[sp[0]]]
        if len(sp) == 1 or not isinstance(raw.get(sp[0]), dict) or absr[pos[sp[0]]] is None:
            raw[sp[0]], absr[pos[sp[0]]] = bad(f["type"])
        else:
            ilay = fam.layout(f["type"][1])
            ipos = {g["name"]: i for i, g in enumerate(ilay)}
            pv, av = bad(ilay[ipos[sp[1]]]["type"])
            raw[sp[0]] = dict(raw[sp[0]])
            raw[sp[0]][sp[1]] = pv
            inner = list(absr[pos[sp[0]]][1])
            inner[ipos[sp[1]]] = av
            absr[pos[sp[0]]] = ("o", inner)
    spoiled = sorted({pos[sp[0]] for sp in spoils})
    return raw, ("o", absr), valid, spoiled


def eval_ignore_invalid(fam: Fam, O, spoils, a, ow):
    """to_partial(raw, ignore_invalid=True) and a.merge_with(raw, ignore_invalid=True) on the code,
    with the two laws evaluated on the code alone."""
    try:
        raw, raw_p, valid, spoiled = apply_spoils(fam, O, spoils)
    except Exception:  # noqa: BLE001
        return None
    P = fam.partial(fam.top)
    problems = []
    try:
        x = P.to_partial(raw, ignore_invalid=True)
        cast_o = fam.abs_obj(x, fam.top)
    except Exception as e:  # noqa: BLE001
        x, cast_o = None, "X"
        problems.append(("to_partial(ignore_invalid=True) keeps exactly the valid fields", f"{type(e).__name__}: {e}"[:300]))
    exp = ("o", [None if i in spoiled else v for i, v in enumerate(valid[1])])
    if x is not None and cast_o != exp:
        problems.append(("to_partial(ignore_invalid=True) keeps exactly the valid fields",
                         f"raw {raw!r}: got {fam.pretty(cast_o)}, expected {fam.pretty(exp)}"[:400]))
    from pydantic import ValidationError
    try:
        merged_o = fam.abs_obj(a.merge_with(raw, ignore_invalid=True, allow_overwrite=ow), fam.top)
    except ValidationError as e:
        merged_o = "X"
    except ValueError:
        merged_o = "R"
    except Exception as e:  # noqa: BLE001
        merged_o = "X"
    if x is not None:
        st, v = do_merge(a, x, ow)
        ref_o = fam.abs_obj(v, fam.top) if st == "ok" else ("R" if st == "ref" else "X")
        if merged_o != ref_o or merged_o == "X":
            problems.append(("merge_with(raw, ignore_invalid=True) equals merging the valid fields of raw",
                             f"raw {raw!r}: {fam.pretty(merged_o)} vs {fam.pretty(ref_o)}"[:400]))
    return raw_p, cast_o, merged_o, problems


def roundtrip_problem(fam: Fam, c) -> Optional[str]:
    """complete object -> its partial -> complete: same class, equal, same abstract content."""
    key = fam.key_of(type(c))
    if key is None:
        return None
    try:
        back = fam.partial(key).to_partial(c).from_partial()
    except Exception as e:  # noqa: BLE001
        return f"{type(e).__name__}: {e}"[:300]
    try:
        equal = back == c
    except TypeError:       # pydantic's == goes through dict(), impossible with sets of models
        equal = True
    if type(back) is not type(c) or not equal or fam.abs_obj(back, key) != fam.abs_obj(c, key):
        return f"got {back!r}"[:300]
    return None


class FamilyRun:
    def __init__(self, spec, pool_n, seed):
        import random
        self.spec, self.seed = spec, seed
        self.rng = random.Random(seed)
        self.fam = Fam(spec)
        self.recipes = make_recipes(self.rng, self.fam, pool_n)
        self.fails: List[dict] = []       # oracle failures (code alone)
        self.disagree: List[dict] = []    # model vs code
        self.stats: Dict[str, Any] = {}

    def fail(self, law, idx, ow, detail=""):
        if sum(1 for f in self.fails if f["law"] == law) < 3:
            self.fails.append({"law": law, "items": list(idx), "ow": ow, "detail": str(detail)[:400]})

    def build_pool(self, tmpdir):
        fam = self.fam
        self.pool, self.comp, self.ways, kept = [], [], [], []
        for r in self.recipes:
            try:
                o, c = realise(fam, r, tmpdir)
            except Exception as e:  # noqa: BLE001
                # a way that cannot produce this content (not a merge): note it, go on
                self.stats.setdefault("unrealised", []).append(f"{r['way']}: {type(e).__name__}: {e}"[:200])
                continue
            self.pool.append(o)
            self.comp.append(c)
            self.ways.append(r["way"])
            kept.append(r)
        self.recipes = kept
        self.E = fam.partial(fam.top)()

    def outcome(self, st, v):
        if st == "ok":
            return self.fam.abs_obj(v, self.fam.top)
        return "R" if st == "ref" else "X"

    def run(self, tmpdir):
        fam = self.fam
        self.build_pool(tmpdir)
        pool, n = self.pool, len(self.pool)
        before = [snap(x) for x in pool]
        e_before = snap(self.E)
        A = [fam.abs_obj(x, fam.top) for x in pool]
        self.A = A
        EA = fam.abs_obj(self.E, fam.top)
        n_merge = 0
        unexpected = {}
        # ---- identity
        for ow in (False, True):
            for i, x in enumerate(pool):
                for side, (l, r) in (("left", (self.E, x)), ("right", (x, self.E))):
                    st, v = do_merge(l, r, ow)
                    n_merge += 1
                    out = self.outcome(st, v)
                    if out != A[i]:
                        self.fail(f"the empty partial is a {side} identity", [i], ow,
                                  f"{st}: {v if st != 'ok' else to_sx(out)} expected {to_sx(A[i])}")
        # ---- pairs
        res = {}
        out = {}
        for ow in (False, True):
            for i in range(n):
                for j in range(n):
                    st, v = do_merge(pool[i], pool[j], ow)
                    n_merge += 1
                    res[ow, i, j] = (st, v)
                    o = out[ow, i, j] = self.outcome(st, v)
                    if st == "exc":
                        unexpected.setdefault(v.split(":")[0], (i, j, ow, v))
                    elif st == "ok":
                        bad = law_fieldwise(A[i], A[j], o, ow)
                        for law, p in bad[:2]:
                            self.fail(law, [i, j], ow, f"at field path {list(p)}: result {to_sx(o)}")
                    else:
                        if ow:
                            self.fail("with overwrite permission nothing is refused", [i, j], ow, v)
                        elif not has_conflict(A[i], A[j]):
                            self.fail("a merge is refused only because of a conflict", [i, j], ow, v)
        for k, (i, j, ow, v) in unexpected.items():
            self.fail("merging valid partials raises only the ValueError of a refused overwrite", [i, j], ow, v)
        mid = [snap(x) for x in pool]
        # ---- triples
        tri = {}
        pair_snap = {k: snap(v[1]) for k, v in res.items() if v[0] == "ok"}
        n_ref = n_ok = 0
        for ow in (False, True):
            for i in range(n):
                for j in range(n):
                    sab, ab = res[ow, i, j]
                    for k in range(n):
                        if sab == "ok":
                            s1, v1 = do_merge(ab, pool[k], ow)
                            n_merge += 1
                            o1 = self.outcome(s1, v1)
                        else:
                            s1, o1 = sab, out[ow, i, j]
                        sbc, bc = res[ow, j, k]
                        if sbc == "ok":
                            s2, v2 = do_merge(pool[i], bc, ow)
                            n_merge += 1
                            o2 = self.outcome(s2, v2)
                        else:
                            s2, o2 = sbc, out[ow, j, k]
                        tri[ow, i, j, k] = o1
                        if o1 == "R":
                            n_ref += 1
                        elif o1 != "X":
                            n_ok += 1
                        if o1 != o2 or o1 == "X":
                            self.fail("merging is associative (same value or both raise)", [i, j, k], ow,
                                      f"(a.b).c = {to_sx(o1) if isinstance(o1, tuple) else o1}; "
                                      f"a.(b.c) = {to_sx(o2) if isinstance(o2, tuple) else o2}")
        # ---- non-mutation
        after = [snap(x) for x in pool]
        for i in range(n):
            if before[i] != mid[i] or mid[i] != after[i]:
                self.fail("merging never mutates its operands", [i], None,
                          "pool item changed during the " + ("pair" if before[i] != mid[i] else "triple") + " phase")
        if snap(self.E) != e_before:
            self.fail("merging never mutates its operands", [], None, "the empty partial changed")
        for k, s0 in pair_snap.items():
            if snap(res[k][1]) != s0:
                self.fail("merging never mutates its operands", [k[1], k[2]], k[0],
                          "an intermediate result changed when merged further")
                break
        # ---- complete -> partial -> complete
        P = fam.partial(fam.top)
        n_rt = 0
        for i, c in enumerate(self.comp):
            if c is None:
                continue
            n_rt += 1
            msg = roundtrip_problem(fam, c)
            if msg:
                self.fail("complete -> partial -> complete gives the same object", [i], None, msg)
        # ---- merge(*xs) is the left fold (as harvest uses it)
        def code_fold(idx, ow):
            cur = self.E
            for i in idx:
                st, cur = do_merge(cur, pool[i], ow)
                if st != "ok":
                    return ("R" if st == "ref" else "X"), None
            return fam.abs_obj(cur, fam.top), cur

        folds = []      # (model case kind, flag, idx, outcome)
        for t_ in range(min(8, n)):
            idx = [self.rng.randrange(n) for _ in range(self.rng.randint(0, 4))]
            ow = t_ % 3 == 2
            try:
                m = P.merge(*[pool[i] for i in idx], allow_overwrite=ow)
                o = fam.abs_obj(m, fam.top)
            except ValueError:
                o = "R"
            except Exception as e:  # noqa: BLE001
                o = "X"
                self.fail("merging valid partials raises only the ValueError of a refused overwrite", idx, ow,
                          f"merge(*xs): {type(e).__name__}: {e}")
            exp, _ = code_fold(idx, ow)
            if o != exp:
                self.fail("merge(*xs) equals folding merge_with from the empty partial", idx, ow,
                          f"{fam.pretty(o)} vs {fam.pretty(exp)}")
            folds.append(("star", ow, idx, o))
        # ---- harvest(): harvester outputs and metadata files folded by the library's pipeline
        n_harvest = 0
        if fam.base == "schema":
            flat_idx = [i for i, w in enumerate(self.ways) if w in ("obj", "json", "yaml", "file", "harvest")]
            for t_ in range(6 if flat_idx else 0):
                idx = [self.rng.choice(flat_idx) for _ in range(self.rng.randint(0, 3))]
                # completing needs hashable set elements: partial only where sets of models occur
                rp = t_ % 2 == 0 or any(fam.has_model_set(A[i], fam.top) for i in idx)
                o = self.harvest_outcome(idx, tmpdir, rp)
                n_harvest += 1
                exp, cur = code_fold(idx, False)
                if not rp and cur is not None:
                    try:
                        exp = fam.abs_obj(cur.from_partial(), fam.top)
                    except ValueError:
                        exp = "R"
                    except Exception as e:  # noqa: BLE001
                        exp = "X:" + type(e).__name__
                if o != exp:
                    self.fail("harvest(sources) equals folding the harvested partials from the empty partial"
                              + ("" if rp else ", then completing"), idx, False,
                              f"{fam.pretty(o)} vs {fam.pretty(exp)}")
                conflict = any(has_conflict(A[i], A[j]) for a_, i in enumerate(idx) for j in idx[a_ + 1:])
                if conflict and o != "R":
                    self.fail("harvest raises when two sources provide a value for the same atomic place", idx, False,
                              fam.pretty(o))
                folds.append(("harvest", rp, idx, o))
        self.stats["harvest_pipelines"] = n_harvest
        # ---- ignore_invalid: raw data with invalid fields
        iis = []
        n_nested = 0
        if self.spec["kind"] == "generated":
            flat_idx = [i for i, w in enumerate(self.ways) if w in ("obj", "json", "yaml", "file", "ignore_invalid", "harvest")]
            for t_ in range(8 if flat_idx else 0):
                i = self.rng.choice(flat_idx)
                O = self.recipes[i]["content"]
                spoils = gen_spoils(self.rng, fam, O)
                a_i = self.rng.randrange(n)
                ow = t_ % 2 == 1
                r = eval_ignore_invalid(fam, O, spoils, pool[a_i], ow)
                if r is None:
                    continue
                raw_p, cast_o, merged_o, problems = r
                n_nested += any(len(sp) == 2 for sp in spoils)
                for law, detail in problems:
                    before = len(self.fails)
                    self.fail(law, [i, a_i], ow, detail)
                    if len(self.fails) > before:
                        self.fails[-1]["spoil"] = spoils
                iis.append((ow, a_i, raw_p, cast_o, merged_o))
        self.stats["ignore_invalid_cases"] = len(iis)
        self.stats["ignore_invalid_nested"] = n_nested
        self.stats["items_with_model_sets"] = sum(1 for a in A if fam.has_model_set(a, fam.top))
        # ---- from_partial outcome of pool items
        fps = []
        for i, x in enumerate(pool):
            # results of merges and instances carrying attributes of a subclass ("instance of the
            # left type") are outside the round-trip law: from_partial validates against the left class
            if self.ways[i] == "merged" or any(
                    not k.startswith("_") and k not in type(x).__fields__ for k in x.__dict__):
                continue
            if fam.base == "schema" and fam.has_model_set(A[i], fam.top):
                continue    # completing would need hashable MetadataSchema instances (TypeError)
            try:
                fps.append((i, fam.norm_sets(fam.abs_obj(x.from_partial(), fam.top), fam.top)))
            except ValueError:
                fps.append((i, "R"))
            except Exception as e:  # noqa: BLE001
                fps.append((i, "X"))
        self.stats.update(merges=n_merge, pool=n, triples=2 * n ** 3, refused_triples=n_ref, ok_triples=n_ok,
                          roundtrips=n_rt, ways=_hist(self.ways))
        self.model_compare(out, tri, folds, fps, iis)

    def harvest_outcome(self, idx, tmpdir, rp=True):
        """harvest(schema, sources, return_partial=True) with the contents of pool items idx as
        alternating harvester instances and metadata files."""
        import os
        import tempfile
        from pathlib import Path
        import yaml
        from pydantic import ValidationError
        from metador_core.harvester import harvest
        fam = self.fam
        H = _harvester_class(fam)
        sources = []
        for n, i in enumerate(idx):
            O = self.recipes[i]["content"]
            if n % 2 == 0:
                sources.append(H(payload=plain(fam, O, False)))
            else:
                fd, path = tempfile.mkstemp(suffix=".yaml", dir=tmpdir)
                with os.fdopen(fd, "w") as fh:
                    yaml.safe_dump(plain(fam, O, True), fh)
                sources.append(Path(path))
        try:
            return fam.abs_obj(harvest(fam.cls[fam.top], sources, return_partial=rp), fam.top)
        except ValidationError:
            return "X" if rp else "R"      # completing an incomplete result is refused by validation
        except ValueError:
            return "R"
        except Exception as e:  # noqa: BLE001
            return "X:" + type(e).__name__

    # ---- model vs code
    def model_compare(self, out, tri, folds, fps, iis=()):
        fam, A, n = self.fam, self.A, len(self.A)
        depth = max([depth_of(a) for a in A] + [1]) + 1
        ty = fam.ty_sx(fam.top, depth)
        vs = [to_sx(a) for a in A]
        cases = [["pool", ow, ty, vs] for ow in (False, True)]
        cases += [["fp", ty, vs[i]] for i, _ in fps]
        cases += [[kind, flag, ty, [vs[i] for i in idx]] for kind, flag, idx, _ in folds]
        cases += [["ii", ow, ty, vs[a_i], to_sx(raw_p)] for ow, a_i, raw_p, _, _ in iis]
        # a few small triples in the `tri` form for the in-Coq cross-check
        small = sorted(range(n), key=lambda i: len(vlib.sx_dumps(vs[i])))[:4]
        tris = [(ow, i, j, k) for ow in (False, True) for i in small[:3] for j in small[1:4] for k in small[:2]][:10]
        cases += [["tri", ow, ty, vs[i], vs[j], vs[k]] for ow, i, j, k in tris]
        mres = vlib.run_model("c14", cases, chunk=10 ** 9)

        def enc(o):
            return [] if isinstance(o, str) else [to_sx(o)]

        def dis(kind, idx, ow, model, impl):
            if len(self.disagree) < 10:
                self.disagree.append({"kind": kind, "items": list(idx), "ow": ow, "model": model, "impl": impl})
            self.stats["disagreements"] = self.stats.get("disagreements", 0) + 1

        pinned_like = 0
        for ci, ow in enumerate((False, True)):
            typed, pairs, triples, pinned = mres[ci]
            for i, tflag in enumerate(typed):
                if tflag != "T":
                    dis("operand is not a value of the class's field type (has_ty)", [i], ow, tflag, vs[i])
            for i in range(n):
                for j in range(n):
                    got = enc(out[ow, i, j])
                    if pairs[i][j] != got:
                        dis("merge_with outcome/content", [i, j], ow, pairs[i][j], got)
                        if pinned[i][j] == got:
                            pinned_like += 1
                    for k in range(n):
                        got3 = enc(tri[ow, i, j, k])
                        if triples[i][j][k] != got3:
                            dis("(a.b).c outcome/content", [i, j, k], ow, triples[i][j][k], got3)
        self.stats["pairs_matching_pinned_rule_only"] = pinned_like
        base = 2
        for (i, o), m in zip(fps, mres[base:base + len(fps)]):
            mo = [to_sx(fam.norm_sets(from_sx(m[0][0]), fam.top))] if m[0] else []
            if mo != enc(o):
                dis("from_partial outcome/content", [i], None, mo, enc(o))
            if (m[1] == "T") != (self.comp[i] is not None) and self.comp[i] is not None:
                dis("to_partial(complete) is complete in the model", [i], None, m[1], "T")
        base += len(fps)
        for (kind, flag, idx, o), m in zip(folds, mres[base:base + len(folds)]):
            if m != enc(o):
                dis("merge(*xs) as computed" if kind == "star" else "harvest pipeline", idx, flag, m, enc(o))
        base += len(folds)
        for (ow, a_i, raw_p, cast_o, merged_o), m in zip(iis, mres[base:base + len(iis)]):
            if m[0] != enc(cast_o):
                dis("to_partial(ignore_invalid=True)", [a_i], ow, m[0], enc(cast_o))
            if m[1] != enc(merged_o):
                dis("merge_with(ignore_invalid=True)", [a_i], ow, m[1], enc(merged_o))
        base += len(iis)
        self.xc_cases = cases[base:]
        self.xc_results = mres[base:]
        self.sample = {"case": cases[-1] if tris else cases[0][:3], "model": mres[-1] if tris else "..."}
        # distinct non-trivial triples (no operand empty)
        keys = [vlib.sx_dumps(v) for v in vs]
        ekey = vlib.sx_dumps(to_sx(fam.abs_obj(self.E, fam.top)))
        dk = sorted({k for k in keys if k != ekey})
        self.stats["distinct_values"] = len(set(keys))
        self.stats["distinct_nontrivial_triples"] = 2 * len(dk) ** 3
        self.stats["falsy_atoms"] = fam.nneg
        self.stats["depth"] = depth - 1


def family_worker(arg):
    spec, pool_n, seed = arg
    try:
        with vlib.time_limit(1500):
            with vlib.workdir("c14") as d:
                fr = FamilyRun(spec, pool_n, seed)
                fr.run(str(d))
        # attach recipes to failures so that they can be replayed without the pool
        for f in fr.fails:
            f["recipes"] = [copy.deepcopy(fr.recipes[i]) for i in f["items"]]
            if "spoil" in f:
                f["recipes"][0]["spoil"] = f.pop("spoil")
        for f in fr.disagree:
            f["recipes"] = [fr.recipes[i] for i in f["items"] if isinstance(i, int) and i < len(fr.recipes)]
        return {"ok": True, "id": spec["id"], "fails": fr.fails, "disagree": fr.disagree, "stats": fr.stats,
                "xc": (fr.xc_cases, fr.xc_results), "sample": fr.sample}
    except Exception as e:  # noqa: BLE001
        import traceback
        return {"ok": False, "id": spec["id"], "error": f"{type(e).__name__}: {e}", "tb": traceback.format_exc()[-2500:]}


# ======================================================================================
# re-evaluating one law on recipes (shrinking and replay)

def eval_law(spec, law: str, recipes: List[dict], ow) -> Optional[str]:
    """Rebuild the operands from their recipes on the current tree and evaluate the law.
    Returns a description of the failure, or None if the law holds (or the operands
    cannot be built)."""
    fam = Fam(spec)
    with vlib.workdir("c14r") as d:
        try:
            objs = [realise(fam, r, str(d)) for r in recipes]
        except Exception as e:  # noqa: BLE001
            # building an operand that is itself a merge may hit the defect
            if any(r["way"] == "merged" for r in recipes) and "raises only" in law:
                return f"building a merged operand raised {type(e).__name__}: {e}"[:300]
            return None
    xs = [o for o, _ in objs]
    top = fam.top
    A = [fam.abs_obj(x, top) for x in xs]
    P = fam.partial(top)
    E = P()
    snaps = [snap(x) for x in xs]

    def oc(st, v):
        return fam.abs_obj(v, top) if st == "ok" else ("R" if st == "ref" else "X:" + v)

    def show(o):
        return fam.pretty(o, top)

    msg = None
    if "identity" in law:
        side_left = "left" in law
        for o in ([False, True] if ow is None else [ow]):
            st, v = do_merge(E, xs[0], o) if side_left else do_merge(xs[0], E, o)
            if oc(st, v) != A[0]:
                msg = f"{'E.x' if side_left else 'x.E'} = {show(oc(st, v))}, x = {show(A[0])} (allow_overwrite={o})"
    elif "associative" in law and len(xs) == 3:
        a, b, c = xs
        s, ab = do_merge(a, b, ow)
        o1 = oc(*do_merge(ab, c, ow)) if s == "ok" else oc(s, ab)
        s, bc = do_merge(b, c, ow)
        o2 = oc(*do_merge(a, bc, ow)) if s == "ok" else oc(s, bc)
        if o1 != o2 or (isinstance(o1, str) and o1.startswith("X")):
            msg = f"(a.b).c = {show(o1)}; a.(b.c) = {show(o2)}"
    elif "complete -> partial" in law:
        c = objs[0][1]
        if c is not None:
            msg = roundtrip_problem(fam, c)
    elif "mutates" in law:
        for o in (False, True):
            for x in xs:
                for y in xs + [E]:
                    do_merge(x, y, o)
                    do_merge(y, x, o)
        if [snap(x) for x in xs] != snaps:
            msg = "operand changed"
    elif "ignore_invalid" in law:
        r = eval_ignore_invalid(fam, recipes[0]["content"], recipes[0].get("spoil") or [], xs[1], bool(ow))
        if r is not None:
            for l2, detail in r[3]:
                if l2 == law:
                    msg = detail
    elif "harvest(sources)" in law or "harvest raises" in law:
        rp = "completing" not in law
        fr = FamilyRun.__new__(FamilyRun)
        fr.fam, fr.recipes = fam, recipes
        with vlib.workdir("c14h") as d:
            o = fr.harvest_outcome(list(range(len(recipes))), str(d), rp)
        cur, exp = E, None
        for x in xs:
            st, cur = do_merge(cur, x, False)
            if st != "ok":
                exp = "R"
                break
        if exp is None and not rp:
            try:
                exp = fam.abs_obj(cur.from_partial(), top)
            except ValueError:
                exp = "R"
        exp = exp or fam.abs_obj(cur, top)
        if "harvest raises" in law:
            if o != "R" and any(has_conflict(A[i], A[j]) for i in range(len(A)) for j in range(i + 1, len(A))):
                msg = f"harvest(sources) = {show(o)} although two sources conflict"
        elif o != exp:
            msg = f"harvest(sources) = {show(o)}, fold = {show(exp)}"
    elif "merge(*xs)" in law:
        try:
            o = fam.abs_obj(P.merge(*xs, allow_overwrite=bool(ow)), top)
        except ValueError:
            o = "R"
        cur, exp = E, None
        for x in xs:
            st, cur = do_merge(cur, x, bool(ow))
            if st != "ok":
                exp = "R"
                break
        exp = exp or fam.abs_obj(cur, top)
        if o != exp:
            msg = f"merge(*xs) = {show(o)}, fold = {show(exp)}"
    elif len(xs) >= 2:
        st, v = do_merge(xs[0], xs[1], bool(ow))
        o = oc(st, v)
        if st == "exc":
            if "raises only" in law:
                msg = v
        elif st == "ref":
            if ow and "nothing is refused" in law:
                msg = v
            elif not ow and "only because of a conflict" in law and not has_conflict(A[0], A[1]):
                msg = v
        else:
            for l2, p in law_fieldwise(A[0], A[1], o, bool(ow)):
                if l2 == law:
                    msg = f"at field path {list(p)}: a = {show(A[0])}, b = {show(A[1])}, a.b = {show(o)}"
                    break
    if msg is None and [snap(x) for x in xs] != snaps and "mutates" in law:
        msg = "operand changed"
    return msg


def _strip(recipe, keep: set, idx: int):
    """Copy of a recipe keeping only the listed top-level fields."""
    r = copy.deepcopy(recipe)
    if "content" in r:
        r["content"]["f"] = {k: v for k, v in r["content"]["f"].items() if (idx, k) in keep}
    return r


def shrink(spec, law, recipes, ow):
    """ddmin over the (operand, top-level field) pairs of the operands' contents."""
    items = [(i, k) for i, r in enumerate(recipes) if "content" in r for k in r["content"]["f"]]
    if not items:
        return recipes

    def fails(sub):
        keep = set(sub)
        try:
            with vlib.time_limit(60):
                return eval_law(spec, law, [_strip(r, keep, i) for i, r in enumerate(recipes)], ow) is not None
        except Exception:  # noqa: BLE001
            return False
    try:
        if not fails(items):
            return recipes
    except Exception:  # noqa: BLE001
        return recipes
    small = vlib.ddmin(items, fails, budget=120)
    keep = set(small)
    return [_strip(r, keep, i) for i, r in enumerate(recipes)]


def shape_of(recipes) -> List[Any]:
    """Canonical, seed-independent description of shrunk operands (for known-finding matching)."""
    def val(v):
        tag, body = v
        if tag == "a":
            return ["atom", type(body).__name__, "falsy" if not body else "truthy"]
        if tag in ("l", "s", "lm", "sm"):
            return [tag, "empty" if not body else "nonempty"]
        return ["o", sorted(val(x) for x in body["f"].values())]

    def rec(r):
        if r["way"] == "merged":
            return ["merged", [rec(x) for x in r["of"]]]
        if "content" not in r:
            return [r["way"]]
        return [r["way"], sorted(val(v) for v in r["content"]["f"].values())]
    return [rec(r) for r in recipes]


def shrink_worker(arg):
    spec, f = arg
    try:
        with vlib.time_limit(600):
            first = eval_law(spec, f["law"], f["recipes"], f["ow"])
            small = shrink(spec, f["law"], f["recipes"], f["ow"]) if first is not None else f["recipes"]
            msg = eval_law(spec, f["law"], small, f["ow"]) or first
            return {"recipes": small, "msg": msg, "reproduced": first is not None}
    except Exception as e:  # noqa: BLE001
        return {"recipes": f["recipes"], "msg": f"shrinking failed: {type(e).__name__}: {e}", "reproduced": False}


# ======================================================================================
# main

def run(ctx: vlib.Ctx):
    proof = ctx.check_proofs()
    cov = ctx.coverage
    cov["trusted_base"] = vlib.TRUSTED_COMMON + [
        "modelled, not verified: pydantic 1.10 (validation/coercion when parsing, construct(), copy(), dict(), field "
        "iteration order of __dict__), Python list + and set.union, isinstance/issubclass on the generated partial classes",
        "abstraction harness/props/c14.py: a partial instance is read through __dict__ positionally over the field list of the "
        "most derived class of the inheritance chain at that position; primitive values interned by (type, repr) "
        "(falsy to numbers <= 0); elements of lists of models interned by their abstract content (class not compared), "
        "elements of sets of models by (class, content) - the identity Python's set gives pydantic models (== on field "
        "dicts, hash of a frozen model includes the class) - and reduced to content where from_partial completes them; "
        "the class of a merge result ('instance of the left type') is not compared",
        "harvest(): the sources' outputs are taken to be the partials obtained from the same contents by parsing (the "
        "harvester classes used are generated: run() returns self.schema(**payload); files are YAML written by the harness); "
        "ignore_invalid: invalid raw values are shape clashes only (a list where an atom is expected, an atom where a "
        "collection or object is expected), abstracted by overlaying the parsed valid part",
        "to_partial is modelled as the identity on field values (construct(**obj.__dict__)); from_partial as validation against "
        "required/optional/defaulted field kinds only (no other validators)",
    ]
    n_gen = ctx.budget(28, 100)
    pool_small, pool_big = 12, ctx.budget(12, 30)
    specs = []
    for fid in range(n_gen):
        base = BASES[fid % len(BASES)]
        spec = gen_family(ctx.rng, fid, base)
        big = (not ctx.quick) and fid < 24
        specs.append((spec, pool_big if big else pool_small, ctx.rng.randrange(2 ** 31)))
    for spec in installed_families():
        specs.append((spec, 16, ctx.rng.randrange(2 ** 31)))
    # big pools first (longest jobs)
    specs.sort(key=lambda s: -s[1])
    results = vlib.pmap(family_worker, specs)

    evals = 0
    distinct = 0
    dist = {"families": len(specs), "by_base": {}, "ways": {}, "pool_sizes": {}, "refused_triples": 0, "harvest_pipelines": 0,
            "ok_triples": 0, "roundtrips": 0, "falsy_atoms": 0, "max_depth": 0, "unrealised": 0}
    fails: List[Tuple[dict, dict]] = []
    disagree: List[Tuple[dict, dict]] = []
    n_dis = 0
    harness_errors = []
    xc_cases, xc_results = [], []
    for (spec, pool_n, seed), r in zip(specs, results):
        if not r["ok"]:
            harness_errors.append(r)
            continue
        st = r["stats"]
        evals += st["merges"]
        distinct += st["distinct_nontrivial_triples"]
        dist["by_base"][spec["base"] + ":" + spec["kind"]] = dist["by_base"].get(spec["base"] + ":" + spec["kind"], 0) + 1
        for w, c in st["ways"].items():
            dist["ways"][w] = dist["ways"].get(w, 0) + c
        dist["pool_sizes"][str(st["pool"])] = dist["pool_sizes"].get(str(st["pool"]), 0) + 1
        dist["refused_triples"] += st["refused_triples"]
        dist["ok_triples"] += st["ok_triples"]
        dist["roundtrips"] += st["roundtrips"]
        dist["harvest_pipelines"] += st.get("harvest_pipelines", 0)
        for k_ in ("ignore_invalid_cases", "ignore_invalid_nested"):
            dist[k_] = dist.get(k_, 0) + st.get(k_, 0)
        if st.get("items_with_model_sets"):
            dist.setdefault("items_with_model_sets", {})
            dist["items_with_model_sets"][spec["base"]] = dist["items_with_model_sets"].get(spec["base"], 0) + st["items_with_model_sets"]
        dist["falsy_atoms"] += st["falsy_atoms"]
        dist["max_depth"] = max(dist["max_depth"], st["depth"])
        dist["unrealised"] += len(st.get("unrealised", []))
        n_dis += st.get("disagreements", 0)
        for f in r["fails"]:
            fails.append((spec, f))
        for d in r["disagree"]:
            disagree.append((spec, d))
        if len(xc_cases) < 60:
            xc_cases += r["xc"][0][:3]
            xc_results += r["xc"][1][:3]
        ctx.sample(r["sample"], limit=4)
    dist["pinned_rule_matches"] = sum(r["stats"].get("pairs_matching_pinned_rule_only", 0) for r in results if r["ok"])
    xc = vlib.coq_crosscheck("c14", xc_cases, xc_results, "c14", max_cases=40)

    # ---- oracle failures: one report per law, the smallest reproduction
    by_law: Dict[str, List[Tuple[dict, dict]]] = {}
    for spec, f in fails:
        by_law.setdefault(f["law"], []).append((spec, f))
    todo = []
    for law, lst in sorted(by_law.items()):
        lst.sort(key=lambda sf: len(json.dumps(sf[1]["recipes"])))
        todo += lst[:2]
    shrunk = vlib.pmap(shrink_worker, [(spec, f) for spec, f in todo]) if todo else []
    reported = set()
    for (spec, f), s in zip(todo, shrunk):
        if f["law"] in reported or len(reported) >= MAX_REPORT:
            continue
        if not s["reproduced"]:
            ctx.notes.append(f"law '{f['law']}' failed inside a pool run but not when re-run alone: {f['detail']}")
            continue
        reported.add(f["law"])
        ctx.violation(
            f"law violated on the implementation: {f['law']} — {s['msg']}",
            {"kind": "law", "law": f["law"], "family": spec, "recipes": s["recipes"], "ow": f["ow"],
             "detail": s["msg"], "families_affected": len({id(sp) for sp, _ in by_law[f['law']]}),
             "anchor": "src/metador_core/schema/partial.py PartialModel._update_field / merge_with"},
            sig_obj={"law": f["law"], "ow": f["ow"], "shape": shape_of(s["recipes"])})
    unreproduced = [law for law in by_law if law not in reported]

    # ---- summary
    cov["evaluations"] = evals
    cov["distinct_nontrivial"] = distinct
    cov["rule"] = ("per class: every ordered pair and every triple of a pool of partial instances, both overwrite modes; "
                   "distinct_nontrivial = distinct (a,b,c,mode) with no operand equal to the empty partial, measured on "
                   "the abstracted operands; evaluations = real merge_with calls")
    cov["input_distribution"] = dist
    cov["coq_crosscheck"] = xc
    cov["disagreements"] = n_dis
    cov["oracle_laws_failing"] = sorted(by_law)
    ctx.assumptions += [
        "operands at one nested position belong to one inheritance chain (premise has_ty of C14_assoc/C14_closed); "
        "unrelated sibling classes in a Union are excluded by the property",
        "sets of models: complete instances only on bases whose models are hashable (frozen plain pydantic models, frozen "
        "harvester-argument models); under MetadataSchema (`frozen` may not be changed) a Set[Schema] field holds partial "
        "instances only and is neither completed nor converted through dict() (both raise TypeError: unhashable)",
        "harvest() accumulates without overwrite permission (C14_harvest_conflict_raises); its docstring promises the "
        "opposite - recorded as an observation, the theorem describes the code",
        "field values are well typed for their field (values come from the library's own parsers or are type-correct "
        "arguments of construct())",
    ]
    for r in harness_errors:
        ctx.violation(f"family {r['id']} could not be evaluated: {r['error']}",
                      {"kind": "harness-exception", "family": r["id"], "traceback": r["tb"],
                       "correspondence": "harness/props/c14.py family_worker"}, found_input=False)
    if not xc["ok"]:
        ctx.violation("extracted runner and in-Coq evaluation of the model disagree (stale or wrong extraction)",
                      {"kind": "crosscheck", "xc": xc}, found_input=False)
    if not proof["ok"]:
        ctx.violation("proof obligations of Properties/C14.v do not check: " + "; ".join(proof["problems"])[:500],
                      {"kind": "proof", "theorem_file": "coq/Properties/C14.v", "problems": proof["problems"]},
                      found_input=False)
    if unreproduced and not reported:
        ctx.violation("laws failed inside pool runs but not when re-evaluated alone: " + "; ".join(unreproduced),
                      {"kind": "law-unreproduced", "laws": unreproduced}, found_input=False)
    if disagree and not ctx.violations and not ctx.known_hits:
        spec, d = min(disagree, key=lambda sd: len(json.dumps(sd[1]["recipes"])))
        ctx.violation("model/implementation correspondence broken but the property oracle found no failing input: "
                      + d["kind"],
                      {"kind": "correspondence",
                       "correspondence": "coq/Schema/Partial.v run_c14 (merge / from_partial / merge_all) vs "
                                         "metador_core.schema.partial.PartialModel",
                       "theorems": "C14_assoc, C14_identity_left/right, C14_fieldwise (stated about this model)",
                       "family": spec, "smallest_disagreement": d, "count": n_dis}, found_input=False)
    elif disagree:
        ctx.notes.append(f"{n_dis} model/impl disagreements (first: {json.dumps(disagree[0][1], default=str)[:600]})")


def _hist(it):
    h: Dict[str, int] = {}
    for x in it:
        h[str(x)] = h.get(str(x), 0) + 1
    return h


def replay(rep) -> int:
    """Re-evaluate the recorded failing case on the current tree; 1 if it still fails."""
    vlib._pool_init()
    if rep.get("kind") != "law":
        print("replay names a proof obligation or correspondence; re-run the check itself")
        return 1
    with vlib.time_limit(300):
        msg = eval_law(rep["family"], rep["law"], rep["recipes"], rep.get("ow"))
    print(f"law: {rep['law']}")
    for i, r in enumerate(rep["recipes"]):
        print(f"  operand {i}: {json.dumps(r)[:400]}")
    print("still failing: " + msg if msg else "no longer failing")
    return 1 if msg else 0
