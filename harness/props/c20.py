"""C20 — containers are self-describing about the schemas they use.

Oracles on the code alone (no model), evaluated after EVERY operation of container histories
(attach / detach / delete / copy with and without metadata / move / close + reopen) on both
drivers (``h5py.File``, ``IH5Record``), over a harness-registered schema family (3 levels of
inheritance, several versions incl. a major bump, two providing packages, an auxiliary schema,
registered through real entry points of fake distributions), grammar-generated schema classes
(as in C12, every class a plugin) and the installed schema plugins:

  (a) every stored metadata object (raw bytes read from the unwrapped container) validates with
      the real ``jsonschema.Draft7Validator`` against the JSON Schema EMBEDDED in the container
      for its schema (which itself passes ``check_schema``);
  (b) the embedded JSON Schema equals ``Schema.schema_json()`` of the plugin system, the embedded
      parent chain equals ``schemas.parent_path``, a stored package lists the schema among its
      plugins and equals ``schemas.provider`` (name, version, url, plugin list);
  (c) schema records exist exactly for the schemas of stored objects, every stored package
      provides a schema in use;
  (d) ``mc.metador.schemas[...]`` / ``.get`` / ``.parent_path`` / ``.provider`` / ``.packages`` /
      ``in`` / ``len`` report what is stored, live and on a freshly opened container (read-only
      second opening before, and the re-opened writable container after, every close).

Child-schema instances in parent-typed fields: pydantic keeps an instance of a child schema as
it is in a field typed with the parent, so the stored JSON carries the child's (possibly
overriding) constants and extra members.  Histories and the schema half therefore also build
instances whose schema-typed field values (single, in lists, inside Optional/Union) are replaced
by instances of child schemas (installed: e.g. core.person / core.org inside schema.org Person /
Organization fields of core.file, core.bib; family: FEntKid inside FHolder; generated children),
attach them as instances, and validate the stored bytes against the embedded schema.  The model's
typed values hold instances of exactly the declared schema, so these cases are covered by the
code-only oracles (a)/(stored-invalid), not by ``C20_stored_validates``.

An installed plugin whose class cannot be instantiated / cannot export its schema (on this
tree: ``core.packerinfo``, unresolved ForwardRef) can never be the schema of a stored object; it is
left out of the installed targets and recorded as an observation in the evidence, not a violation.

Correspondence (model vs. code):
  * coq/Toc/SelfDesc.v (``run_c20`` / ``toc``): the same histories; after every operation the
    result class, the set of (node, schema) objects, every schema record (hash of the JSON
    Schema text, parent chain, reported parent_path, reported provider) and the stored
    packages are compared;
  * coq/Schema/JsonSchema.v (``run_c20`` / ``schema``): ``export`` against the normalised
    (``$ref``-inlined, annotation-free) real ``schema()`` of every generated and family class;
    the premises and conclusion of ``C20_stored_validates`` on every generated instance
    (``wfb``/``okpos``/``wtb``/``juniq`` hold, ``jvalid (export t) (dump t v)``, ``dump`` equals
    the stored JSON); ``jvalid`` against the real ``jsonschema`` on valid and mutated instances
    for the generated classes AND for the installed schemas whose exported schema lies in the
    modelled draft-07 fragment, without and with a format checker.
"""
from __future__ import annotations

import copy
import hashlib
import json
import random
from typing import Any, Dict, List, Optional, Tuple

import sdlib as S
import vlib

SEGS = ["a", "b", "c", "d"]


def sha(txt) -> str:
    if isinstance(txt, str):
        txt = txt.encode()
    return hashlib.sha1(txt).hexdigest()[:12]


def _exc(e) -> str:
    return type(e).__name__ + ": " + str(e)[:160].replace("\n", " ")


# ------------------------------------------------------------------------------------------
# environment (worker): family + universes + installed plugins as a table

def _install(unis):
    S.install_family()
    for uid, uni in unis:
        S.install_universe(uni, uid)


def w_env(job):
    """All references of the harness families / universes / installed plugins with the
    plugin-side values, and which installed plugins have a usable instance builder."""
    out = {"status": "ok", "entries": [], "installed": [], "broken_export": [], "inputs": {}, "kid_inputs": {}}
    try:
        with vlib.time_limit(300):
            _install(job["unis"])
            from metador_core.plugins import schemas
            rng = random.Random(job["seed"])
            for ref in sorted(schemas.keys(), key=lambda r: (str(r.name), tuple(r.version))):
                name, ver = str(ref.name), tuple(int(x) for x in ref.version)
                try:
                    e = S.env_entry(name, ver)
                except Exception as ex:  # noqa: BLE001
                    out["broken_export"].append({"ref": S.ref_key(ref), "exc": _exc(ex)})
                    continue
                ent = {k: e[k] for k in ("ref", "parents", "provider", "aux", "resolved", "ok")}
                ent["sha"] = sha(e["json_text"])
                out["entries"].append(ent)
                if not name.startswith(("vt.", "vg.")) and e["ok"]:
                    cls = schemas.get(name, ver)
                    good = []
                    for _ in range(60):
                        try:
                            inp = S.gen_model_input(cls, rng, 0)
                            cls.parse_obj(inp)
                            json.dumps(inp)
                            good.append(inp)
                        except Exception:  # noqa: BLE001
                            pass
                        if len(good) >= job.get("n_inputs", 8):
                            break
                    if good:
                        out["installed"].append([name, list(ver)])
                        out["inputs"][name] = good
                        # inputs whose schema-typed field values can be replaced by instances of
                        # child schemas (e.g. core.person inside a schema.org Person field)
                        kids = []
                        for t_ in range(40):
                            try:
                                inp = good[t_] if t_ < len(good) else S.gen_model_input(cls, rng, 0)
                                obj = cls.parse_obj(inp)
                                json.dumps(inp)
                            except Exception:  # noqa: BLE001
                                continue
                            if S.childify(cls, obj, random.Random(0))[1]:
                                kids.append(inp)
                            if len(kids) >= 3:
                                break
                        if kids:
                            out["kid_inputs"][name] = kids
    except Exception as ex:  # noqa: BLE001
        import traceback
        out["status"] = "worker-exception: " + _exc(ex) + " @ " + traceback.format_exc()[-600:]
    return out


# ------------------------------------------------------------------------------------------
# history generation (main process, pure)

class Mirror:
    def __init__(self):
        self.nodes: Dict[Tuple[str, ...], str] = {(): "G"}
        self.meta: set = set()       # (path, schema name)

    def groups(self):
        return [p for p, k in self.nodes.items() if k == "G"]

    def below(self, p):
        return [q for q in self.nodes if q[:len(p)] == p]

    def rm(self, p):
        for q in self.below(p):
            del self.nodes[q]
        self.meta = {(q, s) for (q, s) in self.meta if q[:len(p)] != p}

    def cp(self, s, d, move, with_meta):
        sub = {q: k for q, k in self.nodes.items() if q[:len(s)] == s}
        msub = {(q, sc) for (q, sc) in self.meta if q[:len(s)] == s}
        if move:
            self.rm(s)
        for q, k in sub.items():
            self.nodes[d + q[len(s):]] = k
        if with_meta or move:
            self.meta |= {(d + q[len(s):], sc) for (q, sc) in msub}


def absname(p) -> str:
    return "/" + "/".join(p)


def gen_history(rng, nops: int, targets: List[dict], envs: Dict[str, Any]) -> List[list]:
    """Impl-level operations.  Only operations whose user-tree preconditions hold are
    generated (the user tree is property C08); refusals that belong to the metadata interface
    (second object of a schema name at a node, auxiliary schema, detach of a missing object)
    are generated on purpose."""
    mir = Mirror()
    ops: List[list] = []
    for _ in range(rng.randint(2, 4)):
        g = tuple(rng.choice(mir.groups())) + (rng.choice(SEGS),)
        if g not in mir.nodes:
            mir.nodes[g] = rng.choice(["G", "G", "D"])
            ops.append(["mkgrp" if mir.nodes[g] == "G" else "mkds", absname(g)])
    weights = [t["w"] for t in targets]
    while len(ops) < nops:
        r = rng.random()
        existing = [p for p in mir.nodes]
        nonroot = [p for p in existing if p]
        if r < 0.08:
            g = tuple(rng.choice(mir.groups())) + (rng.choice(SEGS),)
            if g in mir.nodes:
                continue
            mir.nodes[g] = rng.choice(["G", "D"])
            ops.append(["mkgrp" if mir.nodes[g] == "G" else "mkds", absname(g)])
        elif r < 0.55:
            p = rng.choice(existing)
            ti = rng.choices(range(len(targets)), weights)[0]
            t = targets[ti]
            iseed = rng.randrange(1 << 30)
            if t["src"] in ("family", "gen"):
                inp = S.gen_obj_input(rng, envs[t["envkey"]], t["cname"], 0)
            else:
                inp = copy.deepcopy(rng.choice(t["inputs"]))    # valid inputs found by w_env
            kid = False
            if t["req"] == t["store"] and rng.random() < 0.5:
                if t.get("kid_inputs"):
                    inp, kid = copy.deepcopy(rng.choice(t["kid_inputs"])), True
                elif t.get("kid_fields"):
                    for _ in range(10):
                        if any(a in inp for a in t["kid_fields"]):
                            break
                        inp = S.gen_obj_input(rng, envs[t["envkey"]], t["cname"], 0)
                    kid = any(a in inp for a in t["kid_fields"])
            ops.append(["attach", absname(p), ti, inp, iseed, kid])
            if t["store"] is not None and (p, t["req"][0]) not in mir.meta:
                mir.meta.add((p, t["req"][0]))
        elif r < 0.68:
            have = sorted(mir.meta)
            if have and rng.random() < 0.85:
                p, name = rng.choice(have)
                mir.meta.discard((p, name))
            else:
                p, name = rng.choice(existing), rng.choice(targets)["req"][0]
                mir.meta.discard((p, name))
            ops.append(["detach", absname(p), name])
        elif r < 0.76:
            if not nonroot:
                continue
            p = rng.choice(nonroot)
            mir.rm(p)
            ops.append(["delete", absname(p)])
        elif r < 0.88:
            if not nonroot:
                continue
            s = rng.choice(nonroot)
            d = tuple(rng.choice(mir.groups())) + (rng.choice(SEGS + ["e", "f"]),)
            if d in mir.nodes or d[:len(s)] == s:
                continue
            has_meta = any(q[:len(s)] == s for (q, _) in mir.meta)
            if mir.nodes[s] == "D":
                with_meta = (s, ) and any(q == s for (q, _) in mir.meta)   # see C08 side finding
            else:
                with_meta = rng.random() < 0.8
            mir.cp(s, d, move=False, with_meta=bool(with_meta))
            ops.append(["copy", absname(s), absname(d), bool(with_meta)])
            del has_meta
        elif r < 0.94:
            if not nonroot:
                continue
            s = rng.choice(nonroot)
            d = tuple(rng.choice(mir.groups())) + (rng.choice(SEGS + ["e", "f"]),)
            if d in mir.nodes or d[:len(s)] == s:
                continue
            mir.cp(s, d, move=True, with_meta=True)
            ops.append(["move", absname(s), absname(d)])
        else:
            ops.append(["reopen"])
    if ops[-1][0] != "reopen":
        ops.append(["reopen"])
    return ops


def _mentions_obj(t, names) -> bool:
    if isinstance(t, str):
        return False
    if t[0] == "obj":
        return t[1] in names
    if t[0] in ("opt", "list"):
        return _mentions_obj(t[1], names)
    if t[0] == "union":
        return any(_mentions_obj(a, names) for a in t[1:])
    return False


def kid_fields(env, cname) -> List[str]:
    """Aliases of the fields of class `cname` typed with a class of the universe that has a
    derived class (a child instance can stand in the parent-typed position)."""
    parents = {c["base"] for c in env.values() if c["base"]}
    anc = set()
    for p in parents:                  # a child of a child also fits an ancestor-typed field
        while p:
            anc.add(p)
            p = env[p]["base"]
    return [f[1] for f in S.flat_fields(env, cname) if _mentions_obj(f[2], anc)]


def kid_histories(rng, targets: List[dict], envs, limit: int) -> List[list]:
    """Objects whose parent-typed fields hold instances of child schemas (which may override
    inherited constants), attached at a dataset and a group, reopened."""
    out = []
    cand = [i for i, t in enumerate(targets) if t["req"] == t["store"] and (t.get("kid_inputs") or t.get("kid_fields"))]
    cand.sort(key=lambda i: targets[i]["src"] == "gen")
    for i in cand:
        t = targets[i]
        for rep in range(2):
            if len(out) >= limit:
                return out
            if t.get("kid_inputs"):
                inp = copy.deepcopy(t["kid_inputs"][rep % len(t["kid_inputs"])])
            else:
                inp = None
                for _ in range(20):
                    inp = S.gen_obj_input(rng, envs[t["envkey"]], t["cname"], 0)
                    if any(a in inp for a in t["kid_fields"]):
                        break
                if not any(a in inp for a in t["kid_fields"]):
                    continue
            node = "/k" if rep else "/"
            ops = ([["mkds", "/k"]] if rep else []) + [["attach", node, i, inp, rng.randrange(1 << 30), True], ["reopen"]]
            out.append(ops)
    return out


def storable_pairs(entries: List[dict]) -> List[Tuple[list, list]]:
    """(parent, child) references that can both be stored, the parent in the child's chain."""
    by = {tuple(e["ref"]): e for e in entries}
    out = []
    for e in entries:
        if not e["ok"]:
            continue
        for p in e["parents"][:-1]:
            ep = by.get(tuple(p))
            if ep is not None and ep["ok"]:
                out.append((ep["ref"], e["ref"]))
    return out


def pattern_histories(rng, entries: List[dict], targets: List[dict], envs, limit: int) -> List[list]:
    """Parent and child schema both used directly (attached in both orders), close + reopen
    writable (a new patch on IH5), the last object of one of them removed (detach / delete of the
    node), another reopen.  Pairs of the harness family (child record name before and after the
    parent's, same and different package) and of the installed plugins (core.dir/core.bib,
    core.file/core.imagefile, ...) come first; the observations after every step are the usual ones."""
    by_store = {}
    for i, t in enumerate(targets):
        if t["store"] is not None and t["req"] == t["store"]:
            by_store.setdefault(tuple(t["store"]), i)
    pairs = [(p, c) for p, c in storable_pairs(entries) if tuple(p) in by_store and tuple(c) in by_store]
    pairs.sort(key=lambda pc: (pc[1][0].startswith("vg."), pc))          # family + installed first

    def att(node, ref):
        ti = by_store[tuple(ref)]
        t = targets[ti]
        if t["src"] in ("family", "gen"):
            inp = S.gen_obj_input(rng, envs[t["envkey"]], t["cname"], 0)
        else:
            inp = copy.deepcopy(rng.choice(t["inputs"]))
        return ["attach", node, ti, inp, 0]

    out = []
    k = 0
    for p, c in pairs:
        for order in (0, 1):
            for victim in ("child", "parent"):
                for mode in ("detach", "delete"):
                    if len(out) >= limit:
                        return out
                    k += 1
                    first = [att("/a", p), att("/b", c)]
                    ops = [["mkgrp", "/a"], ["mkgrp", "/b"]] + (first if order == 0 else first[::-1])
                    node, ref = ("/b", c) if victim == "child" else ("/a", p)
                    if k % 3 == 0:                   # a second object of the victim's schema: not the last one yet
                        ops += [["mkgrp", "/c"], att("/c", ref)]
                    ops.append(["reopen"])
                    ops.append(["detach", node, ref[0]] if mode == "detach" else ["delete", node])
                    if k % 3 == 0:
                        ops += [["detach", "/c", ref[0]]]
                    ops.append(["reopen"])
                    if mode == "detach" and k % 4 == 1:     # the node is still there: use the schema again
                        ops += [att(node, ref), ["reopen"]]
                    out.append(ops)
    return out


def model_ops(ops: List[list], targets: List[dict]) -> Tuple[List[list], List[int]]:
    """The operations the bookkeeping model sees, and their indices in `ops`."""
    out, idx = [], []
    for i, op in enumerate(ops):
        k = op[0]
        if k == "attach":
            t = targets[op[2]]
            out.append(["attach", op[1], t["store"] or t["req"]])
        elif k == "detach":
            out.append(["detach", op[1], op[2]])
        elif k == "delete":
            out.append(["delete", op[1]])
        elif k == "copy" and op[3]:
            out.append(["copy", op[1], op[2]])
        elif k == "move":
            out.append(["move", op[1], op[2]])
        elif k == "reopen":
            out.append(["reopen"])
        else:
            continue
        idx.append(i)
    return out, idx


# ------------------------------------------------------------------------------------------
# implementation side: run a history, observe, evaluate the oracles

_VALIDATORS: Dict[bytes, Any] = {}


def _validator(schema_bytes: bytes):
    """(validator, problem) for an embedded schema text."""
    if schema_bytes not in _VALIDATORS:
        import jsonschema
        try:
            sch = json.loads(schema_bytes.decode("utf-8"))
            jsonschema.Draft7Validator.check_schema(sch)
            _VALIDATORS[schema_bytes] = (jsonschema.Draft7Validator(sch), sch, None)
        except Exception as e:  # noqa: BLE001
            _VALIDATORS[schema_bytes] = (None, None, _exc(e))
    return _VALIDATORS[schema_bytes]


def _pkg_of_bytes(b: bytes) -> list:
    d = json.loads(b.decode("utf-8"))
    return [d["name"], ".".join(str(x) for x in d["version"]), str(d.get("repository_url") or ""),
            [[r["name"], ".".join(str(x) for x in r["version"])] for r in d.get("plugins", {}).get("schema", [])]]


def oracle_state(rb, rp, env: Dict[str, Any]) -> List[dict]:
    """The property on one state: raw bookkeeping `rb`, interface reports `rp`, plugin-side
    table `env` (key "name__ver")."""
    probs: List[dict] = []
    pk = {}
    for k, b in rb["packages"].items():
        try:
            pk[k] = _pkg_of_bytes(b)
        except Exception as e:  # noqa: BLE001
            probs.append({"oracle": "package-info-unreadable", "package": k, "exc": _exc(e)})
    used = set()
    for o in rb["objects"]:
        used.add(o["schema"])
        sg = rb["schemas"].get(o["schema"])
        if not sg or "jsonschema.json" not in sg or "compat" not in sg:
            probs.append({"oracle": "object-without-schema-record", "object": o["path"], "schema": o["schema"]})
            continue
        val, sch, why = _validator(sg["jsonschema.json"])
        if val is None:
            probs.append({"oracle": "embedded-schema-not-a-valid-json-schema", "schema": o["schema"], "why": why})
        else:
            try:
                inst = json.loads(o["bytes"].decode("utf-8"))
                errs = [f"{'/'.join(map(str, e.absolute_path))}: {e.message[:160]}" for e in list(val.iter_errors(inst))[:3]]
            except Exception as e:  # noqa: BLE001
                errs = ["unreadable: " + _exc(e)]
            if errs:
                probs.append({"oracle": "stored-object-does-not-validate", "schema": o["schema"], "object": o["path"],
                              "instance": o["bytes"].decode("utf-8", "replace")[:600], "errors": errs})
        e = env.get(o["schema"])
        if e is None:
            probs.append({"oracle": "schema-unknown-to-plugin-system", "schema": o["schema"]})
            continue
        if sha(sg["jsonschema.json"]) != e["sha"]:
            probs.append({"oracle": "embedded-schema-differs-from-schema_json", "schema": o["schema"]})
        try:
            compat = [[r["name"], ".".join(str(x) for x in r["version"])] for r in json.loads(sg["compat"].decode())]
        except Exception as ex:  # noqa: BLE001
            compat = {"$exc": _exc(ex)}
        if compat != e["parents"]:
            probs.append({"oracle": "embedded-parent-chain-differs", "schema": o["schema"], "stored": compat, "plugin_side": e["parents"]})
        rk = S.ep_to_key(o["schema"])
        provs = [p for p in pk.values() if rk in p[3]]
        if not provs:
            probs.append({"oracle": "no-stored-package-provides-schema", "schema": o["schema"], "packages": sorted(pk)})
        elif e["provider"] not in provs:
            probs.append({"oracle": "stored-provider-differs", "schema": o["schema"], "stored": provs[0][:3], "plugin_side": e["provider"][:3]})
    for k in rb["schemas"]:
        if k not in used:
            probs.append({"oracle": "schema-record-without-object", "schema": k})
    usedk = [S.ep_to_key(k) for k in used]
    for k, p in pk.items():
        if not any(r in p[3] for r in usedk):
            probs.append({"oracle": "package-without-used-schema", "package": k})
    # the interface
    if sorted(rp["schemas"]) != sorted(rb["schemas"]):
        probs.append({"oracle": "reported-schema-set-differs", "reported": sorted(rp["schemas"]), "stored": sorted(rb["schemas"])})
    if rp.get("len") != len(rb["schemas"]):
        probs.append({"oracle": "reported-len-differs", "reported": rp.get("len"), "stored": len(rb["schemas"])})
    for k, r in rp["schemas"].items():
        sg = rb["schemas"].get(k) or {}
        e = env.get(k) or {}
        emb = None
        if "jsonschema.json" in sg:
            _v, emb, _w = _validator(sg["jsonschema.json"])
        if r["json"] != emb:
            probs.append({"oracle": "reported-jsonschema-differs", "schema": k, "reported": str(r["json"])[:200]})
        if r["get"] != r["json"]:
            probs.append({"oracle": "schemas.get-differs-from-getitem", "schema": k, "get": str(r["get"])[:120]})
        if r["parents"] != e.get("parents"):
            probs.append({"oracle": "reported-parent_path-differs", "schema": k, "reported": r["parents"], "plugin_side": e.get("parents")})
        if r["provider"] != e.get("provider"):
            probs.append({"oracle": "reported-provider-differs", "schema": k, "reported": str(r["provider"])[:200]})
        if r["contains"] is not True:
            probs.append({"oracle": "reported-contains-differs", "schema": k, "reported": r["contains"]})
    if sorted(rp["packages"]) != sorted(pk) or any(rp["packages"][k] != pk[k] for k in rp["packages"] if k in pk):
        probs.append({"oracle": "reported-packages-differ", "reported": sorted(rp["packages"]), "stored": sorted(pk)})
    if rp["errors"]:
        probs.append({"oracle": "reporting-raises", "errors": rp["errors"]})
    return probs


def state_obs(rb, rp) -> Dict[str, Any]:
    """Canonical observation compared with the model."""
    links = sorted([o["node"], S.ep_to_key(o["schema"])] for o in rb["objects"])
    schemas = []
    for k in sorted(rb["schemas"]):
        sg = rb["schemas"][k]
        r = rp["schemas"].get(k, {})
        try:
            compat = [[x["name"], ".".join(str(v) for v in x["version"])] for x in json.loads(sg.get("compat", b"[]").decode())]
        except Exception:  # noqa: BLE001
            compat = None
        schemas.append([S.ep_to_key(k), sha(sg.get("jsonschema.json", b"")), compat, r.get("parents"), r.get("provider")])
    pkgs = []
    for k in sorted(rb["packages"]):
        try:
            pkgs.append(_pkg_of_bytes(rb["packages"][k]))
        except Exception:  # noqa: BLE001
            pkgs.append([k])
    return {"links": links, "schemas": sorted(schemas, key=lambda x: x[0]), "packages": sorted(pkgs)}


def _target_class(t, classes_by_uid):
    from metador_core.plugins import schemas
    if t["src"] == "family":
        return S.install_family()[t["cname"]]
    if t["src"] == "gen":
        return classes_by_uid[t["uid"]][t["cname"]]
    return schemas.get(t["req"][0], tuple(int(x) for x in t["req"][1].split(".")))


def exec_history(job) -> Dict[str, Any]:
    """Worker: run one history on one driver; per step: status, observation, oracle problems."""
    import numpy as np
    res: Dict[str, Any] = {"status": "ok", "steps": [], "drv": job["drv"], "hid": job.get("hid")}
    try:
        with vlib.time_limit(job.get("limit", 240)):
            _install(job["unis"])
            classes_by_uid = {uid: S.install_universe(uni, uid)[0] for uid, uni in job["unis"]}
            env = job["env"]
            targets = job["targets"]
            with vlib.workdir("c20") as d:
                raw, mc = S.open_container(job["drv"], d, "w")
                for op in job["ops"]:
                    k = op[0]
                    st: Dict[str, Any] = {"op": k, "status": "ok"}
                    try:
                        if k == "mkgrp":
                            mc.create_group(op[1])
                        elif k == "mkds":
                            mc[op[1]] = np.int64(7)
                        elif k == "attach":
                            t = targets[op[2]]
                            cls = _target_class(t, classes_by_uid)
                            inp = op[3]
                            if inp is None:
                                rng = random.Random(op[4])
                                for _ in range(40):
                                    try:
                                        inp = S.gen_model_input(cls, rng, 0)
                                        cls.parse_obj(inp)
                                        break
                                    except Exception:  # noqa: BLE001
                                        inp = None
                                if inp is None:
                                    raise RuntimeError("no valid instance found")
                            st["input"] = inp
                            val = inp
                            if len(op) > 5 and op[5]:
                                # an instance whose parent-typed fields hold child-schema instances
                                obj2, nk = S.childify(cls, cls.parse_obj(inp), random.Random(op[4]))
                                if nk:
                                    val = obj2
                                    st["kids"] = nk
                            mc[op[1]].meta[cls] = val
                        elif k == "detach":
                            del mc[op[1]].meta[op[2]]
                        elif k == "delete":
                            del mc[op[1]]
                        elif k == "copy":
                            mc.copy(op[1], op[2], without_meta=not op[3])
                        elif k == "move":
                            mc.move(op[1], op[2])
                        elif k == "reopen":
                            before = S.reports(mc)
                            mc.close()
                            # a second, read-only opening of what is on disk ...
                            raw2, mc2 = S.open_container(job["drv"], d, "r")
                            fresh_ro = S.reports(mc2)
                            rb_ro = S.raw_bookkeeping(raw2)
                            mc2.close()
                            # ... and the container to continue with
                            raw, mc = S.open_container(job["drv"], d, "r+")
                            fresh = S.reports(mc)
                            st["reopen_same"] = (before == fresh_ro, before == fresh)
                            if before != fresh_ro or before != fresh:
                                st["reopen_diff"] = {"before": _brief(before), "fresh_ro": _brief(fresh_ro), "fresh": _brief(fresh)}
                            st["ro_problems"] = oracle_state(rb_ro, fresh_ro, env)
                        else:
                            raise ValueError(k)
                    except vlib.CaseTimeout:
                        raise
                    except Exception as e:  # noqa: BLE001
                        st["status"] = "refused" if isinstance(e, (ValueError, TypeError, KeyError)) else "error"
                        st["exc"] = _exc(e)
                        if k == "reopen":
                            # the stored container cannot be opened (or closed) any more: the
                            # property's "what a freshly opened container reports" has no value
                            st["status"] = "error"
                            st["obs"] = None
                            st["problems"] = [{"oracle": "container-cannot-be-reopened", "exc": _exc(e)}]
                            st["n_objects"] = st["n_validated"] = 0
                            res["steps"].append(st)
                            mc = None
                            break
                    rb = S.raw_bookkeeping(mc.__wrapped__)
                    rp = S.reports(mc)
                    st["obs"] = state_obs(rb, rp)
                    st["problems"] = oracle_state(rb, rp, env) + st.pop("ro_problems", [])
                    if st.get("reopen_same") and not all(st["reopen_same"]):
                        st["problems"].append({"oracle": "reopened-container-reports-differ", "diff": st.get("reopen_diff")})
                    st["n_objects"] = len(rb["objects"])
                    st["n_validated"] = len(rb["objects"])
                    res["steps"].append(st)
                if mc is not None:
                    with vlib.time_limit(30):
                        mc.close()
    except vlib.CaseTimeout as e:
        res["status"] = "timeout: " + str(e)
    except Exception as e:  # noqa: BLE001
        import traceback
        res["status"] = "worker-exception: " + _exc(e) + " @ " + traceback.format_exc()[-700:]
    return res


def _brief(rp):
    return {"schemas": {k: {"parents": v["parents"], "provider": (v["provider"] or [None])[:2] if isinstance(v["provider"], list) else v["provider"],
                            "json": sha(json.dumps(v["json"], sort_keys=True, default=str))}
                        for k, v in rp["schemas"].items()}, "packages": sorted(rp["packages"]), "len": rp.get("len")}


# ------------------------------------------------------------------------------------------
# schema half: export / conformance / validator correspondence (worker)

def w_schema(job) -> Dict[str, Any]:
    """Worker: classes of a universe (or the family): normalised real schema per class,
    instances (typed value, stored JSON, real validity), mutants (real validity)."""
    res: Dict[str, Any] = {"status": "ok", "classes": [], "uid": job["uid"]}
    try:
        with vlib.time_limit(240):
            uni = job["uni"]
            env = S.env_of(uni)
            if job["uid"] == "family":
                classes = S.install_family()
            else:
                classes = S.build_classes(uni)
            rng = random.Random(job["seed"])
            for c in uni["classes"]:
                name = c["name"]
                cls = classes[name]
                rec: Dict[str, Any] = {"name": name, "instances": [], "mutants": [], "kid_instances": []}
                real = cls.schema()
                rec["real_schema_sha"] = sha(json.dumps(real, sort_keys=True))
                try:
                    rec["jschema"] = S.to_jschema(real)
                except S.OutsideFragment as e:
                    rec["outside"] = str(e)
                mt = ["obj", name]
                kinds = S.kinds_in(env, mt)
                for inp in job["inputs"].get(name, []):
                    ir: Dict[str, Any] = {"input": inp}
                    try:
                        obj = cls.parse_obj(inp)
                    except Exception as e:  # noqa: BLE001
                        ir["built"] = False
                        ir["err"] = _exc(e)
                        rec["instances"].append(ir)
                        continue
                    ir["built"] = True
                    stored = json.loads(bytes(obj).decode("utf-8"))
                    ir["stored"] = stored
                    ir["real_valid"] = S.real_valid(real, stored, False)
                    ir["real_valid_strict"] = S.real_valid(real, stored, True)
                    if not ir["real_valid"]:
                        ir["errors"] = S.real_errors(real, stored)
                    try:
                        ir["tval"] = S.to_tval(env, mt, obj)
                    except S.Untaggable as e:
                        ir["untaggable"] = str(e)
                    tab, _bad = S.norm_table(kinds, [inp, stored])
                    ir["tab"] = tab
                    rec["instances"].append(ir)
                    obj2, nk = S.childify(cls, obj, random.Random(0))
                    if nk:      # child-schema instances in parent-typed fields: code-only oracle
                        st2 = json.loads(bytes(obj2).decode("utf-8"))
                        ok2 = S.real_valid(real, st2, False)
                        rec["kid_instances"].append({"input": inp, "stored": st2, "real_valid": ok2, "kids": nk,
                                                     "errors": [] if ok2 else S.real_errors(real, st2)})
                    for _ in range(job["n_mut"]):
                        m = S.mutate_json(rng, stored)
                        rec["mutants"].append({"json": m, "real": S.real_valid(real, m, False),
                                               "real_strict": S.real_valid(real, m, True)})
                res["classes"].append(rec)
    except vlib.CaseTimeout as e:
        res["status"] = "timeout: " + str(e)
    except Exception as e:  # noqa: BLE001
        import traceback
        res["status"] = "worker-exception: " + _exc(e) + " @ " + traceback.format_exc()[-700:]
    return res


def w_installed_schema(job) -> Dict[str, Any]:
    """Worker: one installed plugin: its schema in the fragment?  valid instances + mutants
    with the real validator's verdicts."""
    res: Dict[str, Any] = {"status": "ok", "name": job["name"], "version": job["version"], "cases": [], "kid_cases": []}
    try:
        with vlib.time_limit(240):
            from metador_core.plugins import schemas
            cls = schemas.get(job["name"], tuple(job["version"]))
            real = cls.schema()
            try:
                if S.fragment_has_pattern(real):
                    raise S.OutsideFragment("pattern")
                res["jschema"] = S.to_jschema(real)
            except S.OutsideFragment as e:
                res["outside"] = str(e)
            rng = random.Random(job["seed"])
            tries = 0
            while len(res["cases"]) < job["n"] * (1 + job["n_mut"]) and tries < 40 * job["n"]:
                tries += 1
                try:
                    obj = cls.parse_obj(S.gen_model_input(cls, rng, 0))
                except Exception:  # noqa: BLE001
                    continue
                stored = json.loads(bytes(obj).decode("utf-8"))
                ok = S.real_valid(real, stored, False)
                res["cases"].append({"json": stored, "real": ok, "real_strict": S.real_valid(real, stored, True), "valid_instance": True,
                                     "errors": [] if ok else S.real_errors(real, stored)})
                for _ in range(job["n_mut"]):
                    m = S.mutate_json(rng, stored)
                    res["cases"].append({"json": m, "real": S.real_valid(real, m, False),
                                         "real_strict": S.real_valid(real, m, True), "valid_instance": False})
                obj2, nk = S.childify(cls, obj, random.Random(0))
                if nk:
                    st2 = json.loads(bytes(obj2).decode("utf-8"))
                    ok2 = S.real_valid(real, st2, False)
                    res["kid_cases"].append({"stored": st2, "real_valid": ok2, "kids": nk,
                                             "errors": [] if ok2 else S.real_errors(real, st2)})
    except vlib.CaseTimeout as e:
        res["status"] = "timeout: " + str(e)
    except Exception as e:  # noqa: BLE001
        res["status"] = "worker-exception: " + _exc(e)
    return res


# ------------------------------------------------------------------------------------------
# model encodings

def env_sx(entries: List[dict]) -> list:
    out = []
    for e in entries:
        p = e["provider"]
        out.append([e["ref"][0], e["ref"][1], e["sha"], e["parents"], [p[0], p[1], p[2], p[3]], bool(e["ok"])])
    return out


def model_state(x) -> Dict[str, Any]:
    """of_state of the model -> the shape of state_obs."""
    links = sorted([l[0], l[1]] for l in x[0])
    schemas = []
    for e in x[1]:
        par = e[3][0] if e[3] else None
        prov = e[4][0] if e[4] else None
        schemas.append([e[0], e[1], e[2], par, prov])
    return {"links": links, "schemas": sorted(schemas, key=lambda s: s[0]), "packages": sorted(x[2])}


def _fix_pkg(p):
    return p


# ------------------------------------------------------------------------------------------
# the check

def _oracle_fails(job, kinds) -> bool:
    r = exec_history(job)
    if not r["status"] == "ok":
        return False
    return any(p["oracle"] in kinds for st in r["steps"] for p in st["problems"])


def run(ctx: vlib.Ctx):
    import time
    t0 = time.time()
    phases: Dict[str, float] = {}

    def mark(name):
        nonlocal t0
        phases[name] = round(time.time() - t0, 1)
        t0 = time.time()

    proof = ctx.check_proofs()
    mark("proofs")
    rng = ctx.rng
    cov = ctx.coverage

    # ---- universes (grammar-generated classes) and the environment table
    n_uni = ctx.budget(10, 40)
    unis = []
    for uid in range(n_uni):
        unis.append((uid, S.gen_universe(rng, uid)))
    env_res = vlib.pmap(w_env, [{"unis": unis, "seed": rng.randrange(1 << 30)}], procs=1)[0]
    if env_res["status"] != "ok":
        raise RuntimeError("environment worker failed: " + env_res["status"])
    entries = env_res["entries"]
    env = {"__".join(e["ref"]): e for e in entries}
    # An installed plugin that cannot export its JSON Schema / cannot be instantiated can never
    # be the schema of a stored object: outside the property's quantifier.  Recorded as an
    # observation (it is left out of the installed targets), never as a violation.
    for b in env_res["broken_export"]:
        ctx.notes.append(f"observation: installed schema plugin {b['ref']} is not instantiable in this tree and cannot "
                         f"export its JSON Schema ({b['exc']}; core.packerinfo: unresolved ForwardRef) - excluded from the "
                         "installed targets; no object of it can be stored, so C20 does not speak about it "
                         "(replay: corpus/replays/C20-observation-packerinfo-export.json)")
    cov["observations"] = [{"kind": "export-raises", **b} for b in env_res["broken_export"]]

    # ---- the premises env_wf of the container theorems, on the live plugin system
    env_wf_bad, chain_quirks = check_env_wf(entries)
    mark("env")
    # ---- targets: what histories attach
    envs = {"family": S.env_of(S.FAMILY)}
    targets: List[dict] = []
    for cn, (pname, pver, aux) in S.FAMILY_PLUGINS.items():
        key = pname + "__" + ".".join(map(str, pver))
        e = env[key]
        targets.append({"src": "family", "cname": cn, "envkey": "family", "req": e["ref"],
                        "store": None if e["aux"] else e["resolved"], "w": 3,
                        "kid_fields": kid_fields(envs["family"], cn)})
    for uid, uni in unis:
        envs[f"u{uid}"] = S.env_of(uni)
        plugins, _pk = S.universe_plugins(uni, uid)
        for cn, (pname, pver, aux) in plugins.items():
            e = env[pname + "__" + ".".join(map(str, pver))]
            targets.append({"src": "gen", "cname": cn, "uid": uid, "envkey": f"u{uid}", "req": e["ref"],
                            "store": e["resolved"], "w": 1, "kid_fields": kid_fields(envs[f"u{uid}"], cn)})
    for name, ver in env_res["installed"]:
        e = env[name + "__" + ".".join(map(str, ver))]
        targets.append({"src": "inst", "cname": name, "req": e["ref"], "store": e["resolved"], "w": 1.5,
                        "inputs": env_res["inputs"][name], "kid_inputs": env_res["kid_inputs"].get(name, [])})

    # ---- histories
    n_hist = ctx.budget(16, 120)
    nops = ctx.budget(22, 40)
    hists = [gen_history(rng, rng.randint(nops // 2, nops), targets, envs) for _ in range(n_hist)]
    n_random = len(hists)
    hists += pattern_histories(rng, entries, targets, envs, ctx.budget(72, 320))
    n_pattern = len(hists) - n_random
    hists += kid_histories(rng, targets, envs, ctx.budget(24, 120))
    n_hist = len(hists)
    jobs = []
    for hid in range(n_hist):
        ops = hists[hid]
        for drv in ("h5", "ih5"):
            jobs.append({"hid": hid, "drv": drv, "ops": ops, "targets": targets, "env": env, "unis": unis})
    hres = vlib.pmap(exec_history, jobs)
    mark("histories")
    mcases, midx = [], []
    for hid in range(n_hist):
        mo, idx = model_ops(jobs[2 * hid]["ops"], targets)
        mcases.append(["toc", [env_sx(entries), mo]])
        midx.append(idx)
    mres = vlib.run_model("c20", mcases)

    evals = 0
    n_steps = 0
    n_kid_objs = 0
    disagreements: List[dict] = []
    oracle_hits: Dict[str, dict] = {}
    stored_validated = 0
    states = set()
    timeouts = 0
    for j, r in zip(jobs, hres):
        if r["status"] != "ok":
            if r["status"].startswith("timeout"):
                timeouts += 1
                continue
            disagreements.append({"kind": "history-worker", "hid": j["hid"], "drv": j["drv"], "status": r["status"][:600]})
            continue
        mr = mres[j["hid"]]
        idx = midx[j["hid"]]
        pos = {i: k for k, i in enumerate(idx)}
        for i, st in enumerate(r["steps"]):
            evals += 1
            n_steps += 1
            n_kid_objs += 1 if st.get("kids") and st["status"] == "ok" else 0
            stored_validated += st["n_validated"]
            if st["obs"] and st["obs"]["links"]:
                states.add(json.dumps(st["obs"], sort_keys=True))
            for p in st["problems"]:
                key = p["oracle"] + ":" + str(p.get("schema", ""))[:40]
                if key not in oracle_hits:
                    oracle_hits[key] = {"problem": p, "hid": j["hid"], "drv": j["drv"], "step": i}
            if st["status"] == "error":
                disagreements.append({"kind": "unexpected-exception", "hid": j["hid"], "drv": j["drv"], "step": i,
                                      "op": j["ops"][i][:3], "exc": st.get("exc")})
            if i in pos:
                k = pos[i]
                if not isinstance(mr, list) or k >= len(mr) or mr[:1] == ["BAD-CASE"]:
                    disagreements.append({"kind": "model-bad-case", "hid": j["hid"], "model": str(mr)[:200]})
                    break
                want_res, want_state = mr[k][0], model_state(mr[k][1])
                if want_res != st["status"] or want_state != st["obs"]:
                    disagreements.append({"kind": "toc-state", "hid": j["hid"], "drv": j["drv"], "step": i, "op": j["ops"][i][:3],
                                          "model_res": want_res, "impl_res": st["status"], "exc": st.get("exc"),
                                          "model": want_state, "impl": st["obs"]})
                    break
    for b in env_wf_bad[:5]:
        disagreements.append({"kind": "env-wf", **b})
    if chain_quirks:
        ctx.notes.append(f"{len(chain_quirks)} parent chains pass through a non-storable member whose own chain is not the "
                         f"prefix (allowed by env_wf), e.g. {json.dumps(chain_quirks[0])[:300]}")
    cov["env_wf_checked_refs"] = len(entries)
    if timeouts:
        ctx.notes.append(f"{timeouts} history jobs timed out (machine contended); not counted")

    mark("toc-model")
    # oracle violations: shrink the history, one report per oracle kind
    reported_kinds = set()
    for key, hit in sorted(oracle_hits.items()):
        kind = hit["problem"]["oracle"]
        if kind in reported_kinds:
            continue
        reported_kinds.add(kind)
        job = dict(jobs[2 * hit["hid"] + (0 if hit["drv"] == "h5" else 1)])
        ops = job["ops"][: hit["step"] + 1]

        def fails(sub, job=job, kind=kind):
            jb = dict(job)
            jb["ops"] = sub
            jb["limit"] = 120
            return vlib.pmap(_oracle_fails_kind, [(jb, kind)], procs=1)[0]
        small = vlib.ddmin(list(ops), fails, budget=ctx.budget(30, 80))
        used_t = sorted({op[2] for op in small if op[0] == "attach"})
        ren = {t: i for i, t in enumerate(used_t)}
        small2 = [([op[0], op[1], ren[op[2]], *op[3:]] if op[0] == "attach" else op) for op in small]
        rep = {"kind": "history", "oracle": kind, "drv": hit["drv"], "ops": small2,
               "targets": [targets[t] for t in used_t],
               "unis": [[uid, uni] for uid, uni in unis if any(targets[t].get("uid") == uid for t in used_t)],
               "problem": hit["problem"]}
        ctx.violation(f"{kind} ({hit['drv']}): {json.dumps(hit['problem'], default=str)[:300]}", rep,
                      sig_obj={"kind": "history", "oracle": kind})

    ctx.sample({"history": jobs[0]["ops"][:6], "model_ops": mcases[0][1][1][:4], "model_first": mres[0][:1] if isinstance(mres[0], list) else mres[0]})

    mark("shrink")
    # ---- schema half
    sjobs = []
    n_inst = ctx.budget(6, 14)
    n_mut = ctx.budget(3, 5)
    fam_inputs = {c["name"]: [S.gen_obj_input(rng, envs["family"], c["name"], 0) for _ in range(n_inst)] for c in S.FAMILY["classes"]}
    sjobs.append({"uid": "family", "uni": S.FAMILY, "inputs": fam_inputs, "n_mut": n_mut, "seed": rng.randrange(1 << 30)})
    n_suni = ctx.budget(45, 300)
    sunis = [(uid, uni) for uid, uni in unis]
    for k in range(n_suni - len(unis)):
        sunis.append((1000 + k, S.gen_universe(rng, 1000 + k)))
    for uid, uni in sunis:
        e = S.env_of(uni)
        inputs = {c["name"]: [S.gen_obj_input(rng, e, c["name"], 0) for _ in range(n_inst)] for c in uni["classes"]}
        sjobs.append({"uid": uid, "uni": uni, "inputs": inputs, "n_mut": n_mut, "seed": rng.randrange(1 << 30)})
    sres = vlib.pmap(w_schema, sjobs)
    ijobs = [{"name": n, "version": v, "n": ctx.budget(4, 12), "n_mut": n_mut, "seed": rng.randrange(1 << 30)}
             for n, v in env_res["installed"]]
    ires = vlib.pmap(w_installed_schema, ijobs)
    mark("schema-workers")

    cases: List[Any] = []
    meta: List[Any] = []
    outside = 0
    n_classes = 0
    stored_invalid: List[dict] = []
    n_kid_inst = 0
    for jb, r in zip(sjobs, sres):
        if r["status"] != "ok":
            disagreements.append({"kind": "schema-worker", "uid": jb["uid"], "status": r["status"][:500]})
            continue
        envu = S.env_of(jb["uni"])
        for rec in r["classes"]:
            n_classes += 1
            mty = S.model_ty(envu, ["obj", rec["name"]])
            if "jschema" in rec:
                cases.append(["schema", ["export", mty]])
                meta.append(("export", jb["uid"], rec))
            else:
                outside += 1
            for ir in rec["instances"]:
                if not ir.get("built"):
                    continue
                evals += 1
                if not ir["real_valid"]:
                    stored_invalid.append({"uid": jb["uid"], "class": rec["name"], "input": ir["input"], "stored": ir["stored"],
                                           "errors": ir.get("errors")})
                if "tval" in ir and S.json_ascii(ir["stored"]) and S.json_ascii(ir["tab"]):
                    cases.append(["schema", ["conf", ir["tab"], mty, ir["tval"]]])
                    meta.append(("conf", jb["uid"], rec["name"], ir, envu))
            for kr in rec["kid_instances"]:
                evals += 1
                n_kid_inst += 1
                if not kr["real_valid"]:
                    stored_invalid.append({"uid": jb["uid"], "class": rec["name"], "input": kr["input"], "stored": kr["stored"],
                                           "errors": kr["errors"], "kid": True})
            if "jschema" in rec:
                for strict in (False, True):
                    js = [m for m in rec["mutants"] if S.json_ascii(m["json"])]
                    if js:
                        cases.append(["schema", ["valid", strict, rec["jschema"], [S.jsx(m["json"]) for m in js]]])
                        meta.append(("valid", jb["uid"], rec["name"], strict, js))
    inst_in_fragment = 0
    for jb, r in zip(ijobs, ires):
        if r["status"] != "ok":
            disagreements.append({"kind": "installed-schema-worker", "name": jb["name"], "status": r["status"][:300]})
            continue
        for c in r["cases"]:
            evals += 1
            if c["valid_instance"] and not c["real"]:
                stored_invalid.append({"installed": jb["name"], "stored": c["json"], "errors": c.get("errors")})
        for kr in r["kid_cases"]:
            evals += 1
            n_kid_inst += 1
            if not kr["real_valid"]:
                stored_invalid.append({"installed": jb["name"], "stored": kr["stored"], "errors": kr["errors"], "kid": True})
        if "jschema" in r:
            inst_in_fragment += 1
            for strict in (False, True):
                js = [c for c in r["cases"] if S.json_ascii(c["json"])]
                if js:
                    cases.append(["schema", ["valid", strict, r["jschema"], [S.jsx(c["json"]) for c in js]]])
                    meta.append(("valid", "installed", jb["name"], strict, js))
        else:
            outside += 1
    order = list(range(len(cases)))
    random.Random(ctx.seed).shuffle(order)
    sm = vlib.run_model("c20", [cases[i] for i in order])
    smres: List[Any] = [None] * len(cases)
    for k, i in enumerate(order):
        smres[i] = sm[k]

    n_conf = n_valid = n_export = 0
    nontrivial_invalid = 0
    dist_conf, dist_rej = set(), set()
    for c, m, want in zip(cases, meta, smres):
        if m[0] == "export":
            n_export += 1
            a, b = S.canon_jschema(want), S.canon_jschema(m[2]["jschema"])
            if a != b:
                disagreements.append({"kind": "export", "uid": m[1], "class": m[2]["name"], "model": a, "impl": b})
        elif m[0] == "conf":
            n_conf += 1
            ir = m[3]
            dist_conf.add(vlib.signature([m[1], m[2], ir["stored"]]))
            if not isinstance(want, list) or len(want) != 7:
                disagreements.append({"kind": "conf-bad", "model": str(want)[:200]})
                continue
            wf, okp, plain, wt, ju, valid, dump = want
            flags = {"wfb": wf, "okpos": okp, "wtb": wt, "juniq": ju, "jvalid": valid}
            if any(v != "T" for v in flags.values()):
                disagreements.append({"kind": "conf", "uid": m[1], "class": m[2], "flags": flags, "plainsets": plain,
                                      "stored": ir["stored"], "tval": ir["tval"]})
            elif (S.canon_json_ty(m[4], ["obj", m[2]], S.canon_jsx(dump))
                  != S.canon_json_ty(m[4], ["obj", m[2]], S.canon_jsx(S.jsx(ir["stored"])))):
                disagreements.append({"kind": "conf-dump", "uid": m[1], "class": m[2], "model": dump, "impl": S.jsx(ir["stored"])})
            if not ir["real_valid_strict"]:
                disagreements.append({"kind": "conf-real-strict", "uid": m[1], "class": m[2], "stored": ir["stored"]})
        else:
            strict, js = m[3], m[4]
            for k, cj in enumerate(js):
                n_valid += 1
                real = cj["real_strict"] if strict else cj["real"]
                if not real:
                    nontrivial_invalid += 1
                    dist_rej.add(vlib.signature([m[1], m[2], cj["json"]]))
                got = want[k] if isinstance(want, list) and k < len(want) else None
                if got != ("T" if real else "F"):
                    disagreements.append({"kind": "jvalid", "who": [m[1], m[2]], "strict": strict, "json": cj["json"],
                                          "model": got, "jsonschema": real})
    if stored_invalid:
        s0 = stored_invalid[0]
        ctx.violation("a valid instance as it would be stored does not validate against the JSON Schema its own "
                      f"schema class exports: {json.dumps(s0, default=str)[:400]}",
                      {"kind": "stored-invalid", "case": s0, "count": len(stored_invalid),
                       "uni": next((u for uid, u in sunis if uid == s0.get("uid")), None)},
                      sig_obj={"kind": "stored-invalid", "class": s0.get("class") or s0.get("installed")})

    mark("schema-model")
    idx = [i for i, c in enumerate(cases) if len(json.dumps(c)) < 2500]
    xc = vlib.coq_crosscheck("c20", [cases[i] for i in idx[:200]], [smres[i] for i in idx[:200]], "c20s", max_cases=ctx.budget(25, 60))
    small_t = [i for i, c in enumerate(mcases) if len(json.dumps(c)) < 60000][:3]
    xc2 = vlib.coq_crosscheck("c20", [mcases[i] for i in small_t], [mres[i] for i in small_t], "c20t", max_cases=ctx.budget(1, 3))

    mark("crosscheck")
    cov["phase_seconds"] = phases
    ctx.sample({"export_case": next((cases[i] for i, m in enumerate(meta) if m[0] == "export"), None)})
    ctx.sample({"conf_result": next((smres[i] for i, m in enumerate(meta) if m[0] == "conf"), None)})

    # ---- summary
    n_instances = evals - n_steps
    cov["evaluations"] = n_steps + stored_validated + n_instances + n_export + n_conf + n_valid
    cov["evaluations_breakdown"] = {
        "container_states_checked_by_oracle_and_compared_with_model": n_steps,
        "stored_objects_validated_against_embedded_schema": stored_validated,
        "instances_validated_against_exported_schema": n_instances,
        "export_comparisons": n_export, "conformance_cases_in_model": n_conf,
        "validator_verdicts_compared": n_valid}
    cov["distinct_nontrivial"] = len(states) + len(dist_conf) + len(dist_rej)
    cov["distinct_nontrivial_breakdown"] = {"distinct_states_with_objects": len(states),
                                            "distinct_conformance_instances": len(dist_conf),
                                            "distinct_rejected_mutants": len(dist_rej)}
    cov["rule"] = ("evaluations = container states evaluated (oracle + model comparison) + stored objects validated with "
                   "jsonschema against the embedded schema + instances validated against the exported schema + export "
                   "comparisons + conformance cases + validator verdicts compared.  distinct_nontrivial (measured, a subset "
                   "of the evaluations) = distinct container observations (objects, schema records, packages) holding at "
                   "least one object + distinct (class, stored JSON) conformance instances + distinct (schema, JSON) mutated "
                   "instances that the real validator rejects")
    cov["exhaustive"] = False
    cov["input_distribution"] = {
        "histories": n_hist, "random_histories": n_random, "pattern_histories": n_pattern, "child_instance_histories": n_hist - n_random - n_pattern,
        "stored_objects_holding_child_instances": n_kid_objs,
        "child_holding_instances_validated_against_exported_schema": n_kid_inst,
        "storable_parent_child_pairs": len(storable_pairs(entries)), "drivers": 2, "steps": sum(len(r["steps"]) for r in hres if r["status"] == "ok"),
        "stored_objects_validated_with_jsonschema": stored_validated, "distinct_states": len(states),
        "targets": {"family": len(S.FAMILY_PLUGINS), "generated": sum(1 for t in targets if t["src"] == "gen"),
                    "installed": len(env_res["installed"])},
        "ops": _hist(op[0] for j in jobs[::2] for op in j["ops"]),
        "schema_classes": n_classes, "export_compared": n_export, "conformance_cases": n_conf,
        "validator_cases": n_valid, "validator_cases_rejected_by_jsonschema": nontrivial_invalid,
        "installed_in_fragment": inst_in_fragment, "schemas_outside_fragment": outside,
    }
    cov["coq_crosscheck"] = {"schema": xc, "toc": xc2}
    cov["disagreements"] = len(disagreements)
    cov["trusted_base"] = vlib.TRUSTED_COMMON + [
        "jsonschema 4.26 Draft7Validator is the reference for validity (model jvalid compared with it on generated, installed, mutated instances)",
        "pydantic 1.10 schema exporter outside the grammar of Schema/RoundTrip.v (installed schemas with URL/date/tuple types: real validator only; export not predicted)",
        "annotation keywords (title, description, examples, default, definitions) carry no validation meaning (draft-07) and are dropped by the normaliser",
        "the stored JSON Schema is an opaque text in the bookkeeping model (compared by hash with schema_json())",
        "an attached object is identified with its TOC link in Toc/SelfDesc.v (their bijection is property C06); the user tree is not modelled (C08)",
        "environment premises env_wf (provider lists the schema; one provider per schema; one info per package id; parent_path prefix-closed for storable references) are facts about the plugin system: evaluated on the live plugin-side table in every run (check_env_wf), not proved",
    ]
    cov["trusted_base"].append(
        "C20_stored_validates speaks about values whose nested objects are instances of exactly the declared schema "
        "(the typed values of Schema/RoundTrip.v); a child-schema instance in a parent-typed field (overridden constants, "
        "extra members) is outside the model and covered by the code-only jsonschema oracle on stored bytes - export lists "
        "constant names with the schema `true`, so any constant value is accepted there (see Example C20_nonvacuous, last line)")
    ctx.assumptions += ["model strings are ASCII (non-ASCII instances are validated with the real validator only)",
                        "the plugin environment does not change during a history",
                        "set members are pairwise different as JSON values (premise juniq; follows from validity for plain member types)"]

    if not xc["ok"] or not xc2["ok"]:
        ctx.violation("extracted runner and in-Coq evaluation of the model disagree (stale or wrong extraction)",
                      {"kind": "crosscheck", "schema": xc, "toc": xc2}, found_input=False)
    if not proof["ok"]:
        ctx.violation("proof obligations of Properties/C20.v do not check: " + "; ".join(proof["problems"])[:500],
                      {"kind": "proof", "theorem_file": "coq/Properties/C20.v", "problems": proof["problems"]},
                      found_input=False)
    if disagreements and not ctx.violations and not ctx.known_hits:
        ctx.violation("model/implementation correspondence broken but the property oracle found no failing input",
                      {"kind": "correspondence",
                       "correspondence": "coq/Toc/SelfDesc.v + coq/Schema/JsonSchema.v run_c20 vs metador_core.container.interface / schema export / jsonschema",
                       "smallest_disagreement": disagreements[0], "count": len(disagreements)},
                      found_input=False)
    import os
    if os.environ.get("VERIF_C20_DEBUG"):
        with open(os.environ["VERIF_C20_DEBUG"], "w") as fh:
            json.dump(disagreements, fh, indent=1, default=str)
    if disagreements and (ctx.violations or ctx.known_hits):
        ctx.notes.append(f"{len(disagreements)} model/impl disagreements (first: {json.dumps(disagreements[0], default=str)[:600]})")


def check_env_wf(entries: List[dict]) -> Tuple[List[dict], List[dict]]:
    """env_wf of Toc/SelfDescProofs.v on the plugin-side table.  Second result: chain members
    that are not storable and whose own parent_path is not the prefix (allowed by env_wf;
    PGSchema._compute_parent_path continues from the class a parent reference resolves to)."""
    bad, quirks = [], []
    by = {tuple(e["ref"]): e for e in entries}
    ids: Dict[tuple, list] = {}
    for e in entries:
        r = e["ref"]
        if r not in e["provider"][3]:
            bad.append({"premise": "w_lists", "ref": r})
        pid = (e["provider"][0], e["provider"][1])
        if ids.setdefault(pid, e["provider"]) != e["provider"]:
            bad.append({"premise": "w_id", "package": list(pid)})
        for r2 in e["provider"][3]:
            e2 = by.get(tuple(r2))
            if e2 is not None and e2["provider"] != e["provider"]:
                bad.append({"premise": "w_unique", "ref": r2, "listed_by_provider_of": r})
        if r not in e["parents"]:
            bad.append({"premise": "w_self", "ref": r})
        for i, p in enumerate(e["parents"]):
            ep = by.get(tuple(p))
            if ep is None:
                continue
            if ep["parents"] != e["parents"][: i + 1]:
                (bad if ep["ok"] else quirks).append({"premise": "w_chain", "ref": r, "member": p,
                                                      "chain": e["parents"], "member_chain": ep["parents"]})
    return bad, quirks


def _oracle_fails_kind(arg) -> bool:
    job, kind = arg
    r = exec_history(job)
    if r["status"] != "ok":
        return False
    return any(p["oracle"] == kind for st in r["steps"] for p in st["problems"])


def _hist(it):
    h: Dict[str, int] = {}
    for x in it:
        h[str(x)] = h.get(str(x), 0) + 1
    return h


def replay(rep) -> int:
    """Re-run the recorded case on the current tree; 1 if the oracle still fails."""
    vlib._pool_init()
    kind = rep.get("kind")
    if kind == "export-raises":
        from metador_core.plugins import schemas
        name, ver = rep["ref"][0], tuple(int(x) for x in rep["ref"][1].split("."))
        try:
            schemas.get(name, ver).schema_json()
        except Exception as e:  # noqa: BLE001
            print("still failing:", _exc(e))
            return 1
        print("no longer failing")
        return 0
    if kind == "history":
        unis = [(u[0], u[1]) for u in rep.get("unis", [])]
        _install(unis)
        envr = w_env({"unis": unis, "seed": 1})
        env = {"__".join(e["ref"]): e for e in envr["entries"]}
        job = {"drv": rep["drv"], "ops": rep["ops"], "targets": rep["targets"], "env": env, "unis": unis}
        r = exec_history(job)
        hits = [p for st in r["steps"] for p in st["problems"] if p["oracle"] == rep["oracle"]]
        print(r["status"], json.dumps(hits[:2], default=str)[:800] if hits else "no longer failing")
        return 1 if hits else 0
    if kind == "stored-invalid":
        case = rep["case"]
        if case.get("installed"):
            from metador_core.plugins import schemas
            cls = schemas.get(case["installed"])
            real = cls.schema()
            obj = cls.parse_obj(case["stored"])
        else:
            classes = S.build_classes(rep["uni"]) if rep.get("uni") else S.install_family()
            cls = classes[case["class"]]
            real = cls.schema()
            obj = cls.parse_obj(case["input"])
        if case.get("kid"):
            obj = S.childify(cls, obj, random.Random(0))[0]
        stored = json.loads(bytes(obj).decode("utf-8"))
        errs = S.real_errors(real, stored)
        print("\n".join(errs) if errs else "no longer failing")
        return 1 if errs else 0
    print("replay names a proof obligation or correspondence; re-run the check itself")
    return 1
