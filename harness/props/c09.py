"""C09 — containers behave identically on plain HDF5 and on IH5 records.

Theorems (coq/Properties/C09.v): every deterministic client of the H5GroupLike protocol gets
the same trace of result classes and answers from the overlay stack as from one plain tree,
for every boundary schedule (C09_driver_equiv, C09_read_equiv, C09_layer_equiv, ...).

Oracle for the failing-input search (no model involved) = the property itself: the same history is
executed in LOCK-STEP through three drivers and every step is compared.

 (A) container level: ``MetadorContainer(h5py.File)``, ``MetadorContainer(IH5Record)``,
     ``MetadorContainer(IH5MFRecord)``; histories of create_group / create_dataset / require_* /
     ``g[p] = v`` / delete / move / copy (with and without metadata and attributes, into a path
     and into a group object) / attribute set + delete / attach + detach of metadata objects
     (two harness-registered schemas parent > child, one installed schema), issued on the
     container or on a sub-group with relative paths; patch boundaries
     (``commit_patch(); create_patch()``) and close/reopen points at random positions on the
     IH5 side only; reopen also THROUGH the container's own description of itself on every driver
     (``metador.driver(metador.source, mode)``, ``SimpleContainerProvider``: read-only view after
     close, then writable reopen) and read-only second views opened from it while the first
     container stays open (IH5: between commit_patch and create_patch); the SOURCE values differ
     by design, the view of the container reopened from them must agree.  Per step: result class (ok / refused), the full user-visible view (tree,
     dataset values, attributes), metadata objects as JSON per node per schema, query result
     sets (container level and group level, by schema without and with versions), schemas in
     use.
 (B) protocol level (no container layer): operations and read requests (get, membership,
     keys, attribute keys, visit, values; also membership / get below a dataset, conditional
     requests depending on the previous answer) on ``h5py.File``, ``IH5Record``,
     ``IH5MFRecord``; the three traces are compared with each other (oracle) and with the trace
     the model computes for the same client and schedule (correspondence, ``run_c09``).
 (C) plain-tree models (always on, no implementation involved except for a small h5py sample):
     the development has two hand-written models of "one plain HDF5-like tree" - the
     specification tree of ``IH5/Overlay.v`` (``t_step``; this file's theorems are stated over
     it) and the tree of ``Toc/UserView.v`` (``u_step``; the container theorems C06-C08/C20 are
     proved over it).  "Container theorems transfer to the IH5 driver by C09" needs both to be
     the same thing: ``props/bridge.py`` runs a few hundred operation lists of the common fragment
     through both (runner entry ``bridge``, ``coq/Bridge/BridgeRun.v``) and compares result
     class and whole tree per step; ``C09_bridge_step`` / ``_run`` / ``_overlay_view`` /
     ``_driver_view`` prove it for every operation kind of the common fragment.
     Evidence: ``coverage.plain_tree_models_agree``.
"""
from __future__ import annotations

import json
from typing import Any, Dict, List, Optional, Tuple

import ih5lib
import vlib
from ih5lib import dec, enc
from props import bridge

OP_TIMEOUT = 60      # per operation / observation; generous because the machine is shared
DRIVERS = ["h5", "ih5", "mf"]
DRV_NAME = {"h5": "h5py.File", "ih5": "IH5Record", "mf": "IH5MFRecord"}

# keys from the documented IH5 alphabet: printable ASCII without '@' and '/'; "." alone is
# read by HDF5 as "this group"; names starting with "metador_" are reserved (C08)
KEY_POOL = ["a", "b", "c", "d", "!", "~", "a.b", "x-1", "Z9", "#", "%s", "k=v", "[0]", "(", ")",
            "\"q\"", "'", "\\", "*", "?", "|", "{}", "+", "^", "`", "$", "&", ";", "<>", ",", "a_b",
            "0", "-", "=", ":", "~~", "!a", "meta", "xmetador_y"]
VALUES = ["i:0", "i:1", "i:7", "i:42", "i:-3", "v:00", "v:7f00", "v:417f", "v:deadbeef", "e:"]
INT_VALUES = ["i:0", "i:1", "i:7", "i:42", "i:-3"]
ATTR_KEYS = ["k", "m", "~", "a.b", "="]

S_SIMPLE, S_CHILD, S_PERSON = "c09.simple", "c09.child", "core.person"
SCHEMA_NAMES = [S_SIMPLE, S_CHILD, S_PERSON]
OBJECTS = {
    S_SIMPLE: [{"x": 1, "s": "one"}, {"x": 2, "s": "two"}, {}],
    S_CHILD: [{"x": 3, "s": "c", "y": 7}, {"y": 0}],
    S_PERSON: [{"name": "Jane Doe"}, {"name": "Max Mustermann"}],
}
QUERY_VERSIONS = [None, (0, 1, 0), (1, 0, 0)]

_SCHEMAS_READY = False


def ensure_schemas():
    """Register the harness schemas (parent ``c09.simple`` > child ``c09.child``) in the live
    plugin group of this process, with a provider package record so that the container TOC can
    store its dependency information."""
    global _SCHEMAS_READY
    if _SCHEMAS_READY:
        return
    from types import SimpleNamespace
    from metador_core.plugin.types import to_ep_name
    from metador_core.plugin.util import register_in_group
    from metador_core.plugins import schemas
    from metador_core.schema import MetadataSchema
    from metador_core.schema.plugins import PluginPkgMeta

    class Simple(MetadataSchema):
        class Plugin:
            name = S_SIMPLE
            version = (0, 1, 0)
        x: int = 0
        s: str = "a"

    class Child(Simple):
        class Plugin:
            name = S_CHILD
            version = (0, 1, 0)
        y: int = 1

    refs = []
    for C in (Simple, Child):
        register_in_group(schemas, C, violently=True)
        ep = to_ep_name(C.Plugin.name, C.Plugin.version)
        schemas._ENTRY_POINTS[ep] = SimpleNamespace(dist=SimpleNamespace(name="c09-harness-pkg"))
        refs.append(schemas.PluginRef(name=C.Plugin.name, version=C.Plugin.version))
    schemas._PKG_META["c09-harness-pkg"] = PluginPkgMeta(
        name="c09-harness-pkg", version=(0, 1, 0), plugins={"schema": refs})
    _SCHEMAS_READY = True


# ---------------------------------------------------------------------------- (A) container level

def absname(segs) -> str:
    return "/" + "/".join(segs)


def _is_ds(node) -> bool:
    import h5py
    return hasattr(node, "ndim") or isinstance(node, h5py.Dataset)


def apply_container(mc, op):
    """One container-level operation.  Path arguments are strings as the user would write them
    (relative to the receiver, or absolute); op[1] is the receiver: the absolute path of the group
    the method is called on ("/" = the container object itself)."""
    from metador_core.plugins import schemas
    k = op[0]
    if k in ("attach", "detach") and len(op) == (4 if k == "attach" else 3):
        op = [k, "/", op[1]] + list(op[2:])          # older form: absolute node path, no receiver
    g = mc if op[1] == "/" else mc[op[1]]
    if k == "attach":
        node = g if op[2] == "" else g[op[2]]
        node.meta[op[3]] = schemas.get(op[3])(**OBJECTS[op[3]][op[4]])
    elif k == "detach":
        node = g if op[2] == "" else g[op[2]]
        del node.meta[op[3]]
    elif k == "mkgrp":
        g.create_group(op[2])
    elif k == "reqgrp":
        g.require_group(op[2])
    elif k == "mkds":
        g.create_dataset(op[2], data=dec(op[3]))
    elif k == "reqds":
        g.require_dataset(op[2], shape=(), dtype="int64", data=dec(op[3]))
    elif k == "set":
        g[op[2]] = dec(op[3])
    elif k == "del":
        del g[op[2]]
    elif k == "move":
        g.move(op[2], op[3])
    elif k == "copy":
        src = g[op[2]] if (len(op) > 6 and op[6]) else op[2]      # op[6]: pass the source as node object
        g.copy(src, op[3], without_meta=bool(op[4]), without_attrs=bool(op[5]))
    elif k == "copyinto":
        dg = mc[op[3]] if op[3].startswith("/") else g[op[3]]
        if _is_ds(dg):
            raise TypeError("destination is not a group")
        kw = {"name": op[4]} if op[4] else {}
        src = g[op[2]] if (len(op) > 6 and op[6]) else op[2]
        g.copy(src, dg, without_meta=bool(op[5]), **kw)
    elif k == "aset":
        (g if op[2] == "" else g[op[2]]).attrs[op[3]] = dec(op[4])
    elif k == "adel":
        del (g if op[2] == "" else g[op[2]]).attrs[op[3]]
    else:
        raise ValueError(k)


def observe_container(mc) -> Dict[str, Any]:
    """Everything the user can see: tree + values + attributes, metadata objects, query sets."""
    view: Dict[str, list] = {}
    meta: Dict[str, Any] = {}

    def rec(name, node):
        at = sorted([k, enc(node.attrs[k])] for k in node.attrs.keys())
        view[name] = ["D", enc(node[()]), at] if _is_ds(node) else ["G", at]
        ms = {}
        for s in sorted(node.meta.keys()):
            obj = node.meta.get(s)
            ms[s] = json.dumps(json.loads(obj.json()), sort_keys=True) if obj is not None else None
        if ms:
            meta[name] = ms
        # parent-compatible access: a child instance answers for the parent schema
        for s in SCHEMA_NAMES:
            if s not in ms and s in node.meta:
                meta.setdefault(name, {})["via:" + s] = json.dumps(json.loads(node.meta.get(s).json()), sort_keys=True)

    rec("/", mc)
    pairs = []
    mc.visititems(lambda n, o: pairs.append((n, o)) or None)
    for n, o in pairs:
        rec("/" + n.strip("/"), o)
    groups = sorted(n for n, e in view.items() if e[0] == "G")
    starts = ["/"] + [g for g in groups if g != "/"][:2]
    queries = {}
    for s in SCHEMA_NAMES:
        for ver in QUERY_VERSIONS:
            # container level: every version form; group level (two groups): without version and
            # with the stored one (every query is a full visit with a metadata lookup per node)
            for st in (starts if ver is None else starts[:1] if ver != (0, 1, 0) else starts[:2]):
                node = mc if st == "/" else mc[st]
                try:
                    res = sorted(n.name for n in node.metador.query(s, ver))
                except Exception as e:  # noqa: BLE001
                    res = "EXC"
                queries[f"{s}|{ver}|{st}"] = res
    listings = {}
    for gname in groups:
        g = mc if gname == "/" else mc[gname]
        ks = list(g.keys())
        listings[gname] = [ks, len(g), sorted(k for k in ks if k in g)]
        if gname not in starts:
            continue
        # reads through the group as receiver (root and up to three groups): names reported by
        # visit / visititems are relative to it; they (multi-segment relative paths) must be found
        # by `in`, get and []
        vis: List[str] = []
        g.visit(lambda n: vis.append(n) or None)
        vi: List[list] = []
        g.visititems(lambda n, o: vi.append([n, o.name, "D" if _is_ds(o) else "G"]) or None)
        deep = sorted(vis, key=lambda n: (-n.count("/"), n))[:6]
        rel = [[n, n in g, getattr(g.get(n), "name", None), g[n].name] for n in deep]
        absl = [[n, ("/" + n.strip("/")) in g] for n in list(view)[:3]]
        listings[gname] += [vis, vi, rel, absl, sorted(v.name for v in g.values()),
                            sorted([k, v.name] for k, v in g.items())]
    toc = sorted(str(r) for r in mc.metador.schemas.keys())
    # lookups that find nothing: missing names, paths leading through a dataset
    probes = {}
    dsets = sorted(n for n, e in view.items() if e[0] == "D")[:2]
    for pth in ["/zz/y", "zz"] + [n + "/zz" for n in dsets] + [n.lstrip("/") + "/zz/y" for n in dsets[:1]]:
        for what, f in (("in", lambda: pth in mc), ("get", lambda: mc.get(pth) is None)):
            try:
                probes[f"{what} {pth}"] = f()
            except Exception as e:  # noqa: BLE001
                probes[f"{what} {pth}"] = "EXC"          # exception classes are compared only coarsely
    return {"view": view, "meta": meta, "queries": queries, "listings": listings, "schemas": toc, "probes": probes}


class ContainerRun:
    """One driver executing a history step by step."""

    def __init__(self, drv: str, d):
        import h5py
        from metador_core.container import MetadorContainer
        from metador_core.ih5.container import IH5MFRecord, IH5Record
        self.drv, self.dir = drv, d
        self.cls = {"ih5": IH5Record, "mf": IH5MFRecord}.get(drv)
        if drv == "h5":
            self.raw = h5py.File(d / "plain.h5", "w")
        else:
            self.raw = self.cls(d / ("rec" + drv), "w")
        self.mc = MetadorContainer(self.raw)
        self.dead: Optional[str] = None

    def _second_view(self, opener) -> Dict[str, Any]:
        """Observation through another, read-only container object obtained by `opener`."""
        v = opener()
        try:
            o = observe_container(v)
            o["mode2"] = str(v.mode)
            return o
        finally:
            v.close()

    def step(self, op) -> Dict[str, Any]:
        from metador_core.container import MetadorContainer
        from metador_core.container.provider import SimpleContainerProvider
        if self.dead:
            return {"cls": "dead", "err": self.dead, "obs": None}
        cls, err = "ok", None
        second = None
        try:
            with ih5lib.hard_time_limit(OP_TIMEOUT):
                if op[0] == "bnd":
                    if self.drv != "h5":
                        self.raw.commit_patch()
                        self.raw.create_patch()
                elif op[0] == "peek":
                    # a second, read-only view opened from the container's own description of
                    # itself while the first stays open (IH5: between commit_patch and create_patch)
                    if self.drv != "h5":
                        self.raw.commit_patch()
                    else:
                        self.raw.flush()
                    toc = self.mc.metador
                    second = self._second_view(lambda: MetadorContainer(toc.driver(toc.source, "r")))
                    second.pop("mode2")        # plain HDF5 shares the handle: mode not comparable
                    if self.drv != "h5":
                        self.raw.create_patch()
                elif op[0] == "reopen" and len(op) > 1 and op[1] == "src":
                    # reopen THROUGH metador.source / metador.driver (all drivers, also plain HDF5):
                    # remember the container in a provider, close, look at it through the provider
                    # (read-only), then reopen it writable from (driver, source)
                    prov = SimpleContainerProvider()
                    prov["k"] = self.mc
                    src, drv_cls = self.mc.metador.source, self.mc.metador.driver
                    self.raw.close()
                    second = self._second_view(lambda: prov.get("k"))
                    # (metador.driver of an IH5MFRecord is IH5Record: keep the manifest variant)
                    self.raw = (self.cls if self.drv == "mf" else drv_cls)(src, "r+")
                    self.mc = MetadorContainer(self.raw)
                elif op[0] == "reopen":
                    if self.drv != "h5":
                        self.raw.close()
                        # mode "r+" = open + create_patch (mode "r" does not allow patching)
                        self.raw = self.cls(self.dir / ("rec" + self.drv), "r+")
                        self.mc = MetadorContainer(self.raw)
                else:
                    apply_container(self.mc, op)
        except vlib.CaseTimeout:
            self.dead = "timeout"
            return {"cls": "timeout", "err": "operation did not terminate", "obs": None}
        except Exception as e:  # noqa: BLE001
            cls, err = "fail", f"{type(e).__name__}: {e}"[:200]
            if op[0] in ("bnd", "reopen", "peek"):
                cls = "boundary-error"
        try:
            with ih5lib.hard_time_limit(OP_TIMEOUT):
                obs = observe_container(self.mc)
                obs["mode"] = str(self.mc.mode)
                if op[0] in ("peek", "reopen") and (op[0] == "peek" or op[1:] == ["src"]):
                    obs["second-view"] = second
        except vlib.CaseTimeout:
            self.dead = "timeout-in-read"
            return {"cls": cls, "err": err, "obs": {"READ": "timeout"}}
        except Exception as e:  # noqa: BLE001
            obs = {"READ": "error"}
            err = (err or "") + f" | observation failed: {type(e).__name__}: {e}"[:200]
        return {"cls": cls, "err": err, "obs": obs}

    def close(self):
        try:
            self.raw.close()
        except Exception:  # noqa: BLE001
            pass


def _first_key_diff(a: Any, b: Any, prefix="") -> str:
    if isinstance(a, dict) and isinstance(b, dict):
        for k in sorted(set(a) | set(b)):
            if a.get(k) != b.get(k):
                return _first_key_diff(a.get(k), b.get(k), f"{prefix}/{k}" if prefix else str(k))
    return f"{prefix}: {json.dumps(a, default=str)[:140]} vs {json.dumps(b, default=str)[:140]}"


def lockstep_container(ops, drivers=DRIVERS) -> Dict[str, Any]:
    """Run the history through all drivers in lock-step; first difference against h5py.File.
    A difference in the lookup probes alone is recorded once ("probe_diff") and the run goes
    on without them, so that it does not mask differences of other kinds."""
    ensure_schemas()
    out: Dict[str, Any] = {"diff": None, "probe_diff": None, "classes": [], "nontrivial": 0, "error": None}
    with vlib.workdir("c09") as d:
        runs = []
        try:
            runs = [ContainerRun(drv, d) for drv in drivers]
            seen_bnd = False
            for i, op in enumerate(ops):
                res = [r.step(op) for r in runs]
                out["classes"].append([x["cls"] for x in res])
                if op[0] in ("bnd", "reopen", "peek"):
                    seen_bnd = True
                elif seen_bnd and res[0]["cls"] == "ok":
                    out["nontrivial"] += 1
                ref = res[0]
                for drv, x in zip(drivers[1:], res[1:]):
                    if x["cls"] != ref["cls"]:
                        aspect = "timeout" if x["cls"] in ("timeout", "dead") else (
                            "boundary" if x["cls"] == "boundary-error" else "outcome")
                        out["diff"] = {"step": i, "driver": drv, "aspect": aspect, "op": op,
                                       "what": f"{DRV_NAME[drv]}: {x['cls']} ({x['err']}) vs h5py.File: {ref['cls']} ({ref['err']})"}
                        return out
                    a, b = dict(x["obs"] or {}), dict(ref["obs"] or {})
                    pa, pb = a.pop("probes", None), b.pop("probes", None)
                    if a != b:
                        aspect = next((k for k in ("READ", "view", "meta", "queries", "listings", "schemas", "mode", "second-view")
                                       if a.get(k) != b.get(k)), "obs")
                        out["diff"] = {"step": i, "driver": drv, "aspect": aspect, "op": op,
                                       "what": f"{DRV_NAME[drv]} vs h5py.File differ in {aspect} at "
                                               + _first_key_diff(a.get(aspect), b.get(aspect))}
                        return out
                    if pa != pb and out["probe_diff"] is None:
                        out["probe_diff"] = {"step": i, "driver": drv, "aspect": "probes", "op": op,
                                             "what": f"{DRV_NAME[drv]} vs h5py.File differ in a lookup that finds nothing: "
                                                     + _first_key_diff(pa, pb)}
        except Exception as e:  # noqa: BLE001
            import traceback
            out["error"] = f"{type(e).__name__}: {e}"[:200] + " | " + traceback.format_exc()[-500:]
        finally:
            for r in runs:
                r.close()
    return out


def diffs_of(level: str, ops) -> List[Dict[str, Any]]:
    r = lockstep_container(ops) if level == "container" else lockstep_protocol(ops)
    return [d for d in (r.get("diff"), r.get("probe_diff")) if d]


# ---- generator

class Mirror:
    """Rough mirror of the user tree, only to bias the generator."""

    def __init__(self):
        self.nodes: Dict[Tuple[str, ...], str] = {(): "G"}
        self.meta: set = set()
        self.attrs: set = set()

    def groups(self):
        return [p for p, k in self.nodes.items() if k == "G"]

    def datasets(self):
        return [p for p, k in self.nodes.items() if k == "D"]

    def mk(self, p, kind):
        p = tuple(p)
        for i in range(1, len(p)):
            if self.nodes.get(p[:i]) == "D":
                return
        for i in range(1, len(p)):
            self.nodes.setdefault(p[:i], "G")
        if p and p not in self.nodes:
            self.nodes[p] = kind

    def rm(self, p):
        p = tuple(p)
        if not p:
            return
        for q in [q for q in self.nodes if q[:len(p)] == p]:
            del self.nodes[q]
        self.meta = {(q, s) for (q, s) in self.meta if q[:len(p)] != p}
        self.attrs = {(q, s) for (q, s) in self.attrs if q[:len(p)] != p}

    def cp(self, s, d, move=False, with_meta=True):
        s, d = tuple(s), tuple(d)
        if s not in self.nodes or d in self.nodes or not s or not d or d[:len(s)] == s:
            return
        for i in range(1, len(d)):
            if self.nodes.get(d[:i]) == "D":
                return
        sub = {q: k for q, k in self.nodes.items() if q[:len(s)] == s}
        msub = {(q, sc) for (q, sc) in self.meta if q[:len(s)] == s}
        asub = {(q, sc) for (q, sc) in self.attrs if q[:len(s)] == s}
        for i in range(1, len(d)):
            self.nodes.setdefault(d[:i], "G")
        if move:
            self.rm(s)
        for q, k in sub.items():
            self.nodes[d + q[len(s):]] = k
        if with_meta or move:
            self.meta |= {(d + q[len(s):], sc) for (q, sc) in msub}
        self.attrs |= {(d + q[len(s):], sc) for (q, sc) in asub}


def _spell(rng, cwd: List[str], target: List[str]) -> str:
    """Path string denoting `target` for a call on the group `cwd`: relative (also multi-segment)
    when the target lies below the receiver, else absolute; canonical spelling (no '.', no '..',
    no empty segments -- outside the documented key alphabet)."""
    if target[:len(cwd)] == cwd and len(target) > len(cwd) and rng.random() < 0.85:
        return "/".join(target[len(cwd):])
    return absname(target)


def _mirror_apply(mir: "Mirror", op):
    """Approximate effect of a (prefix) operation on the generator's mirror."""
    k = op[0]
    if k in ("bnd", "reopen", "peek"):
        return
    if k in ("attach", "detach"):
        t = tuple(s for s in op[1].split("/") if s)
        (mir.meta.add if k == "attach" else mir.meta.discard)((t, op[2]))
        return                                  # (prefixes use the older absolute form)
    cwd = [s for s in op[1].split("/") if s]

    def res(p):
        return [s for s in p.split("/") if s] if p.startswith("/") else cwd + [s for s in p.split("/") if s]
    if k in ("mkgrp", "reqgrp"):
        mir.mk(res(op[2]), "G")
    elif k in ("mkds", "reqds", "set"):
        mir.mk(res(op[2]), "D")
    elif k == "del":
        mir.rm(res(op[2]))
    elif k in ("move", "copy"):
        mir.cp(res(op[2]), res(op[3]), move=(k == "move"))


def gen_container_history(rng, nops: int, keys: List[str], p_bnd: float, features: Dict[str, bool],
                          prefix: Optional[List[list]] = None) -> List[list]:
    mir = Mirror()
    ops: List[list] = []
    for op in prefix or []:
        ops.append(op)
        _mirror_apply(mir, op)
    val = lambda: rng.choice(VALUES)  # noqa: E731
    removed: List[List[str]] = []     # names deleted / moved away in the current or previous patch
    for op in prefix or []:
        if op[0] in ("del", "move") and op[2].startswith("/"):
            removed.append([x for x in op[2].split("/") if x])
    while len(ops) < nops:
        if rng.random() < p_bnd and ops and ops[-1][0] not in ("bnd", "reopen", "peek"):
            ops.append(rng.choices([["bnd"], ["reopen"], ["reopen", "src"], ["peek"]], [50, 15, 20, 15])[0])
            removed = removed[-4:]        # names removed in the previous patch stay candidates
            continue
        groups = mir.groups()
        # the receiver ("cwd"): the container object or an existing group of depth 1..3
        nonroot = [g for g in groups if 1 <= len(g) <= 3]
        cwd = list(rng.choice(nonroot)) if nonroot and rng.random() < 0.55 else []
        cwds = absname(cwd)
        existing = [list(p) for p in mir.nodes if p]
        below = [p for p in existing if p[:len(cwd)] == cwd and len(p) > len(cwd)]

        def fresh():
            # names removed earlier in this patch or in the previous one come back
            live = [p for p in removed if tuple(p) not in mir.nodes
                    and all(mir.nodes.get(tuple(p[:i])) != "D" for i in range(1, len(p)))]
            if live and rng.random() < 0.3:
                return list(rng.choice(live))
            # mostly below the receiver (relative spelling possible), one or two new segments,
            # possibly under an existing sub-group of the receiver
            if cwd and rng.random() < 0.8:
                subs = [list(g) for g in groups if list(g[:len(cwd)]) == cwd]
                base = list(rng.choice(subs)) if subs and rng.random() < 0.4 else list(cwd)
            else:
                base = list(rng.choice(groups))
            return base + [rng.choice(keys) for _ in range(1 if rng.random() < 0.65 else 2)]

        def some_existing():
            if below and rng.random() < 0.7:
                return list(rng.choice(below))
            return rng.choice(existing) if existing and rng.random() < 0.9 else fresh()

        def node_spell(t):
            """Spelling of a node that may be the receiver itself ("" = the receiver)."""
            return "" if t == cwd else _spell(rng, cwd, t)

        r = rng.random()
        if len(existing) < 2 or (not nonroot and rng.random() < 0.5):
            r *= 0.26                              # nothing there yet: create first
            if not nonroot:
                r *= 0.5                           # ... groups, to have receivers
        op: Optional[list] = None
        if r < 0.10:
            t = fresh()
            op = ["mkgrp", cwds, _spell(rng, cwd, t)]
            mir.mk(t, "G")
        elif r < 0.14:
            t = some_existing() if rng.random() < 0.5 else fresh()
            op = ["reqgrp", cwds, _spell(rng, cwd, t)]
            mir.mk(t, "G")
        elif r < 0.26:
            t = fresh()
            kind = rng.choice(["set", "set", "mkds"])
            op = [kind, cwds, _spell(rng, cwd, t), val()]
            mir.mk(t, "D")
        elif r < 0.30:
            if not features.get("reqds", True):
                continue
            t = some_existing() if rng.random() < 0.5 else fresh()
            op = ["reqds", cwds, _spell(rng, cwd, t), rng.choice(INT_VALUES)]
            mir.mk(t, "D")
        elif r < 0.38:
            t = some_existing()
            if t == cwd:
                continue
            op = ["del", cwds, _spell(rng, cwd, t)]
            mir.rm(t)
            removed.append(list(t))
        elif r < 0.47:
            s, d = some_existing(), fresh()
            if d[:len(s)] == s or s == cwd or cwd[:len(s)] == s:
                continue                      # into the own subtree / the receiver itself: excluded
            op = ["move", cwds, _spell(rng, cwd, s), _spell(rng, cwd, d)]
            mir.cp(s, d, move=True)
            removed.append(list(s))
        elif r < 0.57:
            s, d = some_existing(), fresh()
            if d[:len(s)] == s and rng.random() < 0.6:
                continue                      # copies of a group into its own subtree: kept, but rare
            wm, wa = rng.random() < 0.35, rng.random() < 0.2
            # (plain h5py/HDF5 looks up an ABSOLUTE copy destination relative to the calling group:
            # g.copy("x", "/a/b") fails when g has a dataset "a"; the container wrapper issues
            # absolute destinations on the root group, so both spellings are legitimate here)
            op = ["copy", cwds, _spell(rng, cwd, s), _spell(rng, cwd, d), wm, wa, rng.random() < 0.25]
            mir.cp(s, d, with_meta=not wm)
        elif r < 0.63:
            s = some_existing()
            cands = groups if features.get("copy_into_root", True) else [g for g in groups if g]
            if not cands:
                continue
            dg = list(rng.choice(cands))
            name = rng.choice(keys) if rng.random() < 0.7 else ""
            back = [p for p in removed if tuple(p) not in mir.nodes and mir.nodes.get(tuple(p[:-1])) == "G"]
            if back and rng.random() < 0.4:
                q = rng.choice(back)
                dg, name = list(q[:-1]), q[-1]
            d = dg + ([name] if name else s[-1:])
            if d[:len(s)] == s and rng.random() < 0.6:
                continue                      # (into the own subtree: kept, but rare)
            wm = rng.random() < 0.35
            dgs = absname(dg) if (dg == cwd or dg[:len(cwd)] != cwd or rng.random() < 0.5) else "/".join(dg[len(cwd):])
            op = ["copyinto", cwds, _spell(rng, cwd, s), dgs, name, wm, rng.random() < 0.4]
            mir.cp(s, d, with_meta=not wm)
        elif r < 0.70:
            t = some_existing() if rng.random() < 0.85 else list(cwd)
            k = rng.choice(ATTR_KEYS)
            op = ["aset", cwds, node_spell(t), k, val()]
            if tuple(t) in mir.nodes:
                mir.attrs.add((tuple(t), k))
        elif r < 0.74:
            have = sorted(mir.attrs)
            if have and rng.random() < 0.8:
                t, k = rng.choice(have)
                mir.attrs.discard((t, k))
            else:
                t, k = tuple(some_existing()), rng.choice(ATTR_KEYS)
            op = ["adel", cwds, node_spell(list(t)), k]
        elif r < 0.90:
            t = some_existing() if rng.random() < 0.85 else list(cwd)
            sc = rng.choice(SCHEMA_NAMES)
            op = ["attach", cwds, node_spell(t), sc, rng.randrange(len(OBJECTS[sc]))]
            if tuple(t) in mir.nodes:
                mir.meta.add((tuple(t), sc))
        else:
            have = sorted(mir.meta)
            if have and rng.random() < 0.85:
                t, sc = rng.choice(have)
                mir.meta.discard((t, sc))
            else:
                t, sc = tuple(some_existing()), rng.choice(SCHEMA_NAMES)
            op = ["detach", cwds, node_spell(list(t)), sc]
        ops.append(op)
    return ops


def container_patterns() -> List[List[list]]:
    """Shapes named by the property / known to be delicate for the overlay."""
    P = []
    # delete the last metadata object of a schema in one patch, re-attach in a later patch
    # (TOC bookkeeping: create below a deleted ancestor)
    P.append([["set", "/", "a/x", "i:1"], ["attach", "/a/x", S_SIMPLE, 0], ["bnd"], ["detach", "/a/x", S_SIMPLE], ["bnd"],
              ["attach", "/a", S_SIMPLE, 1], ["bnd"], ["attach", "/a/x", S_CHILD, 0], ["reopen"], ["detach", "/a", S_SIMPLE]])
    # move / copy of nodes with metadata across patches
    P.append([["set", "/", "a/x", "i:1"], ["attach", "/a/x", S_PERSON, 0], ["attach", "/a", S_CHILD, 0], ["bnd"],
              ["move", "/", "a", "b/c"], ["bnd"], ["copy", "/", "b/c/x", "y", False, False], ["reopen"],
              ["copy", "/", "b", "d", True, False], ["bnd"], ["del", "/", "b"], ["copy", "/b2", "x", "z", False, True]])
    # copy into group objects (also the root group)
    P.append([["mkgrp", "/", "g"], ["set", "/", "d", "i:7"], ["attach", "/d", S_SIMPLE, 0], ["bnd"],
              ["copyinto", "/", "/d", "/g", "", False], ["copyinto", "/", "/d", "/g", "n", True], ["bnd"],
              ["copyinto", "/", "/g", "/", "g2", False], ["copyinto", "/", "/d", "/", "d2", False]])
    # require_* and attributes across patches, delete / re-create
    P.append([["reqgrp", "/", "a/b"], ["reqds", "/a", "b/v", "i:1"], ["aset", "/", "/a/b/v", "k", "i:2"], ["bnd"],
              ["reqds", "/", "a/b/v", "i:7"], ["reqgrp", "/", "a/b/v"], ["adel", "/", "/a/b/v", "k"], ["bnd"],
              ["del", "/a", "b"], ["reqgrp", "/a", "b"], ["set", "/a/b", "v", "v:00"], ["reopen"], ["reqds", "/", "a/b/v", "i:1"]])
    # replace-then-touch with metadata on a group
    P.append([["set", "/", "a/old", "i:1"], ["attach", "/a", S_PERSON, 0], ["bnd"], ["del", "/", "a"], ["mkgrp", "/", "a"],
              ["set", "/", "a/new", "i:2"], ["bnd"], ["attach", "/a", S_PERSON, 1], ["bnd"], ["aset", "/", "/a", "k", "i:4"]])
    # reopen through the container's own description of itself (metador.driver / metador.source,
    # provider), second read-only views, after in-session patch boundaries
    P.append([["set", "/", "a/x", "i:1"], ["attach", "/", "a", S_SIMPLE, 0], ["bnd"], ["set", "/a", "y", "i:2"], ["reopen", "src"],
              ["set", "/", "b", "i:3"], ["peek"], ["attach", "/a", "y", S_PERSON, 0], ["bnd"], ["del", "/a", "x"], ["bnd"],
              ["mkgrp", "/", "c/d"], ["reopen", "src"], ["peek"], ["set", "/c/d", "e", "i:4"], ["reopen"], ["reopen", "src"]])
    # a name removed in the current patch comes back by every creating operation (group made in
    # the current patch / in an earlier one; copy into the group OBJECT with name=, receivers / and G)
    for early in (False, True):
        mk = [["mkgrp", "/", "/g"], ["bnd"]] if early else [["bnd"], ["mkgrp", "/", "/g"]]
        P.append([["set", "/", "/x", "i:1"], ["attach", "/", "/x", S_SIMPLE, 0], ["mkgrp", "/", "/y/z"]] + mk + [
            ["set", "/g", "n1", "i:2"], ["mkgrp", "/g", "n2"], ["set", "/", "/g/n3", "i:3"], ["set", "/g", "n4", "i:4"],
            ["mkgrp", "/", "/g/n5/q"], ["set", "/g", "n6", "i:6"], ["set", "/g", "n7", "i:7"], ["aset", "/g", "", "k", "i:1"],
            ["del", "/g", "n1"], ["del", "/", "/g/n2"], ["move", "/g", "n3", "/m3"], ["del", "/g", "n4"], ["del", "/", "/g/n5"],
            ["move", "/", "/g/n6", "/m6"], ["del", "/g", "n7"], ["adel", "/g", "", "k"],
            ["copyinto", "/", "/x", "/g", "n1", False, False], ["copyinto", "/g", "/y", "/g", "n2", False, True],
            ["copy", "/g", "/x", "n3", True, False, False], ["mkds", "/g", "n4", "i:9"], ["reqgrp", "/", "/g/n5"],
            ["move", "/", "/m6", "/g/n6"], ["reqds", "/g", "n7", "i:5"], ["aset", "/", "/g", "k", "i:2"],
            ["peek"], ["del", "/g", "n1"], ["copyinto", "/g", "/m3", "/g", "n1", True, False], ["reopen", "src"],
            ["del", "/", "/g/n2"], ["bnd"], ["copyinto", "/", "/g/n1", "/g", "n2", False, False]])
    # create below a deleted ancestor (user level), with metadata on the old and the new nodes
    P.append([["set", "/", "a/q", "i:1"], ["attach", "/a/q", S_SIMPLE, 0], ["attach", "/a", S_CHILD, 1], ["bnd"], ["del", "/", "a"], ["bnd"],
              ["mkgrp", "/", "a/b/c"], ["set", "/", "a/b/c/d", "i:2"], ["attach", "/a/b", S_SIMPLE, 1], ["bnd"], ["set", "/a", "z", "i:3"],
              ["attach", "/a/b/c/d", S_PERSON, 0], ["reopen"], ["copy", "/", "a/b", "a/q", False, False]])
    P.append([["set", "/", "a/q/r", "i:1"], ["bnd"], ["del", "/a", "q"], ["mkgrp", "/", "a/q/r/s"], ["bnd"], ["set", "/", "a/q/t", "i:2"],
              ["attach", "/a/q/r", S_SIMPLE, 0], ["bnd"], ["move", "/", "a/q", "m"], ["reqgrp", "/", "a/q/r"]])
    return P


def recreate_shape(rng, k: List[str]) -> List[list]:
    """A name removed in the current (or the previous) patch is created again: past a boundary, a
    group G (made in the current or in an earlier patch) gets a child N, N is deleted or moved
    away, leaving a deletion marker in the newest container file; then N comes back through one
    of the creating operations -- copy into the group OBJECT G with name=N, copy / move to the
    path G/N, create_dataset / create_group / require_* / G[N] = v -- issued on the root or on
    G; the same for attributes (set, del, set within one patch)."""
    val = lambda: rng.choice(VALUES)  # noqa: E731
    bnd = lambda: [rng.choice([["bnd"], ["bnd"], ["reopen"], ["reopen", "src"], ["peek"]])]  # noqa: E731
    G, N, X = "/" + k[0], k[1], "/" + k[2]
    GN = f"{G}/{N}"
    H: List[list] = [["set", "/", X, val()]]
    if rng.random() < 0.5:
        H += [["attach", "/", X, rng.choice(SCHEMA_NAMES), 0]]
    if rng.random() < 0.3:
        H += [["set", "/", "/" + k[3] + "0", val()]]
    g_early = rng.random() < 0.5
    if g_early:                                   # G made in an earlier patch than the marker
        H += [["mkgrp", "/", G]] + bnd()
        n_early = rng.random() < 0.4
        if n_early:                               # ... and N too: the marker hides an older node
            H = H[:-1] + [rng.choice([["set", "/", GN, val()], ["mkgrp", "/", GN + "/" + k[4]]])] + H[-1:]
    else:
        H += bnd() + [["mkgrp", "/", G]]
        n_early = False
    if not n_early:
        H += [rng.choice([["set", "/", GN, val()], ["set", G, N, val()], ["mkgrp", G, N], ["mkgrp", "/", GN + "/" + k[4]]])]
    if rng.random() < 0.3:
        H += [["aset", G, N, "k", val()]]
    # remove N in the same patch (or: in the previous one)
    H += [rng.choice([["del", "/", GN], ["del", G, N], ["move", "/", GN, "/" + k[3] + "1"], ["move", G, N, "/" + k[3] + "1"]])]
    if rng.random() < 0.25:
        H += bnd()
    recv = rng.choice(["/", G])
    pth = N if recv == G and rng.random() < 0.7 else GN
    H += [["copyinto", recv, X, G, N, rng.random() < 0.5, rng.random() < 0.3]] if rng.random() < 0.35 else [rng.choice([
        ["copyinto", recv, X, G, N, rng.random() < 0.5, False],
        ["copyinto", recv, X, G, N, False, True],
        ["copyinto", G, X, "/" + k[0], N, True, False],
        ["copy", recv, X, pth, rng.random() < 0.5, False, rng.random() < 0.3],
        ["mkds", recv, pth, val()], ["set", recv, pth, val()], ["mkgrp", recv, pth], ["reqgrp", recv, pth],
        ["reqds", recv, pth, rng.choice(INT_VALUES)], ["move", recv, X, pth], ["mkgrp", recv, pth + "/" + k[4]],
    ])]
    # attributes: set, delete, set again within one patch (on G and on the re-created node)
    if rng.random() < 0.5:
        t = rng.choice([G, GN])
        H += [["aset", "/", t, "m", val()], ["adel", "/", t, "m"], ["aset", rng.choice(["/", G]), t, "m", val()]]
    return H


def targeted_prefix(rng, keys: List[str]) -> List[list]:
    """Random instance of a shape that is delicate for the overlay, used as the start of a random
    history: replace-then-touch, create below deleted ancestors, last metadata object of a
    schema deleted in one patch and re-attached in a later one."""
    k = [rng.choice(keys) for _ in range(5)]
    if len(set(k[:3])) < 3:
        return []
    mb = lambda p=0.7: [rng.choice([["bnd"], ["bnd"], ["reopen"], ["reopen", "src"], ["peek"]])] if rng.random() < p else []  # noqa: E731
    val = lambda: rng.choice(VALUES)  # noqa: E731
    sc = lambda: rng.choice(SCHEMA_NAMES)  # noqa: E731
    a, ab, abc = "/" + k[0], f"/{k[0]}/{k[1]}", f"/{k[0]}/{k[1]}/{k[2]}"
    shape = rng.randrange(5)
    H: List[list] = []
    if shape >= 3:
        return recreate_shape(rng, k)
    if shape == 0:      # create below deleted ancestors
        H += [["set", "/", abc, val()]] + mb() + [["del", "/", rng.choice([a, ab])]] + mb()
        H += [rng.choice([["mkgrp", "/", f"{ab}/{k[3]}/{k[4]}"], ["mkgrp", "/", abc], ["set", "/", f"{abc}/{k[3]}", val()],
                          ["reqgrp", "/", f"{ab}/{k[3]}/{k[4]}"]])] + mb()
        H += [rng.choice([["set", "/", f"{a}/{k[4]}", val()], ["attach", ab, sc(), 0], ["aset", "/", ab, "k", val()]])]
    elif shape == 1:    # replace-then-touch
        H += [["set", "/", f"{a}/{k[1]}", val()], ["attach", a, sc(), 0]] + mb(1.0) + [["del", "/", a]] + mb(0.3)
        H += [rng.choice([["mkgrp", "/", a], ["set", "/", a, val()], ["set", "/", f"{a}/{k[2]}", val()]])]
        for _ in range(rng.randint(1, 2)):
            H += mb(1.0) + [rng.choice([["set", "/", f"{a}/{k[3]}", val()], ["aset", "/", a, "k", val()], ["attach", a, sc(), 0],
                                        ["mkgrp", "/", f"{a}/{k[4]}"]])]
    else:               # TOC bookkeeping: last object of a schema removed, later re-attached
        s1 = sc()
        H += [["set", "/", ab, val()], ["attach", ab, s1, 0]] + mb(1.0) + [["detach", ab, s1]] + mb()
        H += [["attach", rng.choice([a, ab, "/"]), rng.choice([s1, sc()]), 0]] + mb() + [["attach", ab, sc(), 0]]
    return H


# ---------------------------------------------------------------------------- (B) protocol level

def _ps(path: List[str]) -> str:
    return "/".join(path) if path else "/"


def _node_obs(node) -> list:
    if node is None:
        return []
    return [["D", enc(node[()])]] if _is_ds(node) else [["G"]]


def do_request(root, it) -> list:
    """One request of the client language of run_c09 on a real file object; answer in the
    wire format of Client.of_obs.  Exceptions of reads are answers too (["exc", kind]).

    ["at", cwd, request, mode]: the request (its paths are full paths, as the model sees them)
    is issued on the group at `cwd` as receiver; paths below the receiver are spelled relative
    to it (mode "rel", also multi-segment), everything else -- and everything in mode "abs" --
    absolute; mode "obj" passes the source of a copy as node object, mode "gobj" its destination
    as group object (the parent) plus name=.  If the receiver does not
    exist (any more) or is a dataset, the call is made on the root."""
    recv, cwd, mode = root, [], "rel"
    if it[0] == "at":
        cwd, mode = list(it[1]), it[3]
        it = it[2]
        g = None
        try:
            g = root.get(_ps(cwd)) if cwd else root
        except Exception:  # noqa: BLE001
            g = None
        if g is None or _is_ds(g):
            cwd, g = [], root
        recv = g

    def sp(path) -> str:
        path = list(path)
        if mode != "abs" and path[:len(cwd)] == cwd and len(path) > len(cwd):
            return "/".join(path[len(cwd):])
        if not cwd and mode != "abs":
            return _ps(path)
        return "/" + "/".join(path)

    def node_at(path):
        return recv if list(path) == cwd else recv.get(sp(path))

    k = it[0]
    if k in ("grp", "set", "del", "aset", "adel", "copy", "move"):
        try:
            if k == "grp":
                recv.create_group(sp(it[1]))
            elif k == "set":
                recv[sp(it[1])] = dec(it[2])
            elif k == "del":
                del recv[sp(it[1])]
            elif k == "aset":
                (recv if list(it[1]) == cwd else recv[sp(it[1])]).attrs[it[2]] = dec(it[3])
            elif k == "adel":
                del (recv if list(it[1]) == cwd else recv[sp(it[1])]).attrs[it[2]]
            elif k == "copy":
                pg = None
                if mode == "gobj":           # destination as GROUP OBJECT (the parent) + name=
                    par = list(it[2][:-1])
                    pg = recv if par == cwd else (root.get("/" + "/".join(par)) if par else root)
                    if pg is None or _is_ds(pg):
                        pg = None            # no such group (the path form creates it): path form
                if pg is not None:
                    recv.copy(sp(it[1]), pg, name=it[2][-1])
                else:
                    recv.copy(recv[sp(it[1])] if mode == "obj" else sp(it[1]), sp(it[2]))
            else:
                recv.move(sp(it[1]), sp(it[2]))
            return ["w", "T"]
        except vlib.CaseTimeout:
            raise
        except Exception:  # noqa: BLE001
            return ["w", "F"]
    try:
        if k == "get":
            return ["e", _node_obs(recv.get(sp(it[1])))]
        if k == "has":
            return ["b", "T" if (sp(it[1]) in recv) else "F"]
        node = node_at(it[1])
        if k == "keys":
            return ["n", [] if node is None or _is_ds(node) else [list(node.keys())]]
        if k == "akeys":
            return ["n", [] if node is None else [list(node.attrs.keys())]]
        if k == "visit":
            if node is None or _is_ds(node):
                return ["v", []]
            acc: list = []
            # the reported names are relative to the visited group
            node.visititems(lambda n, o: acc.append([list(it[1]) + n.strip("/").split("/")] + _node_obs(o)[0]) or None)
            return ["v", [acc]]
        if k == "val":
            return ["x", [] if node is None or not _is_ds(node) else [enc(node[()])]]
        if k == "aval":
            if node is None:
                return ["x", []]
            v = node.attrs.get(it[2])
            return ["x", [] if v is None else [enc(v)]]
    except vlib.CaseTimeout:
        raise
    except Exception as e:  # noqa: BLE001
        return ["exc", k]       # exception classes are compared only coarsely
    raise ValueError(k)


def positive(o: list) -> bool:
    if o[0] in ("w", "b"):
        return o[1] == "T"
    if o[0] == "exc":
        return False
    return o[1] != []


def run_protocol(drv: str, items, d) -> List[list]:
    import h5py
    from metador_core.ih5.container import IH5MFRecord, IH5Record
    cls = {"ih5": IH5Record, "mf": IH5MFRecord}.get(drv)
    root = h5py.File(d / "plain.h5", "w") if drv == "h5" else cls(d / ("rec" + drv), "w")
    trace: List[list] = []
    try:
        for it in items:
            with ih5lib.hard_time_limit(OP_TIMEOUT):
                if it[0] == "bnd":
                    if drv != "h5":
                        root.commit_patch()
                        root.create_patch()
                    continue
                if it[0] == "reopen":
                    if drv != "h5":
                        root.close()
                        root = cls(d / ("rec" + drv), "r+")
                    continue
                if it[0] == "cond":
                    it = it[1] if (trace and positive(trace[-1])) else it[2]
                trace.append(do_request(root, it))
    except vlib.CaseTimeout:
        trace.append(["timeout"])
    finally:
        try:
            root.close()
        except Exception:  # noqa: BLE001
            pass
    return trace


def lockstep_protocol(items) -> Dict[str, Any]:
    out: Dict[str, Any] = {"traces": {}, "diff": None, "error": None}
    with vlib.workdir("c09p") as d:
        try:
            for drv in DRIVERS:
                out["traces"][drv] = run_protocol(drv, items, d)
        except Exception as e:  # noqa: BLE001
            out["error"] = f"{type(e).__name__}: {e}"[:300]
            return out
    ref = out["traces"]["h5"]
    reqs = [it for it in items if it[0] not in ("bnd", "reopen")]
    for drv in DRIVERS[1:]:
        t = out["traces"][drv]
        for i in range(max(len(t), len(ref))):
            a = t[i] if i < len(t) else None
            b = ref[i] if i < len(ref) else None
            if a != b:
                aspect = ("timeout" if a == ["timeout"] else
                          "read-refused" if a and a[0] == "exc" else
                          "outcome" if a and a[0] == "w" else "answer")
                out["diff"] = {"step": i, "driver": drv, "aspect": aspect, "op": reqs[i] if i < len(reqs) else None,
                               "what": f"{DRV_NAME[drv]} answers {json.dumps(a)[:160]}, h5py.File answers {json.dumps(b)[:160]}"}
                return out
    return out


def _unwrap(it):
    """The request as the model sees it: full paths, no receiver."""
    if it[0] == "at":
        return it[2]
    if it[0] == "cond":
        return ["cond", _unwrap(it[1]), _unwrap(it[2])]
    return it


def op_kind(it) -> str:
    it = _unwrap(it) if it else ["?"]
    return it[0]


def model_items(items) -> list:
    """Case for run_c09: reopen is a boundary for the model; consecutive boundaries collapse;
    the receiver of a request is resolved here (request path = receiver path ++ relative path)."""
    out = []
    for it in items:
        if it[0] in ("bnd", "reopen"):
            if not out or out[-1] != ["bnd"]:
                out.append(["bnd"])
        else:
            out.append(_unwrap(it))
    return out


def norm_model_trace(mtrace) -> List[list]:
    return mtrace


def protocol_recreate_prefix(rng, keys: List[str], attr_keys: List[str]):
    """Protocol-level instance of `recreate_shape`: (operations, {index: [receiver, mode]})."""
    k = [rng.choice(keys) for _ in range(5)]
    if len(set(k[:3])) < 3:
        return [], {}
    val = lambda: rng.choice(VALUES)  # noqa: E731
    G, N, X = [k[0]], k[1], [k[2]]
    GN = G + [N]
    ops: List[list] = [["set", X, val()]]
    deco: Dict[int, list] = {}
    early = rng.random() < 0.5
    if early:
        ops += [["grp", G]]
        if rng.random() < 0.4:
            ops += [["set", GN, val()]]
        ops += [["bnd"]]
    else:
        ops += [["bnd"], ["grp", G]]
    if not any(o[0] == "set" and o[1] == GN for o in ops):
        ops += [rng.choice([["set", GN, val()], ["grp", GN], ["grp", GN + [k[4]]]])]
        if rng.random() < 0.5:
            deco[len(ops) - 1] = [G, "rel"]
    ops += [rng.choice([["del", GN], ["move", GN, [k[3] + "1"]]])]
    if rng.random() < 0.5:
        deco[len(ops) - 1] = [G, "rel"]
    if rng.random() < 0.25:
        ops += [["bnd"]]
    ops += [rng.choice([["copy", X, GN], ["copy", X, GN], ["copy", X, GN], ["set", GN, val()], ["grp", GN], ["move", X, GN],
                        ["grp", GN + [k[4]]]])]
    deco[len(ops) - 1] = [rng.choice([[], G]), rng.choice(["gobj", "gobj", "rel", "obj"]) if ops[-1][0] == "copy" else "rel"]
    if rng.random() < 0.5:
        ak = rng.choice(attr_keys)
        t = rng.choice([G, GN])
        ops += [["aset", t, ak, val()], ["adel", t, ak], ["aset", t, ak, val()]]
        deco[len(ops) - 1] = [G, "rel"]
    return ops, deco


def gen_protocol_history(rng, nops: int, keys: List[str], attr_keys: List[str], p_bnd: float, p_read: float,
                         below_ds: bool) -> List[list]:
    """Operations from ih5lib.gen_history interleaved with read requests on existing, missing
    and (optionally) below-dataset paths, and conditional requests."""
    pre, deco = protocol_recreate_prefix(rng, keys, attr_keys) if rng.random() < 0.3 else ([], {})
    base = ih5lib.gen_history(rng, nops + len(pre), p_bnd=p_bnd, keys=keys, attr_keys=attr_keys, values=VALUES,
                              allow_self_copy=(rng.random() < 0.3), prefix=pre)
    sh = ih5lib.Shadow()
    items: List[list] = []
    removed: List[List[str]] = []        # names deleted / moved away in this or the previous patch

    def a_read():
        ex = sh.existing()
        ds = [p for p, k in sh.nodes.items() if k == "D"]
        r = rng.random()
        if r < 0.55 and ex:
            p = list(rng.choice(ex))
        elif r < 0.70:
            p = sh.fresh_path(rng, keys=keys)
        elif r < 0.80 and ds and below_ds:
            p = list(rng.choice(ds)) + [rng.choice(keys)] + ([rng.choice(keys)] if rng.random() < 0.3 else [])
        elif r < 0.90:
            p = []
        else:
            p = list(rng.choice(ex)) if ex else []
        kind = rng.choice(["get", "has", "has", "keys", "akeys", "visit", "val", "aval"])
        if kind == "aval":
            return ["aval", p, rng.choice(attr_keys)]
        if kind == "has" and not p:
            p = sh.fresh_path(rng, keys=keys)
        return [kind, p]

    def at(req):
        """Choose the receiver: the root, or an existing group of depth 1..3 -- preferably one
        the request's (destination) path lies below, so that it is spelled relative."""
        if rng.random() < 0.45:
            return ["at", [], req, "gobj"] if req[0] == "copy" and rng.random() < 0.3 else req
        grps = [list(g) for g in sh.groups() if 1 <= len(g) <= 3]
        if not grps:
            return req
        main = req[2] if req[0] in ("copy", "move") and rng.random() < 0.7 else req[1]
        above = [g for g in grps if list(main[:len(g)]) == g and len(main) > len(g)]
        cwd = rng.choice(above) if above and rng.random() < 0.8 else rng.choice(grps)
        mode = rng.choices(["rel", "abs", "obj"], [70, 18, 12])[0]
        if req[0] == "copy":
            # plain h5py/HDF5 looks up an absolute copy destination relative to the calling group
            # (quirk of the reference): from a group receiver the destination must be relative
            dabove = [g for g in grps if list(req[2][:len(g)]) == g and len(req[2]) > len(g)]
            if not dabove:
                return ["at", [], req, "gobj"] if rng.random() < 0.4 else req
            cwd, mode = rng.choice(dabove), rng.choice(["rel", "rel", "obj", "gobj", "gobj"])
        return ["at", cwd, req, mode]

    for bi, op in enumerate(base):
        if op[0] == "bnd":
            if items and items[-1][0] in ("bnd", "reopen"):
                continue
            items.append(["bnd"] if rng.random() < 0.75 else ["reopen"])
            removed = removed[-3:]
            continue
        if bi < len(pre):                   # targeted prefix: receivers / argument forms are fixed
            items.append(["at"] + deco[bi] [:1] + [op] + deco[bi][1:] if bi in deco else op)
            sh.apply(op)
            if op[0] in ("del", "move"):
                removed.append(list(op[1]))
            continue
        # names removed earlier in this patch (or the previous one) are created again
        back = [q for q in removed if tuple(q) not in sh.nodes and all(sh.nodes.get(tuple(q[:i])) != "D" for i in range(1, len(q)))]
        if back and rng.random() < 0.3 and op[0] in ("set", "grp", "copy", "move"):
            q = list(rng.choice(back))
            op = [op[0], q] + op[2:] if op[0] in ("set", "grp") else [op[0], op[1], q]
            if op[0] in ("copy", "move") and q[:len(op[1])] == op[1]:
                op = ["set", q, rng.choice(VALUES)]
        if op[0] in ("del", "move"):
            removed.append(list(op[1]))
        if rng.random() < 0.12:
            # adaptive: the request depends on the previous answer
            alt = a_read() if rng.random() < 0.5 else ["set", sh.fresh_path(rng, keys=keys), rng.choice(VALUES)]
            items.append(["cond", at(op), at(alt)])
            # the shadow does not know which branch runs: it only biases the generator
        else:
            items.append(at(op))
        sh.apply(op)
        while rng.random() < p_read:
            items.append(at(a_read()))
    return items


# ---------------------------------------------------------------------------- workers / shrinking

def w_container(ops):
    try:
        return lockstep_container(ops)
    except Exception as e:  # noqa: BLE001
        return {"diff": None, "classes": [], "nontrivial": 0, "error": f"{type(e).__name__}: {e}"[:300]}


def w_protocol(items):
    return lockstep_protocol(items)


def _same(d, target) -> bool:
    if d is None or d["aspect"] != target["aspect"]:
        return False
    return d["aspect"] in ("read-refused", "probes") or op_kind(d["op"]) == op_kind(target["op"])


def _find_same(level, ops, target) -> Optional[Dict[str, Any]]:
    return next((d for d in diffs_of(level, ops) if _same(d, target)), None)


def canon_sig(level: str, d) -> Dict[str, Any]:
    kind = op_kind(d["op"])
    if d["aspect"] in ("read-refused", "probes"):
        kind = "read"          # one cause whatever the request: the lookup raises
    return {"level": level, "aspect": d["aspect"], "op": kind}


def w_shrink(job):
    level, ops, target = job
    ops = list(ops)
    cut = None
    # cut after the failing step (container: step index = op index; protocol: request index)
    if level == "container":
        cut = ops[:target["step"] + 1]
    else:
        n = -1
        for j, it in enumerate(ops):
            if it[0] not in ("bnd", "reopen"):
                n += 1
            if n == target["step"]:
                cut = ops[:j + 1]
                break
    try:
        if cut and _find_same(level, cut, target):
            ops = cut
        elif not _find_same(level, ops, target):
            return None

        def fails(c):
            return _find_same(level, c, target) is not None
        small = vlib.ddmin(ops, fails, budget=60 if target["aspect"] != "timeout" else 16)
        # replace conditional requests by their taken branch where the failure survives
        if level == "protocol":
            for j, it in enumerate(small):
                if it[0] == "cond":
                    for br in (it[1], it[2]):
                        c = small[:j] + [br] + small[j + 1:]
                        if fails(c):
                            small = c
                            break
        d = _find_same(level, small, target)
        return {"ops": small, "diff": d} if d else None
    except Exception:  # noqa: BLE001
        return None


# ---------------------------------------------------------------------------- main

def run(ctx: vlib.Ctx):
    proof = ctx.check_proofs()
    cov = ctx.coverage
    cov["trusted_base"] = vlib.TRUSTED_COMMON + [
        "modelled, not verified: that wrappers.py/interface.py reach the file only through the protocol requests of "
        "IH5/Client.v (the container layer as a client; checked here by lock-step execution on the three drivers, not by "
        "proof), single-file HDF5/h5py semantics (t_step and the plain-tree reads, compared with h5py.File on every run), "
        "close + reopen = identity on the container stack (C03), exception classes beyond ok/refused, h5py options outside "
        "the protocol, links (refused by IH5)",
    ]
    rng = ctx.rng
    disagreements: List[Dict[str, Any]] = []
    hits: List[Dict[str, Any]] = []
    errors: List[Dict[str, Any]] = []

    # ---- (A) container level
    chists = list(container_patterns())
    for _ in range(ctx.budget(30, 500)):
        keys = rng.sample(KEY_POOL, rng.randint(3, 6))
        prefix = targeted_prefix(rng, keys) if rng.random() < 0.4 else []
        chists.append(gen_container_history(rng, len(prefix) + rng.randint(4 if prefix else 6, ctx.budget(12 if prefix else 16, 22)), keys,
                                            rng.choice([0.0, 0.12, 0.2, 0.3]), {}, prefix=prefix))
    import time
    t0 = time.time()
    cres = vlib.pmap(w_container, chists)
    t1 = time.time()
    csteps = cnontrivial = crecv = 0
    ckinds: Dict[str, int] = {}
    for h, r in zip(chists, cres):
        if r.get("error"):
            errors.append({"level": "container", "ops": h, "error": r["error"]})
            continue
        csteps += len(r["classes"])
        cnontrivial += r["nontrivial"]
        for op in h[:len(r["classes"])]:
            ckinds[op[0]] = ckinds.get(op[0], 0) + 1
            if len(op) > 1 and op[1] != "/" and op[0] not in ("reopen",) and op[1] != "src":
                crecv += 1
        for d in (r["diff"], r.get("probe_diff")):
            if d:
                hits.append({"level": "container", "ops": h, **d})

    # ---- (B) protocol level: three drivers + model
    phists = []
    for _ in range(ctx.budget(120, 1600)):
        keys = rng.sample(KEY_POOL, rng.randint(3, 6))
        akeys = rng.sample(KEY_POOL, rng.randint(1, 3))
        phists.append(gen_protocol_history(rng, rng.randint(4, ctx.budget(16, 28)), keys, akeys,
                                           rng.choice([0.0, 0.1, 0.2, 0.35]), rng.choice([0.2, 0.4, 0.6]),
                                           below_ds=True))
    pres = vlib.pmap(w_protocol, phists, chunksize=2)
    mcases = [model_items(h) for h in phists]
    mres = vlib.run_model("c09", mcases)
    preq = 0
    pkinds: Dict[str, int] = {}
    precv: Dict[str, int] = {}
    validated = 0
    for h, r, m in zip(phists, pres, mres):
        if r.get("error"):
            errors.append({"level": "protocol", "ops": h, "error": r["error"]})
            continue
        mtrace, meq, mveq = m[0], m[1], m[2]
        if meq != "T" or mveq != "T":
            disagreements.append({"kind": "model-internal", "ops": h,
                                  "what": "trace_m and trace_t differ inside the model (C09_driver_equiv contradicted)"})
        for it in h:
            kk = op_kind(it)
            pkinds[kk] = pkinds.get(kk, 0) + 1
            for x in ([it] if it[0] != "cond" else it[1:]):
                if x[0] == "at":
                    precv[x[3]] = precv.get(x[3], 0) + 1
        preq += len(r["traces"]["h5"])
        if r["diff"]:
            hits.append({"level": "protocol", "ops": h, **r["diff"]})
        ok = True
        for drv in DRIVERS:
            t = r["traces"][drv]
            if t != mtrace:
                ok = False
                i = next((j for j in range(min(len(t), len(mtrace))) if t[j] != mtrace[j]), min(len(t), len(mtrace)))
                disagreements.append({"kind": f"model-vs-{drv}", "ops": h, "step": i,
                                      "model": mtrace[i] if i < len(mtrace) else None,
                                      "impl": t[i] if i < len(t) else None})
        validated += ok
    t2 = time.time()
    xc = vlib.coq_crosscheck("c09", mcases, mres, "c09", max_cases=ctx.budget(8, 30))
    vlib.log(f"c09: container lock-step {t1 - t0:.1f}s, protocol lock-step + model {t2 - t1:.1f}s, crosscheck {time.time() - t2:.1f}s, "
             f"workers {vlib.NPROC}")

    # ---- (C) the two plain-tree models against each other (all generation above is done: the
    # draws from ctx.rng here do not shift the histories of (A) and (B))
    try:
        br = bridge.run_selftest(ctx.budget(300, 3000), rng, maxlen=ctx.budget(18, 26), h5_sample=ctx.budget(20, 120),
                                 crosscheck=ctx.budget(3, 12))
    except Exception as e:  # noqa: BLE001
        br = {"agree": False, "error": f"{type(e).__name__}: {e}"[:400], "disagreements": [], "disagreement_count": 0}
    cov["plain_tree_models_agree"] = br
    vlib.log(f"c09: plain-tree models ({br.get('op_lists')} operation lists, {br.get('steps_compared')} steps compared): "
             f"{'agree' if br['agree'] else 'DISAGREE'} in {br.get('wall_s')}s")

    # ---- oracle hits: a few per (level, aspect, op kind), shrink, dedupe by signature
    groups: Dict[str, List[Dict[str, Any]]] = {}
    for h in sorted(hits, key=lambda h: (h["step"], len(h["ops"]))):
        groups.setdefault(json.dumps(canon_sig(h["level"], h), sort_keys=True), []).append(h)
    picked = [g[0] for _k, g in sorted(groups.items())][:24]
    shrunk = vlib.pmap(w_shrink, [(h["level"], h["ops"], {"aspect": h["aspect"], "op": h["op"], "step": h["step"]})
                                  for h in picked], chunksize=1) if picked else []
    unconfirmed = 0
    for h, s in zip(picked, shrunk):
        if s is None:           # did not reproduce when the history was re-run alone (load, time-outs)
            unconfirmed += 1
            continue
        d = s["diff"]
        sig = canon_sig(h["level"], d)
        ctx.violation(f"[{h['level']}] step {d['step']} {d['op']}: {d['what']}",
                      {"kind": "lockstep", "level": h["level"], "ops": s["ops"], "diff": d, "canonical": sig},
                      sig_obj=sig)
    if unconfirmed:
        ctx.notes.append(f"{unconfirmed} lock-step difference(s) did not reproduce when the history was re-run alone; not reported")

    cov["evaluations"] = csteps * len(DRIVERS) + preq * len(DRIVERS)
    cov["distinct_nontrivial"] = cnontrivial + validated
    cov["rule"] = ("(A) container histories: fixed patterns + random histories from a mirror-tree-biased generator over a "
                   "per-history alphabet of 3-6 keys (printable ASCII without '@' and '/'), every operation issued on the container "
                   "or (about half) on an existing group of depth 1-3 as receiver with relative (also multi-segment), absolute "
                   "and node-object arguments; listings/visit/in/get/[] through groups as receivers; reopen by name, through "
                   "metador.driver(metador.source) / SimpleContainerProvider, read-only second views, boundaries and reopen points at random positions, executed in "
                   "lock-step on h5py.File / IH5Record / IH5MFRecord through MetadorContainer; counted: successful operations "
                   "after the first boundary; (B) protocol histories with interleaved reads (existing, missing, below-dataset "
                   "paths) and conditional requests, each request on the root or on a group receiver (relative / absolute / "
                   "node-object spelling; the model gets receiver ++ relative path), three drivers + model trace; counted: histories whose three traces equal "
                   "the model's")
    cov["input_distribution"] = {
        "container_histories": len(chists), "container_steps": csteps, "container_op_kinds": ckinds,
        "container_successful_ops_after_a_boundary": cnontrivial,
        "container_ops_on_a_non_root_receiver": crecv,
        "protocol_requests_on_a_non_root_receiver_by_mode": precv,
        "protocol_histories": len(phists), "protocol_requests": preq, "protocol_item_kinds": pkinds,
        "protocol_traces_equal_to_model": validated,
    }
    cov["coq_crosscheck"] = xc
    cov["disagreements"] = len(disagreements)
    cov["disagreement_kinds"] = _hist(d["kind"] for d in disagreements)
    cov["oracle_failures"] = len(hits)
    cov["oracle_failure_classes"] = {k: len(v) for k, v in sorted(groups.items())}
    cov["harness_errors"] = errors[:5]
    ctx.sample({"container_history": chists[0]})
    ctx.sample({"container_history": chists[len(container_patterns())]})
    ctx.sample({"protocol_history": phists[0], "model_trace": mres[0][0]})
    ctx.assumptions += [
        "keys from the IH5 alphabet (printable ASCII without '@' and '/'), '.' alone and names starting with 'metador_' excluded; "
        "paths in canonical spelling (no '.', '..' resolution, no empty segments)",
        "no links, the IH5 deletion-marker value is not used as data, no MOVE into the source's own subtree (copies of a group "
        "into its own subtree are part of the histories); at the raw protocol level an absolute copy destination is only used "
        "from the root group (plain HDF5 looks it up relative to the calling group: behaviour of the reference itself)",
        "in-place edits of dataset contents (ds[...] = v) are not part of the histories: IH5 documents copy_into_patch for them",
        "one providing package per schema in the environment; harness schemas are registered in the live plugin group",
    ]
    if errors:
        ctx.violation(f"lock-step run did not complete for {len(errors)} histories: {errors[0]['error']}",
                      {"kind": "harness-exception", "errors": errors[:3], "correspondence": "harness/props/c09.py"},
                      found_input=False)
    if not xc["ok"]:
        ctx.violation("extracted runner and in-Coq evaluation of the model disagree", {"kind": "crosscheck", **xc},
                      found_input=False)
    if not proof["ok"]:
        ctx.violation("proof obligations of Properties/C09.v do not check: " + "; ".join(proof["problems"])[:500],
                      {"kind": "proof", "theorem_file": "coq/Properties/C09.v", "problems": proof["problems"]},
                      found_input=False)
    if not br["agree"]:
        b0 = (br.get("disagreements") or [None])[0]
        h0 = ((br.get("h5py_three_way_sample") or {}).get("differences") or [None])[0]
        why = (b0["what"] if b0 else "both models differ from h5py.File" if h0 else
               br.get("error") or "extracted runner and in-Coq evaluation of run_bridge disagree")
        ctx.violation(f"{bridge.BRIDGE_NAME}: the two plain-tree models are not the same tree, the transfer of the container "
                      f"theorems to the IH5 driver through C09 is not justified: {why}"[:600],
                      {"kind": "correspondence", "correspondence": bridge.BRIDGE_NAME + " (coq/Bridge/BridgeRun.v run_bridge, harness/props/bridge.py)",
                       "smallest_disagreement": b0, "h5py_difference": h0, "count": br.get("disagreement_count"),
                       "error": br.get("error"), "coq_crosscheck": br.get("coq_crosscheck")}, found_input=False)
    if disagreements and not ctx.violations and not ctx.known_hits:
        d0 = min(disagreements, key=lambda d: len(d.get("ops", [])))
        ctx.violation("model/implementation correspondence broken but the three drivers agree on every explored history: " + d0["kind"],
                      {"kind": "correspondence", "correspondence": "coq/IH5/Client.v (run_c09: exec_m / read_m) vs h5py.File / IH5Record / IH5MFRecord",
                       "smallest_disagreement": d0, "count": len(disagreements)}, found_input=False)
    elif disagreements:
        ctx.notes.append(f"{len(disagreements)} model/impl disagreements, kinds: {cov['disagreement_kinds']}")


def _hist(it):
    h: Dict[str, int] = {}
    for x in it:
        h[str(x)] = h.get(str(x), 0) + 1
    return h


def replay(rep) -> int:
    """Re-run the recorded history in lock-step on the current tree; 1 if the drivers still differ."""
    vlib._pool_init()
    if rep.get("kind") != "lockstep":
        print("replay names a proof obligation or correspondence; re-run the check itself")
        return 1
    r = lockstep_container(rep["ops"]) if rep["level"] == "container" else lockstep_protocol(rep["ops"])
    if r.get("error"):
        print("error:", r["error"])
        return 1
    ds = [d for d in (r.get("diff"), r.get("probe_diff")) if d]
    want = rep.get("diff") or {}
    same = [d for d in ds if _same(d, want)] if want.get("aspect") else ds
    print("still failing:" if same else "no longer failing", same[0] if same else (ds or ""))
    return 1 if same else 0
