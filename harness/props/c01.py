"""C01 — the IH5 overlay is transparent: patch boundaries are unobservable.

Theorems (coq/Properties/C01.v): the overlay model refines the plain-tree specification for
every history and every boundary placement.  Correspondence: random and targeted histories
run on a real IH5Record (view after every step + raw container files at the end) against the
overlay model, and on a plain h5py.File against the specification tree.  Oracle for the
failing-input search: IH5Record vs. h5py.File in lock-step (no model involved).
"""
from __future__ import annotations

from typing import Any, Dict, List, Optional

import ih5lib
import vlib


def w_both(ops):
    try:
        a = ih5lib.exec_ih5(ops)
    except Exception as e:  # noqa: BLE001
        a = {"steps": [["X", f"harness: {type(e).__name__}: {e}"[:200]]] * len(ops), "raw": None}
    b = ih5lib.exec_h5(ops)
    return a, b


def first_diff(ih5, h5) -> Optional[Dict[str, Any]]:
    """Property oracle on the code alone: first step where IH5 and plain HDF5 differ."""
    for i, (s, t) in enumerate(zip(ih5["steps"], h5["steps"])):
        if s[0] == "X":
            return {"step": i, "what": f"operation did not terminate / record unusable ({s[1]})"}
        if s[0] != t[0]:
            return {"step": i, "what": f"outcome differs: IH5 {'ok' if s[0]=='T' else 'refused'} vs plain HDF5 {'ok' if t[0]=='T' else 'refused'}",
                    "detail": s[2] if len(s) > 2 else ""}
        if s[1] != t[1]:
            if s[1] and s[1][0] == "READ-ERROR":
                return {"step": i, "what": f"reading the record fails after the step: {s[1][1]}"}
            only_i = [e for e in s[1] if e not in t[1]][:3]
            only_h = [e for e in t[1] if e not in s[1]][:3]
            return {"step": i, "what": "tree differs from plain HDF5", "only_in_ih5": only_i, "only_in_h5": only_h}
    return None


def canon_history(ops) -> List[Any]:
    """Rename keys and values by first occurrence (signature of a shrunk history)."""
    kmap: Dict[str, str] = {}
    vmap: Dict[str, str] = {}

    def k(x):
        return kmap.setdefault(x, f"k{len(kmap)}")

    def v(x):
        return vmap.setdefault(x, f"v{len(vmap)}")
    out = []
    for op in ops:
        t = op[0]
        if t in ("grp", "del"):
            out.append([t, [k(x) for x in op[1]]])
        elif t == "set":
            out.append([t, [k(x) for x in op[1]], v(op[2])])
        elif t == "aset":
            out.append([t, [k(x) for x in op[1]], "@" + k("@" + op[2]), v(op[3])])
        elif t == "adel":
            out.append([t, [k(x) for x in op[1]], "@" + k("@" + op[2])])
        elif t in ("copy", "move"):
            out.append([t, [k(x) for x in op[1]], [k(x) for x in op[2]]])
        else:
            out.append([t])
    return out


def oracle_fails(ops) -> Optional[Dict[str, Any]]:
    a, b = w_both(ops)
    return first_diff(a, b)


def shrink(ops):
    ops = vlib.ddmin(list(ops), lambda sub: oracle_fails(sub) is not None, budget=80)
    return ops


def norm_view(v):
    return sorted(v, key=lambda e: e[0])


def run(ctx: vlib.Ctx):
    proof = ctx.check_proofs()
    cov = ctx.coverage
    cov["trusted_base"] = vlib.TRUSTED_COMMON + [
        "modelled, not verified: single-file HDF5/h5py semantics (the plain specification tree, validated on every run against h5py.File itself), "
        "h5py dataset options and numpy value semantics beyond equality of encoded values, links (refused by the code)",
    ]
    rng = ctx.rng
    cases = list(ih5lib.pattern_histories())
    nrand = ctx.budget(220, 4000)
    for i in range(nrand):
        cases.append(ih5lib.gen_history(rng, rng.randint(4, ctx.budget(22, 40)),
                                        p_bnd=rng.choice([0.0, 0.1, 0.2, 0.35])))
    model = vlib.run_model("c01", cases)
    impl = vlib.pmap(w_both, cases, chunksize=4)

    disagreements: List[Dict[str, Any]] = []
    oracle_hits: List[Dict[str, Any]] = []
    nsteps = 0
    ok_steps = 0
    opkinds: Dict[str, int] = {}
    conts_hist: Dict[str, int] = {}
    distinct = set()
    for ci, (ops, m, (ih5, h5)) in enumerate(zip(cases, model, impl)):
        msteps, mconts = m
        distinct.add(vlib.signature(ops))
        nb = sum(1 for o in ops if o[0] == "bnd") + 1
        conts_hist[str(nb)] = conts_hist.get(str(nb), 0) + 1
        for o in ops:
            opkinds[o[0]] = opkinds.get(o[0], 0) + 1
        d = first_diff(ih5, h5)
        if d is not None:
            oracle_hits.append({"case": ci, "ops": ops, **d})
        # correspondence model <-> code, spec <-> h5py
        for i, (ms, s, t) in enumerate(zip(msteps, ih5["steps"], h5["steps"])):
            nsteps += 1
            mr, tr, eqflag, mview = ms
            mview = norm_view(mview)
            if eqflag != "T":
                disagreements.append({"kind": "model-internal", "case": ci, "step": i, "ops": ops,
                                      "what": "overlay model view differs from specification tree (theorem C01_transparent contradicted?)"})
                break
            if t[0] != tr or t[1] != mview:
                disagreements.append({"kind": "spec-vs-h5py", "case": ci, "step": i, "ops": ops[:i + 1],
                                      "model": [tr], "impl": [t[0]],
                                      "only_model": [e for e in mview if e not in t[1]][:3],
                                      "only_impl": [e for e in t[1] if e not in mview][:3]})
                break
            if s[0] != mr or s[1] != mview:
                disagreements.append({"kind": "model-vs-ih5", "case": ci, "step": i, "ops": ops[:i + 1],
                                      "model": [mr], "impl": [s[0]]})
                break
            if s[0] == "T":
                ok_steps += 1
        else:
            if ih5["raw"] is not None:
                mc = [norm_view(c) for c in mconts]
                if mc != ih5["raw"]:
                    k = next((j for j, (x, y) in enumerate(zip(mc, ih5["raw"])) if x != y), min(len(mc), len(ih5["raw"])))
                    disagreements.append({"kind": "raw-containers", "case": ci, "ops": ops, "container": k,
                                          "model": mc[k] if k < len(mc) else None,
                                          "impl": ih5["raw"][k] if k < len(ih5["raw"]) else None})
    ctx.sample({"history": cases[0], "model_final_view": norm_view(model[0][0][-1][3])})
    ctx.sample({"history": cases[len(ih5lib.pattern_histories()) + 1]})

    # ---- oracle hits: shrink, dedupe by signature, report
    seen = set()
    for h in oracle_hits[:40]:
        small = shrink(h["ops"])
        d = oracle_fails(small) or {"step": -1, "what": h["what"]}
        sig = {"history": canon_history(small), "step": d["step"], "what": d["what"].split(":")[0]}
        key = vlib.signature(sig)
        if key in seen:
            continue
        seen.add(key)
        ctx.violation(f"IH5 differs from a plain HDF5 tree at step {d['step']} of {small}: {d['what']}",
                      {"kind": "history", "ops": small, "diff": d}, sig_obj=sig)
        if len(seen) >= 8:
            break

    xc = vlib.coq_crosscheck("c01", cases, model, "c01", max_cases=12)
    cov["evaluations"] = len(cases)
    cov["distinct_nontrivial"] = len(distinct)
    cov["rule"] = ("targeted histories (replace-then-touch over >=3 containers, create below deleted ancestors, copies into own subtree, "
                   "attributes on datasets across patches) + random histories from a shadow-tree-biased generator with a malformed-operation stream; "
                   "distinct = distinct operation lists; all have >= 4 operations")
    cov["input_distribution"] = {"histories": len(cases), "steps": nsteps, "steps_succeeding": ok_steps,
                                 "op_kinds": opkinds, "containers_per_history": conts_hist}
    cov["traces_validated_against_impl"] = len(cases) - len({d["case"] for d in disagreements if "case" in d})
    cov["coq_crosscheck"] = xc
    cov["disagreements"] = len(disagreements)
    cov["oracle_failures"] = len(oracle_hits)
    ctx.assumptions += ["keys from the IH5 alphabet (printable ASCII without '@' and '/')",
                        "the IH5 deletion-marker value is not used as data (C17 covers its rejection)",
                        "moving a node into its own subtree excluded (as in the property)"]

    if not xc["ok"]:
        ctx.violation("extracted runner and in-Coq evaluation of the model disagree", {"kind": "crosscheck", **xc}, found_input=False)
    if not proof["ok"]:
        ctx.violation("proof obligations of Properties/C01.v do not check: " + "; ".join(proof["problems"])[:500],
                      {"kind": "proof", "theorem_file": "coq/Properties/C01.v", "problems": proof["problems"]}, found_input=False)
    if disagreements and not ctx.violations and not ctx.known_hits:
        d0 = min(disagreements, key=lambda d: len(d.get("ops", [])))
        ctx.violation("model/implementation correspondence broken but IH5 and plain HDF5 agree on every explored history: " + d0["kind"],
                      {"kind": "correspondence", "correspondence": "coq/IH5/Overlay.v (m_step/t_step/raw containers) vs IH5Record / h5py.File",
                       "smallest_disagreement": d0, "count": len(disagreements)}, found_input=False)
    elif disagreements:
        ctx.notes.append(f"{len(disagreements)} model/impl disagreements, first kinds: {[d['kind'] for d in disagreements[:5]]}")


def replay(rep) -> int:
    vlib._pool_init()
    if rep.get("kind") != "history":
        print("replay names a proof obligation or correspondence; re-run the check itself")
        return 1
    d = oracle_fails(rep["ops"])
    print("still failing:" if d else "no longer failing", d or "")
    return 1 if d else 0
