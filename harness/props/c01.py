"""C01 — the IH5 overlay is transparent: patch boundaries are unobservable.

Theorems (coq/Properties/C01.v): the overlay model refines the plain-tree specification for
every history of create_group / create_dataset / delete / attribute set / attribute delete /
copy / move and every boundary placement (C01_transparent, C01_boundaries_unobservable).

Correspondence: targeted and random histories run on a real IH5Record in a temp dir — result
class and full view (visititems + attributes + values) after every step, raw container files
at the end — against the overlay model, and on a plain h5py.File against the specification
tree of the model.  Synthetic container stacks (written with raw h5py calls into real record
files, also shapes the write path never produces) are read through the overlay and compared
with the model's read path.  Boundaries are observable steps: the full view is taken directly after every
commit_patch + create_patch and after every close + reopen (by record name, by file list; random
positions), and at the end of every history after the final commit and after reopening read-only
both ways — nothing may change there (C01_boundary_invisible).  Every observation also accesses
every attribute name of the history BY KEY on every visible node (in / [] / get, present and absent).  Oracle for the failing-input
search (no model involved): IH5Record vs. h5py.File in lock-step on the same history.
"""
from __future__ import annotations

from typing import Any, Dict, List, Optional

import gentie
import ih5lib
import vlib

OP_TIMEOUT = 30       # per operation / per read-back; generous because the machine is shared
SHRINK_TIMEOUT = 4    # only while shrinking a non-terminating case; the result is re-confirmed

# keys from the documented IH5 alphabet: printable ASCII without '@' (and '/', the separator);
# "." alone is excluded because HDF5 itself reads it as "this group"
KEY_POOL = ["a", "b", "c", "d", "!", "~", "a.b", "..", "x-1", "Z9", "#", "%s", "k=v", "[0]", "(", ")",
            "\"q\"", "'", "\\", "*", "?", "|", "{}", "+", "^", "`", "$", "&", ";", "<>", ",", "a_b",
            "0", "-", "=", ":", "~~", "!a"]
# names that are proper prefixes of each other (siblings "run1" / "run10", also across depths): walks
# that decide by string prefix instead of path components go wrong exactly there
PREFIX_FAMILIES = [["a", "a1", "a10", "ab", "a!"], ["run", "run1", "run10", "r"], ["d", "da", "data", "data1"],
                   ["x", "x-1", "x-10", "x-"], ["~", "~~", "~~~"], ["g", "g.", "g.h", "g.h.i"]]


def pick_keys(rng, lo=3, hi=6):
    """Key alphabet of one history: a random sample of the pool, or (one time in three) a family of
    prefix-related names, possibly with a few unrelated ones."""
    if rng.random() < 0.34:
        fam = list(dict.fromkeys(rng.choice(PREFIX_FAMILIES)))
        keys = rng.sample(fam, min(len(fam), rng.randint(max(2, lo - 1), hi)))
        if rng.random() < 0.5:
            keys += rng.sample(KEY_POOL[:6], 1)
        keys = list(dict.fromkeys(keys))
    else:
        keys = rng.sample(KEY_POOL, rng.randint(lo, hi))
    return keys, rng.sample(KEY_POOL, rng.randint(1, 3))


def prefix_patterns() -> List[List[Any]]:
    """Fixed shapes: an empty group next to a sibling whose name extends its own, at depth 1-3, fresh or
    emptied by a later deletion, with / without attributes; then a copy of the containing group."""
    H = []
    H.append([["grp", ["data", "run1"]], ["set", ["data", "run10"], "i:1"], ["bnd"], ["copy", ["data"], ["c"]]])
    H.append([["set", ["data", "run1", "x"], "i:1"], ["grp", ["data", "run10"]], ["bnd"], ["del", ["data", "run1", "x"]],
              ["bnd"], ["copy", ["data"], ["c", "d"]], ["aset", ["c", "d", "run1"], "k", "i:2"]])
    H.append([["grp", ["t", "data", "a"]], ["grp", ["t", "data", "a1"]], ["grp", ["t", "data", "a10", "z"]], ["aset", ["t", "data", "a1"], "k", "i:1"],
              ["bnd"], ["copy", ["t"], ["u"]], ["bnd"], ["move", ["t", "data"], ["v"]]])
    H.append([["grp", ["a"]], ["set", ["a1"], "i:1"], ["grp", ["ab", "a"]], ["set", ["ab", "a!"], "i:2"], ["bnd"], ["copy", ["ab"], ["a", "ab"]]])
    return H


VALUES = ["i:0", "i:1", "i:7", "i:42", "i:-3", "v:00", "v:7f00", "v:417f", "v:deadbeef", "v:7f7f", "e:"]


# ---------------------------------------------------------------------------- workers

def attr_names(ops) -> List[str]:
    """Every attribute name the history uses anywhere."""
    return sorted({o[2] for o in ops if o[0] in ("aset", "adel")})


def observe(root, names) -> List[Any]:
    """The observation after a step: the enumerated tree (visititems + attrs.keys()) plus access BY KEY
    to every attribute name of the history on every visible node (present and absent names):
    `k in attrs`, `attrs[k]` / KeyError, `attrs.get(k)`.  Enumeration and access by key are separate code
    paths in the overlay; an access that does not say what the enumeration of the same node says is
    added to the view as a ["...@k", "BYKEY", in, getitem, get] entry (never present on a correct tree,
    on h5py, or in the model view, whose attribute segments are looked up by key: vget)."""
    view = ih5lib.dump_view(root)
    if not names:
        return view
    present = {(tuple(e[0][:-1]), e[0][-1][1:]): e[2] for e in view if e[0][-1].startswith("@")}
    extra = []
    for p in [[]] + [e[0] for e in view if not e[0][-1].startswith("@")]:
        am = (root[ih5lib._p(p)] if p else root).attrs
        for k in names:
            exp = present.get((tuple(p), k))
            got = []
            for probe in (lambda: k in am, lambda: ih5lib.enc(am[k]), lambda: (lambda g: "None" if g is None else ih5lib.enc(g))(am.get(k))):
                try:
                    got.append(probe())
                except KeyError:
                    got.append("KeyError")
                except Exception as e:  # noqa: BLE001
                    got.append(f"exc:{type(e).__name__}")
            want = [True, exp, exp] if exp is not None else [False, "KeyError", "None"]
            if got != want:
                extra.append([p + ["@" + k], "BYKEY", str(got[0]), str(got[1]), str(got[2])])
    return sorted(view + extra, key=lambda e: (e[0], e[1])) if extra else view


def exec_ih5(ops, op_timeout=OP_TIMEOUT) -> Dict[str, Any]:
    """ih5lib.exec_ih5 with final stages, observing with `observe` (by-key attribute access included)."""
    from metador_core.ih5.container import IH5Record as cls
    names = attr_names(ops)
    steps: List[Any] = []
    final: List[Any] = []

    def read(r):
        try:
            with ih5lib.hard_time_limit(op_timeout):
                return observe(r, names)
        except vlib.CaseTimeout:
            return ["READ-TIMEOUT"]
        except Exception as e:  # noqa: BLE001
            return ["READ-ERROR", f"{type(e).__name__}: {e}"[:200]]

    with vlib.workdir("ih5") as d:
        rec = cls(d / "rec", "w")
        dead = None
        try:
            for op in ops:
                if dead:
                    steps.append(["X", dead])
                    continue
                try:
                    with ih5lib.hard_time_limit(op_timeout):
                        if op[0] == "bnd":
                            rec.commit_patch()
                            rec.create_patch()
                        elif op[0] == "reopen":
                            files = list(rec.ih5_files)
                            rec.close()
                            rec = cls(files if op[1] == "files" else d / "rec", "r+")
                        else:
                            ih5lib.apply_op(rec, op)
                    res = "T"
                except vlib.CaseTimeout:
                    dead = "timeout"
                    steps.append(["X", "timeout"])
                    continue
                except Exception as e:  # noqa: BLE001
                    res = "F"
                    err = f"{type(e).__name__}: {e}"[:200]
                view = read(rec)
                if view == ["READ-TIMEOUT"]:
                    dead = "timeout-in-read"
                    steps.append(["X", dead])
                    continue
                steps.append([res, view] if res == "T" else [res, view, err])
            files = list(rec.ih5_files)
            if not dead:
                try:
                    rec.commit_patch()
                    final.append(["final-commit", read(rec)])
                    rec.close()
                    for stage, arg in (("reopen-by-name", d / "rec"), ("reopen-by-files", files)):
                        rec = cls(arg, "r")
                        final.append([stage, read(rec)])
                        rec.close()
                except Exception as e:  # noqa: BLE001
                    final.append(["final-error", ["READ-ERROR", f"{type(e).__name__}: {e}"[:200]]])
            rec.close()
            raw = [ih5lib.dump_raw(f) for f in files] if not dead else None
        finally:
            try:
                rec.close()
            except Exception:  # noqa: BLE001
                pass
    return {"steps": steps, "raw": raw, "final": final}


def exec_h5(ops) -> Dict[str, Any]:
    """The same history on a plain h5py.File (boundaries and reopens do nothing), same observation."""
    import h5py
    names = attr_names(ops)
    steps = []
    with vlib.workdir("h5") as d:
        with h5py.File(d / "plain.h5", "w") as f:
            for op in ops:
                res = "T"
                if op[0] not in ("bnd", "reopen"):
                    try:
                        ih5lib.apply_op(f, op)
                    except Exception:  # noqa: BLE001
                        res = "F"
                steps.append([res, observe(f, names)])
    return {"steps": steps}


def _both(ops, op_timeout):
    try:
        a = exec_ih5(ops, op_timeout=op_timeout)
    except Exception as e:  # noqa: BLE001
        a = {"steps": [["H", f"harness: {type(e).__name__}: {e}"[:200]]] * max(1, len(ops)), "raw": None, "final": []}
    b = exec_h5(ops)
    return a, b


def w_both(ops):
    return _both(ops, OP_TIMEOUT)


def w_raw(conts):
    try:
        return ih5lib.exec_raw_stack(conts, op_timeout=OP_TIMEOUT)
    except Exception as e:  # noqa: BLE001
        return {"view": ["HARNESS", f"{type(e).__name__}: {e}"[:200]], "raw": None}


def first_diff(ih5, h5) -> Optional[Dict[str, Any]]:
    """Property oracle on the code alone: first step where IH5 and plain HDF5 differ."""
    for i, (s, t) in enumerate(zip(ih5["steps"], h5["steps"])):
        if s[0] == "H":
            return {"step": i, "cls": "harness", "what": s[1]}
        if s[0] == "X":
            return {"step": i, "cls": "timeout", "what": f"operation or read-back did not terminate ({s[1]})"}
        if s[0] != t[0]:
            return {"step": i, "cls": "outcome",
                    "what": f"outcome differs: IH5 {'ok' if s[0] == 'T' else 'refused'} vs plain HDF5 {'ok' if t[0] == 'T' else 'refused'}",
                    "detail": s[2] if len(s) > 2 else ""}
        if s[1] != t[1]:
            if s[1] and s[1][0] == "READ-ERROR":
                return {"step": i, "cls": "read-error", "what": f"reading the record fails after the step: {s[1][1]}"}
            only_i = [e for e in s[1] if e not in t[1]][:3]
            only_h = [e for e in t[1] if e not in s[1]][:3]
            cls = "resurrected" if only_i and not only_h else ("hidden" if only_h and not only_i else "tree")
            after = " although the plain tree did not change in this step (boundary / reopen)" if s[0] == "T" and _is_bnd_view(ih5, h5, i) else ""
            if any(len(e) > 1 and e[1] == "BYKEY" for e in only_i):
                after = ": attribute access by key (in / [] / get) does not match the enumeration of the same node"
            return {"step": i, "cls": cls, "what": "tree differs from plain HDF5" + after, "only_in_ih5": only_i, "only_in_h5": only_h}
    # the committed, closed and reopened record (by name, by file list) must show the same tree
    last = h5["steps"][-1][1] if h5["steps"] else []
    for stage, view in ih5.get("final", []):
        if view != last:
            n = len(h5["steps"])
            if view and view[0] in ("READ-ERROR", "READ-TIMEOUT"):
                return {"step": n, "cls": "read-error", "stage": stage, "what": f"{stage}: reading the record fails: {view[1:]}"}
            only_i = [e for e in view if e not in last][:3]
            only_h = [e for e in last if e not in view][:3]
            cls = "resurrected" if only_i and not only_h else ("hidden" if only_h and not only_i else "tree")
            return {"step": n, "cls": cls, "stage": stage, "what": f"{stage}: tree differs from plain HDF5 (nothing may change at a boundary / reopen)",
                    "only_in_ih5": only_i, "only_in_h5": only_h}
    return None


def _is_bnd_view(ih5, h5, i):
    """The plain tree did not change in step i (a boundary / reopen or a refused operation)."""
    return i > 0 and h5["steps"][i][1] == h5["steps"][i - 1][1]


def oracle_fails(ops, op_timeout=OP_TIMEOUT) -> Optional[Dict[str, Any]]:
    a, b = _both(ops, op_timeout)
    d = first_diff(a, b)
    return None if d is None or d["cls"] == "harness" else d


def canon_history(ops) -> List[Any]:
    """Rename keys and values by first occurrence (signature of a shrunk history)."""
    kmap: Dict[str, str] = {}
    vmap: Dict[str, str] = {}

    def k(x):
        return kmap.setdefault(x, f"k{len(kmap)}")

    def v(x):
        return vmap.setdefault(x, f"v{len(vmap)}")
    out = []
    for op in ops:
        t = op[0]
        if t in ("grp", "del"):
            out.append([t, [k(x) for x in op[1]]])
        elif t == "set":
            out.append([t, [k(x) for x in op[1]], v(op[2])])
        elif t == "aset":
            out.append([t, [k(x) for x in op[1]], "@" + k("@" + op[2]), v(op[3])])
        elif t == "adel":
            out.append([t, [k(x) for x in op[1]], "@" + k("@" + op[2])])
        elif t in ("copy", "move"):
            out.append([t, [k(x) for x in op[1]], [k(x) for x in op[2]]])
        elif t == "reopen":
            out.append([t, op[1]])
        else:
            out.append([t])
    return out


def _paths(op):
    return [op[1], op[2]] if op[0] in ("copy", "move") else ([op[1]] if op[0] not in ("bnd", "reopen") else [])


def _drop_key(op, key):
    """op with `key` removed from its paths; None if a node path would become empty."""
    if op[0] in ("bnd", "reopen"):
        return op
    new = list(op)
    for i in ((1, 2) if op[0] in ("copy", "move") else (1,)):
        q = [x for x in op[i] if x != key]
        if not q and op[0] not in ("aset", "adel"):
            return None
        new[i] = q
    return new


def w_shrink(hit):
    """Shrink one failing history (worker): cut after the failing step, ddmin over the
    operations keeping the failure class, then simplify values."""
    ops, cls, step = hit["ops"], hit["cls"], hit["step"]
    ops = list(ops[:step + 1])
    tmo = SHRINK_TIMEOUT if cls == "timeout" else OP_TIMEOUT

    def fails(sub):
        d = oracle_fails(sub, tmo)
        return d is not None and d["cls"] == cls
    if not fails(ops):
        return None            # not reproducible alone (e.g. a timeout caused by machine load)
    small = vlib.ddmin(ops, fails, budget=24 if cls == "timeout" else 70)
    # shorten paths: drop a key from every path / attribute-holder path where the failure survives
    changed = True
    while changed:
        changed = False
        for key in sorted({x for o in small for pth in _paths(o) for x in pth}):
            cand = [_drop_key(o, key) for o in small]
            if None in cand or cand == small:
                continue
            if fails(cand):
                small, changed = cand, True
                break
    small = vlib.ddmin(small, fails, budget=20)
    # a reopen that can be a plain boundary, a boundary kind that does not matter
    for i, o in enumerate(small):
        if o[0] == "reopen":
            cand = small[:i] + [["bnd"]] + small[i + 1:]
            if fails(cand):
                small = cand
    # simplify values: all equal where the failure survives
    cand = [([o[0], o[1], "i:1"] if o[0] == "set" else ([o[0], o[1], o[2], "i:1"] if o[0] == "aset" else o)) for o in small]
    if cand != small and fails(cand):
        small = cand
    d = oracle_fails(small, OP_TIMEOUT)
    if d is None or d["cls"] != cls:
        return None
    return {"ops": small, "diff": d}


def norm_view(v):
    return sorted(v, key=lambda e: e[0])


# ---------------------------------------------------------------------------- generation

def _cap_boundaries(ops, maxb=5):
    out, nb = [], 0
    for o in ops:
        if o[0] in ("bnd", "reopen"):
            nb += 1
            if nb > maxb:
                continue
        out.append(o)
    return out


def _boundary_variation(ops, rng, p_after_create=0.12, p_reopen=0.2):
    """Boundaries directly after operations that create a node (an empty group, a dataset without
    attributes, a node re-created over a deleted one), and boundaries turned into close + reopen
    (by record name or by file list) at random positions."""
    out = []
    for o in ops:
        out.append(o)
        if o[0] in ("grp", "set") and rng.random() < p_after_create:
            out.append(["bnd"])
    return [(["reopen", rng.choice(["name", "files"])] if o[0] == "bnd" and rng.random() < p_reopen else o) for o in out]


def model_ops(ops):
    """The model (and the plain tree) know one kind of boundary."""
    return [["bnd"] if o[0] == "reopen" else o for o in ops]


def attr_bykey_patterns() -> List[List[Any]]:
    """Fixed shapes: a node with attributes is deleted and re-created at the same path in a later container
    without them (same kind / other kind; group, dataset, child of the root, deeper); then the attributes
    are accessed by key on the new node (observation of every step) and deleted by key (must be refused)."""
    H = []
    H.append([["set", ["d"], "i:1"], ["aset", ["d"], "k", "i:7"], ["bnd"], ["del", ["d"]], ["set", ["d"], "i:2"], ["adel", ["d"], "k"]])
    H.append([["grp", ["g"]], ["aset", ["g"], "k", "i:7"], ["aset", ["g"], "m", "i:8"], ["bnd"], ["del", ["g"]], ["grp", ["g"]],
              ["aset", ["g"], "m", "i:9"], ["bnd"], ["adel", ["g"], "k"], ["adel", ["g"], "m"], ["adel", ["g"], "m"]])
    H.append([["set", ["a", "d"], "i:1"], ["aset", ["a", "d"], "k", "i:7"], ["reopen", "name"], ["del", ["a", "d"]], ["bnd"],
              ["grp", ["a", "d"]], ["bnd"], ["adel", ["a", "d"], "k"], ["aset", ["a", "d"], "k", "i:1"], ["adel", ["a", "d"], "k"]])
    H.append([["grp", ["a", "g"]], ["aset", ["a", "g"], "k", "i:7"], ["aset", ["a"], "k", "i:6"], ["bnd"], ["del", ["a"]],
              ["set", ["a", "g"], "i:3"], ["bnd"], ["adel", ["a", "g"], "k"], ["adel", ["a"], "k"]])
    H.append([["set", ["d"], "i:1"], ["aset", ["d"], "k", "i:7"], ["bnd"], ["aset", ["d"], "m", "i:8"], ["bnd"], ["del", ["d"]],
              ["set", ["d"], "i:2"], ["reopen", "files"], ["adel", ["d"], "m"], ["adel", ["d"], "k"]])
    return H


def boundary_patterns() -> List[List[Any]]:
    """Fixed shapes: a node re-created under a replaced group at a path older containers know, sealed at once."""
    H = []
    H.append([["set", ["a", "b", "x"], "i:1"], ["bnd"], ["del", ["a"]], ["grp", ["a"]], ["set", ["a", "y"], "i:2"], ["bnd"], ["grp", ["a", "b"]], ["bnd"]])
    H.append([["set", ["a", "b", "x"], "i:1"], ["bnd"], ["del", ["a"]], ["grp", ["a"]], ["bnd"], ["grp", ["a", "b"]]])
    H.append([["set", ["a", "b", "x"], "i:1"], ["aset", ["a", "b"], "k", "i:3"], ["reopen", "name"], ["del", ["a", "b"]], ["grp", ["a", "b"]], ["reopen", "files"], ["grp", ["a", "b", "x"]], ["bnd"], ["set", ["a", "b", "x", "y"], "i:1"]])
    H.append([["grp", ["a"]], ["bnd"], ["del", ["a"]], ["bnd"], ["grp", ["a"]], ["reopen", "name"], ["del", ["a"]], ["grp", ["a"]]])
    H.append([["set", ["d"], "i:1"], ["aset", ["d"], "k", "i:1"], ["bnd"], ["del", ["d"]], ["set", ["d"], "i:2"], ["bnd"], ["del", ["d"]], ["bnd"], ["set", ["d"], "i:3"], ["reopen", "files"]])
    H.append([["set", ["a", "b", "c", "x"], "i:1"], ["bnd"], ["del", ["a", "b"]], ["bnd"], ["grp", ["a", "b", "c"]], ["bnd"], ["grp", ["a", "b", "c", "x"]], ["bnd"]])
    return H


def targeted(rng, keys, attr_keys) -> List[Any]:
    """Random instance of one of the shapes the property names; returned as a prefix."""
    k = rng.sample(keys, min(len(keys), 5))
    while len(k) < 5:
        k.append(rng.choice(keys))
    val = lambda: rng.choice(VALUES)  # noqa: E731
    ak = lambda: rng.choice(attr_keys)  # noqa: E731
    mb = lambda p=0.6: [["bnd"]] if rng.random() < p else []  # noqa: E731
    shape = rng.randrange(9)
    H: List[Any] = []
    if shape == 0:      # replace-then-touch chain across >= 3 containers
        H += [["set", [k[0], k[1]], val()]]
        if rng.random() < 0.5:
            H += [["aset", [k[0]], ak(), val()]]
        H += [["bnd"], ["del", [k[0]]]] + mb(0.3)
        H += [rng.choice([["grp", [k[0]]], ["set", [k[0]], val()], ["set", [k[0], k[2]], val()], ["grp", [k[0], k[2], k[3]]]])]
        for _ in range(rng.randint(1, 3)):
            H += [["bnd"], rng.choice([["set", [k[0], k[3]], val()], ["aset", [k[0]], ak(), val()],
                                       ["grp", [k[0], k[4]]], ["aset", [k[0], k[2]], ak(), val()],
                                       ["adel", [k[0]], ak()], ["set", [k[0], k[2], k[4]], val()]])]
    elif shape == 1:    # create below deleted ancestors
        H += [["set", [k[0], k[1], k[2]], val()]] + mb()
        H += [["del", rng.choice([[k[0]], [k[0], k[1]]])]] + mb()
        H += [rng.choice([["grp", [k[0], k[1], k[3], k[4]]], ["set", [k[0], k[1], k[3]], val()],
                          ["grp", [k[0], k[1], k[2]]], ["set", [k[0], k[1], k[2], k[3]], val()]])] + mb()
        H += [rng.choice([["set", [k[0], k[4]], val()], ["grp", [k[0], k[1], k[4]]], ["aset", [k[0], k[1]], ak(), val()]])]
    elif shape == 2:    # copy of a group into its own subtree
        H += [["set", [k[0], k[1]], val()], ["set", [k[0], k[2], k[3]], val()]]
        if rng.random() < 0.5:
            H += [["aset", [k[0], k[2]], ak(), val()]]
        H += mb()
        H += [["copy", [k[0]], rng.choice([[k[0], k[4]], [k[0], k[2], k[4]], [k[0], k[4], k[1]], [k[0], k[2], k[4], k[0]]])]] + mb()
        H += [rng.choice([["del", [k[0], k[1]]], ["set", [k[0], k[2], k[4], k[3]], val()], ["copy", [k[0], k[2]], [k[0], k[2], k[1]]]])]
    elif shape == 4:    # empty groups beside siblings whose names extend theirs, then a copy of the containing group
        p = rng.choice(keys)
        ext = [q for q in keys if q != p and q.startswith(p)] or [p + rng.choice(["0", "1", "!", ".", "x"])]
        q = rng.choice(ext)
        par = [k[0], k[1]][:rng.choice([0, 1, 1, 2, 2])]
        if rng.random() < 0.5:      # fresh empty group
            H += [["grp", par + [p]]]
        else:                       # emptied by a later deletion
            H += [["set", par + [p, k[2]], val()]] + mb() + [["del", par + [p, k[2]]]]
        H += mb(0.3)
        H += [rng.choice([["set", par + [q], val()], ["grp", par + [q]], ["set", par + [q, k[3]], val()]])]
        if rng.random() < 0.3:
            H += [["aset", par + [p], ak(), val()]]
        H += mb()
        if par:
            H += [["copy", par[:rng.randint(1, len(par))], [k[4], k[0]] if rng.random() < 0.5 else [k[4]]]]
        else:
            H += [["grp", [k[4], k[2]]]]
    elif shape >= 7:    # node with attributes deleted and re-created without (all of) them; attributes then used by key
        bb = lambda: [rng.choice([["bnd"], ["bnd"], ["reopen", "name"], ["reopen", "files"]])]  # noqa: E731
        P = rng.choice([[k[0]], [k[0]], [k[0], k[1]], [k[0], k[1], k[2]]])
        a1, a2 = (attr_keys + attr_keys)[:2]
        mk = lambda kind: [["grp", P]] if kind == "G" else [["set", P, val()]]  # noqa: E731
        kind1 = rng.choice("GD")
        kind2 = kind1 if rng.random() < 0.6 else ("D" if kind1 == "G" else "G")
        H += mk(kind1) + [["aset", P, a1, val()]]
        if a2 != a1 and rng.random() < 0.6:
            H += [["aset", P, a2, val()]]
        if len(P) > 1 and rng.random() < 0.3:
            H += [["aset", P[:-1], a1, val()]]
        H += bb() + (bb() if rng.random() < 0.3 else [])
        H += [["del", rng.choice([P, P, P[:1]])]] + (bb() if rng.random() < 0.4 else [])
        H += mk(kind2)
        if a2 != a1 and rng.random() < 0.4:
            H += [["aset", P, a2, val()]]
        H += bb() if rng.random() < 0.6 else []
        tail = [["adel", P, a1], ["adel", P, a2], ["aset", P, a1, val()], ["adel", P, a1]]
        H += tail[:rng.randint(1, 4)] if rng.random() < 0.7 else [["adel", P, a2], ["adel", P, a1]]
    elif shape >= 5:    # node re-created under a replaced / deleted ancestor at a path older containers know, sealed at once
        bb = lambda: [rng.choice([["bnd"], ["bnd"], ["reopen", "name"], ["reopen", "files"]])]  # noqa: E731
        H += [["set", [k[0], k[1], k[2]], val()]]
        if rng.random() < 0.4:
            H += [["grp", [k[0], k[3]]]]
        H += bb()
        victim = rng.choice([[k[0]], [k[0], k[1]]])
        H += [["del", victim]] + (bb() if rng.random() < 0.4 else [])
        H += [rng.choice([["grp", victim], ["grp", victim], ["set", victim + [k[4]], val()]])]
        H += bb() if rng.random() < 0.75 else []
        H += [rng.choice([["grp", [k[0], k[1]]], ["grp", [k[0], k[1], k[2]]], ["set", [k[0], k[1]], val()],
                          ["set", [k[0], k[1], k[2]], val()], ["grp", [k[0], k[3]]], ["grp", [k[0], k[1], k[2], k[3]]]])]
        H += bb()
        if rng.random() < 0.5:
            H += [rng.choice([["set", [k[0], k[1], k[4]], val()], ["aset", [k[0], k[1]], ak(), val()], ["grp", [k[0], k[1], k[2]]]])] + bb()
    else:               # delete / recreate of datasets with attributes, attribute carriers on datasets
        H += [["set", [k[0]], val()], ["aset", [k[0]], ak(), val()]] + mb()
        H += [["aset", [k[0]], ak(), val()]] + mb()
        H += [rng.choice([["adel", [k[0]], attr_keys[0]], ["del", [k[0]]]])] + mb()
        H += [rng.choice([["set", [k[0]], val()], ["grp", [k[0]]], ["aset", [k[0]], ak(), val()]])] + mb()
        H += [["aset", [k[0]], ak(), val()]]
    return H


def gen_cases(ctx) -> List[List[Any]]:
    rng = ctx.rng
    cases = list(ih5lib.pattern_histories()) + prefix_patterns() + boundary_patterns() + attr_bykey_patterns()
    ntarget = ctx.budget(120, 2000)
    nrand = ctx.budget(260, 4500)
    maxops = ctx.budget(20, 36)
    for i in range(ntarget + nrand):
        keys, attr_keys = pick_keys(rng, 3, 6)
        prefix = targeted(rng, keys, attr_keys) if i < ntarget else None
        n = (len(prefix) + rng.randint(0, 8)) if prefix else rng.randint(4, maxops)
        # copies of a group into its own subtree do not terminate on the pinned tree: every one
        # costs a full time-out, so the random stream draws them rarely (the targeted stream
        # and the fixed patterns always contain them)
        ops = ih5lib.gen_history(rng, n, p_bnd=rng.choice([0.0, 0.1, 0.2, 0.35]), keys=keys,
                                 attr_keys=attr_keys, prefix=prefix, values=VALUES,
                                 allow_self_copy=(rng.random() < 0.25))
        cases.append(_cap_boundaries(_boundary_variation(ops, rng)))
    return cases


# ---------------------------------------------------------------------------- main

def run(ctx: vlib.Ctx):
    proof = ctx.check_proofs()
    cov = ctx.coverage
    cov["trusted_base"] = vlib.TRUSTED_COMMON + [
        "modelled, not verified: single-file HDF5/h5py semantics (the plain specification tree t_step, validated on every run "
        "against h5py.File itself), h5py dataset options and numpy value semantics beyond equality of encoded values, "
        "links (refused by the code)",
    ]
    cases = gen_cases(ctx)
    mcases = [model_ops(c) for c in cases]
    model = vlib.run_model("c01", mcases)
    impl = vlib.pmap(w_both, cases, chunksize=2)

    disagreements: List[Dict[str, Any]] = []
    oracle_hits: List[Dict[str, Any]] = []
    nsteps = ok_steps = 0
    opkinds: Dict[str, int] = {}
    conts_hist: Dict[str, int] = {}
    distinct = set()
    nontrivial = set()
    raw_compared = boundary_views = final_views = 0
    for ci, (ops, m, (ih5, h5)) in enumerate(zip(cases, model, impl)):
        msteps, mconts = m
        sig = vlib.signature(ops)
        distinct.add(sig)
        nb = sum(1 for o in ops if o[0] in ("bnd", "reopen")) + 1
        conts_hist[str(nb)] = conts_hist.get(str(nb), 0) + 1
        for o in ops:
            opkinds[o[0]] = opkinds.get(o[0], 0) + 1
        d = first_diff(ih5, h5)
        if d is not None:
            if d["cls"] == "harness":
                disagreements.append({"kind": "harness", "case": ci, "ops": ops, "what": d["what"]})
            else:
                oracle_hits.append({"case": ci, "ops": ops, **d})
        # correspondence: overlay model <-> IH5Record, specification tree <-> h5py.File
        seen_bnd = False
        for i, (ms, s, t) in enumerate(zip(msteps, ih5["steps"], h5["steps"])):
            nsteps += 1
            mr, tr, eqflag, mview = ms
            mview = norm_view(mview)
            if eqflag != "T" or mr != tr:
                disagreements.append({"kind": "model-internal", "case": ci, "step": i, "ops": ops[:i + 1],
                                      "what": "overlay model and specification tree differ (C01_transparent contradicted for this history)"})
                break
            if t[0] != tr or t[1] != mview:
                disagreements.append({"kind": "spec-vs-h5py", "case": ci, "step": i, "ops": ops[:i + 1],
                                      "model": [tr], "impl": [t[0]],
                                      "only_model": [e for e in mview if e not in t[1]][:3],
                                      "only_impl": [e for e in t[1] if e not in mview][:3]})
                break
            if s[0] != mr or s[1] != mview:
                disagreements.append({"kind": "model-vs-ih5", "case": ci, "step": i, "ops": ops[:i + 1],
                                      "model": [mr], "impl": [s[0]]})
                break
            if ops[i][0] in ("bnd", "reopen"):
                seen_bnd = True
                boundary_views += 1
            elif s[0] == "T":
                ok_steps += 1
                if seen_bnd:
                    nontrivial.add(sig)
        else:
            mlast = norm_view(msteps[-1][3]) if msteps else []
            for stage, view in ih5.get("final", []):
                final_views += 1
                if view != mlast:
                    disagreements.append({"kind": "model-vs-ih5-final", "case": ci, "ops": ops, "stage": stage,
                                          "what": "view after final commit / close + reopen differs from the model view (C01_boundary_invisible)"})
                    break
            if ih5["raw"] is not None:
                raw_compared += 1
                mc = [norm_view(c) for c in mconts]
                if mc != ih5["raw"]:
                    k = next((j for j, (x, y) in enumerate(zip(mc, ih5["raw"])) if x != y), min(len(mc), len(ih5["raw"])))
                    disagreements.append({"kind": "raw-containers", "case": ci, "ops": ops, "container": k,
                                          "model": mc[k] if k < len(mc) else None,
                                          "impl": ih5["raw"][k] if k < len(ih5["raw"]) else None})
    # ---- synthetic raw stacks: the read path alone (IH5InnerNode._children / _node_seq vs. status)
    rng = ctx.rng
    stacks = []
    for _ in range(ctx.budget(300, 5000)):
        ks = rng.sample(KEY_POOL, 3)
        stacks.append(ih5lib.gen_raw_stack(rng, keys=ks, attr_keys=rng.sample(KEY_POOL, 2)))
    smodel = vlib.run_model("c01", [["raw", st] for st in stacks])
    simpl = vlib.pmap(w_raw, stacks, chunksize=4)
    raw_pinned_differs = 0
    for si, (st, m, r) in enumerate(zip(stacks, smodel, simpl)):
        mv, mp = norm_view(m[0]), norm_view(m[1])
        if mv != mp:
            raw_pinned_differs += 1
        if r["raw"] != st:
            disagreements.append({"kind": "raw-stack-write", "stack": st, "impl": r["raw"] or r["view"],
                                  "what": "harness could not materialise the generated containers"})
        elif r["view"] != mv:
            disagreements.append({"kind": "raw-stack-read", "stack": st, "model": mv, "impl": r["view"],
                                  "impl_matches_pinned_rule": r["view"] == mp,
                                  "what": "view of a synthetic container stack differs from the model's read path (C01_no_resurrection / status)"})
    ctx.sample({"raw_stack": stacks[1], "model_view": norm_view(smodel[1][0])})

    ctx.sample({"history": cases[0], "model_final_view": norm_view(model[0][0][-1][3])})
    ctx.sample({"history": cases[len(ih5lib.pattern_histories()) + 1]})
    ctx.sample({"history": cases[-1]})

    # ---- oracle hits: pick a few per failure class and operation kind, shrink in parallel,
    #      dedupe by canonical signature, report
    groups: Dict[str, List[Dict[str, Any]]] = {}
    for h in sorted(oracle_hits, key=lambda h: (h["step"], len(h["ops"]))):
        groups.setdefault(f"{h['cls']}/{h['ops'][h['step']][0] if h['step'] < len(h['ops']) else h.get('stage', 'final')}", []).append(h)
    picked = [h for g in sorted(groups) for h in groups[g][:(1 if g.startswith("timeout") else 3)]][:36]
    shrunk = vlib.pmap(w_shrink, picked, chunksize=1) if picked else []
    seen = set()
    per_class: Dict[str, int] = {}
    unconfirmed = 0
    for h, r in sorted(zip(picked, shrunk), key=lambda hr: len(hr[1]["ops"]) if hr[1] else 10**6):
        if r is None:
            unconfirmed += 1
            continue
        small, d = r["ops"], r["diff"]
        sig = {"history": canon_history(small), "step": d["step"], "class": d["cls"]}
        if d.get("stage"):
            sig["stage"] = d["stage"]
        key = vlib.signature(sig)
        if key in seen:
            continue
        seen.add(key)
        per_class[d["cls"]] = per_class.get(d["cls"], 0) + 1
        if per_class[d["cls"]] > 3 or sum(min(v, 3) for v in per_class.values()) > 12:
            continue          # at most three distinct minimal histories per failure class
        ctx.violation(f"IH5 differs from a plain HDF5 tree at step {d['step']} of {small}: {d['what']}",
                      {"kind": "history", "ops": small, "diff": d, "canonical": sig}, sig_obj=sig)
    cov["distinct_minimal_failures_by_class"] = per_class
    if unconfirmed:
        ctx.notes.append(f"{unconfirmed} oracle hit(s) did not reproduce when re-run alone (time-outs under load); not reported")
    if oracle_hits and not seen and unconfirmed < len(picked):
        ctx.notes.append("oracle hits present but none survived shrinking")

    xc = vlib.coq_crosscheck("c01", mcases, model, "c01", max_cases=ctx.budget(10, 40))
    cov["evaluations"] = len(cases) + len(stacks)
    cov["distinct_nontrivial"] = len(nontrivial)
    cov["rule"] = ("fixed patterns + randomised targeted shapes (replace-then-touch over >=3 containers, create below deleted ancestors, "
                   "copy of a group into its own subtree, attribute carriers on datasets, empty groups beside siblings whose names extend theirs "
                   "followed by a copy of the containing group) each followed by a random tail + random histories "
                   "from a shadow-tree-biased generator with a malformed-operation stream; per-history key alphabet of 3-6 keys drawn from "
                   "printable ASCII without '@' and '/', one time in three a family of names that are prefixes of each other (a, a1, a10, ...); boundaries at random positions, 1-6 containers; non-trivial = distinct history "
                   "with at least one successful mutation after a boundary; plus synthetic raw container stacks (1-5 well-formed "
                   "containers over 3 keys, virtual/overwrite groups, datasets, markers, attributes) for the read path")
    cov["input_distribution"] = {"histories": len(cases), "distinct_histories": len(distinct), "steps": nsteps,
                                 "steps_succeeding": ok_steps, "op_kinds": opkinds,
                                 "containers_per_history": conts_hist, "raw_container_sets_compared": raw_compared,
                                 "views_compared_directly_after_a_boundary_or_reopen": boundary_views,
                                 "views_compared_after_final_commit_and_reopen": final_views,
                                 "synthetic_raw_stacks": len(stacks),
                                 "synthetic_raw_stacks_where_pinned_rule_differs": raw_pinned_differs}
    cov["traces_validated_against_impl"] = len(cases) - len({d["case"] for d in disagreements if "case" in d})
    cov["coq_crosscheck"] = xc
    cov["disagreements"] = len(disagreements)
    cov["disagreement_kinds"] = _hist(d["kind"] for d in disagreements)
    cov["oracle_failures"] = len(oracle_hits)
    cov["proved_operations"] = ["create_group", "create_dataset", "delete", "attr set", "attr delete", "copy", "move", "boundary"]
    ctx.assumptions += ["keys from the IH5 alphabet (printable ASCII without '@' and '/'), the key '.' excluded (HDF5 reads it as the group itself)",
                        "the IH5 deletion-marker value is not used as data (refused by code and model; C17 covers the guard)",
                        "moving a node into its own subtree excluded (as in the property)"]

    if not xc["ok"]:
        ctx.violation("extracted runner and in-Coq evaluation of the model disagree", {"kind": "crosscheck", **xc}, found_input=False)
    if not proof["ok"]:
        ctx.violation("proof obligations of Properties/C01.v do not check: " + "; ".join(proof["problems"])[:500],
                      {"kind": "proof", "theorem_file": "coq/Properties/C01.v", "problems": proof["problems"]}, found_input=False)
    if disagreements and not ctx.violations and not ctx.known_hits:
        d0 = min(disagreements, key=lambda d: len(d.get("ops", d.get("stack", []))))
        ctx.violation("model/implementation correspondence broken but IH5 and plain HDF5 agree on every explored history: " + d0["kind"],
                      {"kind": "correspondence", "correspondence": "coq/IH5/Overlay.v (m_step / t_step / raw containers) vs IH5Record / h5py.File",
                       "smallest_disagreement": d0, "count": len(disagreements)}, found_input=False)
    elif disagreements:
        ctx.notes.append(f"{len(disagreements)} model/impl disagreements, kinds: {cov['disagreement_kinds']}")
    # generated tie: IH5Node._parent_path/_rel_path/_abs_path are re-translated from the current source and
    # their path laws proved on the translated text (coq/Gen/Equiv_ovpaths.v)
    gentie.report(ctx)


def _hist(it):
    h: Dict[str, int] = {}
    for x in it:
        h[str(x)] = h.get(str(x), 0) + 1
    return h


def replay(rep) -> int:
    """Re-run the recorded history on IH5Record and on h5py.File; 1 if they still differ."""
    vlib._pool_init()
    if rep.get("kind") != "history":
        print("replay names a proof obligation or correspondence; re-run the check itself")
        return 1
    d = oracle_fails(rep["ops"])
    print("still failing:" if d else "no longer failing", d or "")
    return 1 if d else 0
