"""C12 — schema instances survive serialisation unchanged.

Oracle (code alone): for every installed schema plugin and every schema class generated
from the documented field-type grammar (real ``MetadataSchema`` subclasses built with
``type(...)``, ``Annotated[..., Field(alias=...)]``, ``@add_const_fields``, ``@ld``,
``Duration`` / ``PintUnit`` / ``PintQuantity`` / ``NonEmptyStr`` fields, nested schemas,
sets, unions, inheritance) and every generated valid instance:
``S.parse_raw(bytes(obj)) == obj``, ``S.parse_raw(obj.yaml()) == obj``,
``S.parse_raw(obj.json()) == obj``, the second round trip equal to the first (byte identical
for set-free instances), every declared constant in ``json_dict()`` with its value, constants
ignored on input; custom parsers accept their own printed output.

Correspondence (model vs. code, generated classes): ``json_dict()`` against the extracted
Gallina ``dump`` on the harness-side typed value of the instance; ``wfb``/``wtb``/``omitsb``
hold of every generated instance (the premises of ``C12_parse_dump``); ``parse_obj``
acceptance and result on mutated inputs against ``parse``.
"""
from __future__ import annotations

import copy
import enum
import json
from typing import Any, Dict, List, Optional, Tuple

import vlib

# ------------------------------------------------------------------------------------------
# value pools (pure data)

INT_POOL = [0, 1, -1, 7, 42, -5, 10 ** 12, 2 ** 63, 123456789, -2 ** 31]
FLOAT_POOL = [0.5, -1.25, 3.0, 1e-07, 1e16, 0.1 + 0.2, 2.5e300, -0.0, 1e22, 123456.789, 5e-324, 2.0]
STR_POOL = [
    "a", "hello world", " x ", "trail ", "  lead", "yes", "null", "1", "1.0", "a: b", "# x", "a\nb",
    "'q'", '"dq"', "- a", "{a}", "[a]", "\ta", "true", "~", "2020-01-01", "x\ty", "e-acute",
    "back\\slash", "@at", "%p", "&amp", "*star", "|", ">", "!tag", "a #c", "k: v: w", "0x10", "1e3",
    "+1", ".5", "NO", "off", "=", "<<", "multi\nline\n", "ends with colon:", "  spaces   inside  ",
    "12:30", "1_000", "? q", "a,b", "`bt`", "x" * 90,
]
UNI_STR_POOL = ["été", "日本語", "naïve café", "Ω≈ç√ ∂", "emoji 😀 ok", "ß", "Ünïcödé: yes", "– dash", "“quoted”"]
DUR_POOL = ["PT3H4M1S", "PT60S", "P1DT12H", "PT0.5S", "P1W", "P2DT3.25S", "-PT5S", "P1Y", "PT36H", "PT0S",
            "PT1M30.5S", "P1Y2M3DT4H", "PT0.000001S", "P10000D", "PT0.1S", "PT1000000S", "-P1D", "PT1H"]
UNIT_POOL = ["meter", "m", "kg/s**2", "meter * candela", "kilogram / second ** 2", "degC", "dimensionless",
             "1/s", "km/h", "N*m", "percent", "angstrom", "eV", "a", " m ", "m^2", "meter**0.5",
             "furlong/fortnight", "delta_degC", "dB", "count", "%", "kg m", "mm*km", "m/m"]
QTY_POOL = ["5 meter", "7.12 kilogram / second ** 2", "0 m", "1e-7 s", "3 dimensionless", "2.5", "1/3 m",
            "10 km/h", "5 m*cd", "12", "0", "m", "0.1 m + 0.2 m", "3 m/m", "1_000 m", "5 kg m", "1e22 s",
            "123456789012345678901234567890 m", "1.5e-300 m", "5 %", "2 m**2", "4 delta_degC", "-3.5 eV", "degC"]
DUR_KW_POOL = [{"years": 1, "days": 3}, {"months": 2}, {"seconds": 90}, {"days": 1, "seconds": 0.5}, {"weeks": 1},
               {"hours": 36}, {"minutes": -5}, {"years": 1, "months": 2, "days": 3, "hours": 4}, {"microseconds": 1},
               {"milliseconds": 1500}, {"years": 2}, {"days": 0}, {"months": 14, "minutes": 1}]
QTY_MU_POOL = [[5, "km/h"], [2.5, "meter"], [3, "kg m"], [-1.5, "eV"], [7, "m"], [1e-7, "s"], [12, "dimensionless"],
               [4, "delta_degC"], [25, "degC"], [0, "m"], [10, "1/s"], [3, "meter**0.5"]]
LIT_POOLS = [["a", "b", "c"], ["single_crystal", "bi_crystal", "poly_crystal"], [1, 2, 3], ["x", 5],
             [True], ["on", "off"], ["yes"], [0, "zero"]]
CONST_VALUES = ["x", "Dataset", 3, True, 2.5, [1, 2], {"a": 1, "b": ["c"]}, "https://w3id.org/ro/crate/1.1/context"]
ATOMS = ["int", "float", "bool", "str", "nestr", "lit", "dur", "unit", "qty", "enum"]
ATOM_W = [2, 2, 1, 2, 2, 2, 3, 3, 3, 2]
STRINGY = ["str", "nestr", "lit", "dur", "unit", "qty"]
ALIASES = ["@id", "@value", "x-{n}", "{n}Alias", "with space {n}", "@{n}"]


class Kind(enum.Enum):            # plain Enum
    raw = "RAW"
    cooked = "COOKED"
    mixed = "mixed data"


class SKind(str, enum.Enum):       # str-mixin Enum
    a = "A"
    b = "B"
    c = "c c"


class IKind(enum.IntEnum):
    one = 1
    two = 2
    ten = 10


ENUMS = {"Kind": Kind, "SKind": SKind, "IKind": IKind}


def is_enum_marker(v):
    return isinstance(v, dict) and "$enum" in v


def const_json(v):
    """JSON value a constant shows in the output (an enum member shows its value)."""
    if is_enum_marker(v):
        return ENUMS[v["$enum"]][v["m"]].value
    if isinstance(v, enum.Enum):
        return v.value
    return v


def const_py(v):
    return ENUMS[v["$enum"]][v["m"]] if is_enum_marker(v) else copy.deepcopy(v)


def enum_marker(rng, ename=None):
    ename = ename or rng.choice(sorted(ENUMS))
    return {"$enum": ename, "m": rng.choice([m.name for m in ENUMS[ename]])}


def _hist(it):
    h: Dict[str, int] = {}
    for x in it:
        h[str(x)] = h.get(str(x), 0) + 1
    return h


# ------------------------------------------------------------------------------------------
# grammar: types, classes, universes (pure functions of an rng)

def gen_atom(rng, kinds=None):
    k = rng.choices(ATOMS, ATOM_W)[0] if kinds is None else rng.choice(kinds)
    if k == "lit":
        return ["lit"] + list(rng.choice(LIT_POOLS))
    if k == "enum":
        return ["enum", rng.choice(sorted(ENUMS))]
    return k


def gen_union(rng, objs):
    kinds = ["int", "float", "bool", "stringy"] + (["obj"] if objs else [])
    n = rng.randint(2, 3)
    ks = rng.sample(kinds, min(n, len(kinds)))
    alts = []
    for k in ks:
        if k == "stringy":
            a = gen_atom(rng, STRINGY)
            if isinstance(a, list):   # a literal inside a union: strings only
                a = ["lit"] + list(rng.choice([p for p in LIT_POOLS if all(isinstance(x, str) for x in p)]))
            alts.append(a)
        elif k == "obj":
            alts.append(["obj", rng.choice(objs)])
        else:
            alts.append(k)
    return ["union"] + alts


def gen_singular(rng, objs):
    r = rng.random()
    if objs and r < 0.18:
        return ["obj", rng.choice(objs)]
    if r < 0.32:
        return gen_union(rng, objs)
    return gen_atom(rng)


def gen_set_elem(rng):
    r = rng.random()
    if r < 0.12:
        return ["union", "int", rng.choice(["nestr", "dur", "unit"])]
    a = gen_atom(rng, ["int", "str", "nestr", "lit", "dur", "unit", "float", "bool", "int", "nestr", "dur", "unit"])
    if isinstance(a, list):
        a = ["lit"] + list(rng.choice([p for p in LIT_POOLS if len({type(x) for x in p}) == 1]))
    return a


def gen_complex(rng, objs):
    r = rng.random()
    if r < 0.04:
        return ["dict", gen_atom(rng, ["int", "float", "nestr", "dur", "unit", "qty", "bool"])]   # code-only (not in the model)
    if r < 0.2:
        return ["list", gen_singular(rng, objs)]
    if r < 0.35:
        return ["set", gen_set_elem(rng)]
    return gen_singular(rng, objs)


def simple_default(rng, t):
    """(has_default, json default) for a non-optional complex type; only simple canonical values."""
    if t == "int":
        return True, rng.choice([0, 7, -3])
    if t == "float":
        return True, rng.choice([2.5, 0.0, -1.5])
    if t == "bool":
        return True, rng.choice([True, False])
    if t in ("str", "nestr"):
        return True, rng.choice(["abc", "dflt value"])
    if isinstance(t, list) and t[0] == "lit":
        return True, t[1]
    if isinstance(t, list) and t[0] == "enum":
        return True, list(ENUMS[t[1]])[0].value
    if isinstance(t, list) and t[0] in ("list", "set"):
        return True, []
    if isinstance(t, list) and t[0] == "dict":
        return True, {}
    return False, None


def gen_class(rng, name, objs, bases, used_names, force_first=None, force_base=None):
    """One class spec.  Fields: [name, alias, type, has_default, default(json)].
    "spec": inherited enum/Literal-typed fields turned into constants (the marked-subclass pattern)."""
    base = None
    if force_base:
        base = force_base
    elif bases and rng.random() < 0.22:
        base = rng.choice(bases)
    nf = rng.randint(1, 6)
    fields = []
    binfo = used_names.get(base, {"fields": [], "consts": []}) if base else {"fields": [], "consts": []}
    taken = set(k for k in binfo["fields"] if k.startswith("f") and k[1:].isdigit())
    alias_taken = set(binfo["fields"]) | set(binfo["consts"])
    field_keys = set(binfo["fields"])
    for i in range(nf):
        n = f"f{len(taken)}"
        taken.add(n)
        t = gen_complex(rng, objs)
        has_d, d = False, None
        if i == 0 and force_first is not None:
            t = force_first
        elif rng.random() < 0.45:
            t = ["opt", t]
            if rng.random() < 0.15:
                has_d, d = simple_default(rng, t[1])
                if has_d and d == []:
                    has_d, d = False, None
        elif isinstance(t, list) and t[0] in ("list", "set", "dict"):
            if rng.random() < 0.6:          # mutable default, may later be filled in place
                has_d, d = simple_default(rng, t)
        elif isinstance(t, list) and t[0] == "obj" and used_names.get(t[1], {}).get("allopt") and rng.random() < 0.5:
            has_d, d = True, {}             # settings: Settings = Settings()
        elif rng.random() < 0.3:
            has_d, d = simple_default(rng, t)
        a = n
        if rng.random() < 0.25 and not (i == 0 and force_first is not None):
            a = rng.choice(ALIASES).format(n=n)
            if a in alias_taken:
                a = n
        alias_taken.add(a)
        alias_taken.add(n)
        field_keys.add(a)
        field_keys.add(n)
        fields.append([n, a, t, has_d, d])
    consts, ld = [], None
    r = rng.random()
    if r < 0.3:
        ld = {"context": rng.choice(["https://schema.org", "https://w3id.org/ro/crate/1.1/context", {"@vocab": "http://ex.org/"}]),
              "type": rng.choice(["Thing", "Dataset", name])}
        if rng.random() < 0.3:
            ld["id"] = "urn:const:" + name
        if any(("@" + k) in field_keys for k in ld):
            ld = None
    elif r < 0.55:
        for k in rng.sample(["kind", "schemaVersion", "flag", "meta", "@type", "ratio"], rng.randint(1, 3)):
            if k not in field_keys:
                consts.append([k, enum_marker(rng) if rng.random() < 0.3 else rng.choice(CONST_VALUES)])
    # specialise inherited enum / Literal fields by a constant (no override flag needed for these)
    spec = []
    specable = dict(binfo.get("specable", {}))
    for fn in sorted(specable):
        if rng.random() < 0.7:
            ft = specable.pop(fn)
            inner = ft[1] if ft[0] == "opt" else ft
            spec.append([fn, enum_marker(rng, inner[1]) if inner[0] == "enum" else rng.choice(inner[1:])])
    for f in fields:
        inner = f[2][1] if (isinstance(f[2], list) and f[2][0] == "opt") else f[2]
        if f[0] == f[1] and isinstance(inner, list) and inner[0] in ("enum", "lit"):
            specable[f[0]] = f[2]
    forbid = (base is None) and rng.random() < 0.15
    allopt = all(f[3] or (isinstance(f[2], list) and f[2][0] == "opt") for f in fields) and (base is None or binfo.get("allopt"))
    used_names[name] = {"allopt": bool(allopt), "fields": sorted(field_keys), "specable": specable,
                        "consts": sorted(set(binfo["consts"]) | {k for k, _ in consts} | {k for k, _ in spec}
                                         | ({"@" + k for k in ld} if ld else set()))}
    return {"name": name, "base": base, "fields": fields, "consts": consts, "ld": ld, "forbid": forbid, "spec": spec}


def gen_universe(rng, uid):
    """1-3 classes; later ones may nest or inherit earlier ones; the last one is the main class."""
    n = rng.choice([1, 1, 2, 2, 3])
    classes, objs, bases, used = [], [], [], {}
    marked = rng.random() < 0.15      # the documented "marked subclass" pattern: Child specialises Base.kind
    if marked:
        n = max(n, 2)
    for i in range(n):
        name = f"G{uid}x{i}"
        if marked and i == n - 2:
            ft = rng.choice([["enum", "Kind"], ["enum", "SKind"], ["enum", "IKind"], ["lit", "p", "q"], ["opt", ["enum", "Kind"]]])
            c = gen_class(rng, name, list(objs), [], used, force_first=ft)
            c["forbid"] = False
        elif marked and i == n - 1:
            c = gen_class(rng, name, list(objs), [], used, force_base=classes[-1]["name"])
        else:
            c = gen_class(rng, name, list(objs), [b for b in bases], used)
        classes.append(c)
        objs.append(name)
        if not c["forbid"]:
            bases.append(name)
    return {"classes": classes, "main": classes[-1]["name"]}


# ---- flattened view of a class (own + inherited), used by the model encoding and by to_tval

def env_of(uni):
    return {c["name"]: c for c in uni["classes"]}


def flat_fields(env, name):
    c = env[name]
    base = flat_fields(env, c["base"]) if c["base"] else []
    gone = {k for k, _ in c.get("spec", [])}
    return [f for f in base if f[0] not in gone] + c["fields"]


def flat_consts(env, name):
    c = env[name]
    d = dict(flat_consts(env, c["base"])) if c["base"] else {}
    if c["ld"]:
        for k, v in c["ld"].items():
            d["@" + k] = v
    for k, v in c["consts"]:
        d[k] = const_json(v)
    for k, v in c.get("spec", []):
        d[k] = const_json(v)
    return d


def is_forbid(env, name):
    c = env[name]
    return bool(c["forbid"] or (c["base"] and is_forbid(env, c["base"])))


def kinds_in(env, t, acc=None):
    acc = set() if acc is None else acc
    if isinstance(t, str):
        if t in ("dur", "unit", "qty"):
            acc.add(t)
    elif t[0] in ("opt", "list", "set", "dict"):
        kinds_in(env, t[1], acc)
    elif t[0] == "union":
        for a in t[1:]:
            kinds_in(env, a, acc)
    elif t[0] == "obj":
        for f in flat_fields(env, t[1]):
            kinds_in(env, f[2], acc)
    return acc


def has_dict(env, t):
    if isinstance(t, str):
        return False
    if t[0] == "dict":
        return True
    if t[0] in ("opt", "list", "set"):
        return has_dict(env, t[1])
    if t[0] == "union":
        return any(has_dict(env, a) for a in t[1:])
    if t[0] == "obj":
        return any(has_dict(env, f[2]) for f in flat_fields(env, t[1]))
    return False


def has_set(env, t):
    if isinstance(t, str):
        return False
    if t[0] == "set":
        return True
    if t[0] in ("opt", "list"):
        return has_set(env, t[1])
    if t[0] == "union":
        return any(has_set(env, a) for a in t[1:])
    if t[0] == "obj":
        return any(has_set(env, f[2]) for f in flat_fields(env, t[1]))
    return False


# ---- inputs (JSON-like, possibly not in canonical form) for a type

def gen_pyobj(rng, t):
    """Marker (JSON-able) for a Python object of a custom type; materialised in the worker."""
    if t == "dur":
        return {"$py": "dur", "kw": dict(rng.choice(DUR_KW_POOL))}
    if t == "unit":
        r = rng.random()
        if r < 0.15:
            return {"$py": "unit-reg", "s": rng.choice(UNIT_POOL)}
        if r < 0.3:
            return {"$py": "unit", "s": rng.choice(["m", "s", "kg", "km/h"]), "pow": rng.choice([2, -1, 3])}
        return {"$py": "unit", "s": rng.choice(UNIT_POOL)}
    r = rng.random()
    if r < 0.15:
        m, u = rng.choice(QTY_MU_POOL)
        return {"$py": "qty-reg", "m": m, "u": u}
    if r < 0.6:
        m, u = rng.choice(QTY_MU_POOL)
        return {"$py": "qty", "m": m, "u": u, "unitobj": rng.random() < 0.3}
    return {"$py": "qty", "s": rng.choice(QTY_POOL)}


def gen_input(rng, env, t, depth=0, py=False):
    if py and t in ("dur", "unit", "qty") and rng.random() < 0.75:
        return gen_pyobj(rng, t)
    if t == "int":
        return rng.choice(INT_POOL)
    if t == "float":
        return rng.choice(FLOAT_POOL)
    if t == "bool":
        return rng.choice([True, False])
    if t == "str":
        return rng.choice(STR_POOL)
    if t == "nestr":
        return rng.choice(STR_POOL)
    if t == "dur":
        return rng.choice(DUR_POOL)
    if t == "unit":
        return rng.choice(UNIT_POOL)
    if t == "qty":
        return rng.choice(QTY_POOL)
    k = t[0]
    if k == "lit":
        return rng.choice(t[1:])
    if k == "enum":
        return rng.choice(list(ENUMS[t[1]])).value
    if k == "opt":
        return gen_input(rng, env, t[1], depth, py)   # presence is decided at field level
    if k == "union":
        return gen_input(rng, env, rng.choice(t[1:]), depth, py)
    if k == "list":
        return [gen_input(rng, env, t[1], depth, py) for _ in range(rng.choice([0, 1, 2, 3]))]
    if k == "set":
        xs = [gen_input(rng, env, t[1], depth, py) for _ in range(rng.choice([0, 1, 2, 3, 4]))]
        if xs and rng.random() < 0.3:
            xs.append(xs[0])
        return xs
    if k == "dict":
        return {kk: gen_input(rng, env, t[1], depth, py) for kk in rng.sample(["k1", "key two", "@k", "3"], rng.choice([0, 1, 2]))}
    if k == "obj":
        return gen_obj_input(rng, env, t[1], depth + 1, py=py)
    raise ValueError(t)


def gen_obj_input(rng, env, name, depth=0, explicit_none=False, py=False):
    d = {}
    for (n, a, t, has_d, dv) in flat_fields(env, name):
        optional = has_d or (isinstance(t, list) and t[0] == "opt")
        if optional and rng.random() < (0.35 if depth == 0 else 0.55):
            continue
        if explicit_none and isinstance(t, list) and t[0] == "opt" and has_d:
            d[a] = None
            continue
        key = n if (a != n and rng.random() < 0.15) else a
        d[key] = gen_input(rng, env, t, depth, py)
    for k_, v_ in env[name].get("spec", []):       # sometimes state the specialised constant (right or other value)
        if rng.random() < 0.3:
            d[k_] = const_json(v_) if rng.random() < 0.5 else (
                rng.choice(list(ENUMS[v_["$enum"]])).value if is_enum_marker(v_) else "q")
    return d


def unicodify(rng, j):
    """Replace free-text strings (those drawn from STR_POOL) by non-Latin-1 text; code-only instances."""
    if isinstance(j, str):
        return rng.choice(UNI_STR_POOL) if j in STR_POOL else j
    if isinstance(j, list):
        return [unicodify(rng, x) for x in j]
    if isinstance(j, dict):
        return {k: unicodify(rng, v) for k, v in j.items()}
    return j


def gen_derived(rng, env, name, inps, n):
    """Recipes for instances changed after construction (pure)."""
    fields = flat_fields(env, name)
    out = []
    if len(inps) < 2:
        return out

    def has(inp, f):
        return f[1] in inp or f[0] in inp

    def val(inp, f):
        return inp[f[1]] if f[1] in inp else inp.get(f[0])

    for _ in range(4 * n):
        if len(out) >= n:
            break
        a, b = rng.sample(inps, 2)
        op = rng.choice(["inplace", "inplace", "inplace", "nested-assign", "copy", "construct"])
        if op == "construct":
            out.append({"$derive": op, "a": a, "b": b})
            continue
        if op == "inplace":
            cands = [f for f in fields if f[3] and isinstance(f[2], list) and f[2][0] in ("list", "set", "dict", "obj") and has(b, f)
                     and val(b, f) not in ([], {})]
        elif op == "nested-assign":
            cands = [f for f in fields if _single_obj(f[2]) and has(a, f) and has(b, f) and isinstance(val(a, f), dict) and val(b, f)]
        else:
            cands = [f for f in fields if has(b, f)]
        if cands:
            out.append({"$derive": op, "a": a, "b": b, "field": rng.choice(cands)[0]})
    return out


# ---- mutations of an input (for the parser acceptance comparison)

WRONG = [77, 1.5, True, "zz", "  ", "", [], {}, [1], ["a"], {"a": 1}, None, "PT1S", "meter", "3 m", -1]


def _has_lit(env, t):
    if isinstance(t, str):
        return False
    if t[0] in ("lit", "enum"):
        return True
    if t[0] in ("opt", "list", "set"):
        return _has_lit(env, t[1])
    if t[0] == "union":
        return any(_has_lit(env, a) for a in t[1:])
    return False


def _has_obj(t):
    if isinstance(t, str):
        return False
    if t[0] == "obj":
        return True
    if t[0] in ("opt", "list", "set"):
        return _has_obj(t[1])
    if t[0] == "union":
        return any(_has_obj(a) for a in t[1:])
    return False


def mutate(rng, env, name, inp):
    """One mutated copy of an object input, or None."""
    inp = copy.deepcopy(inp)
    fields = flat_fields(env, name)
    consts = flat_consts(env, name)
    by_key = {}
    for f in fields:
        by_key[f[1]] = f
        by_key[f[0]] = f
    ops = ["drop", "null", "wrong", "extra", "rename", "const", "dupset", "permset", "numflip", "nested"]
    for _ in range(6):
        op = rng.choice(ops)
        keys = [k for k in inp if k in by_key]
        if op == "drop" and keys:
            del inp[rng.choice(keys)]
            return inp
        if op == "null":
            f = rng.choice(fields)
            if f[1] not in inp and f[0] in inp:
                continue
            inp[f[1]] = None
            return inp
        if op == "wrong":
            f = rng.choice(fields)
            if f[1] not in inp and f[0] in inp:
                continue
            v = rng.choice(WRONG)
            if _has_lit(env, f[2]) and (isinstance(v, (bool, int, float)) or (isinstance(v, list) and v and isinstance(v[0], (bool, int, float)))):
                continue      # Literal membership is Python equality (True == 1 == 1.0)
            if _has_obj(f[2]) and (isinstance(v, list) or v == ""):
                continue      # pydantic feeds non-dict input of a model field to dict(): [] and "" become {}
            inp[f[1]] = v
            return inp
        if op == "extra":
            inp["zzExtra"] = rng.choice([1, "e", None, [1]])
            return inp
        if op == "rename":
            cands = [f for f in fields if f[0] != f[1] and f[1] in inp]
            if cands:
                f = rng.choice(cands)
                inp[f[0]] = inp.pop(f[1])
                return inp
        if op == "const" and consts:
            k = rng.choice(sorted(consts))
            inp[k] = rng.choice(["JUNK", 0, None, {"j": 1}, [consts[k]]])
            return inp
        if op == "dupset":
            cands = [k for k in keys if isinstance(inp[k], list) and inp[k]]
            if cands:
                k = rng.choice(cands)
                inp[k] = inp[k] + [inp[k][-1]]
                return inp
        if op == "permset":
            cands = [k for k in keys if isinstance(inp[k], list) and len(inp[k]) > 1]
            if cands:
                k = rng.choice(cands)
                xs = list(inp[k])
                rng.shuffle(xs)
                inp[k] = xs + [xs[0]]
                return inp
        if op == "numflip":
            cands = [k for k in keys if isinstance(inp[k], (int, float)) and not isinstance(inp[k], bool)
                     and not _has_lit(env, by_key[k][2])]
            if cands:
                k = rng.choice(cands)
                v = inp[k]
                inp[k] = float(v) if isinstance(v, int) and abs(v) < 2 ** 53 else (int(v) if isinstance(v, float) and v == int(v) and abs(v) < 1e15 else 9)
                return inp
        if op == "nested":
            cands = [k for k in keys if isinstance(inp[k], dict) and isinstance(by_key[k][2], list)
                     and _single_obj(by_key[k][2])]
            if cands:
                k = rng.choice(cands)
                sub = mutate(rng, env, _single_obj(by_key[k][2]), inp[k])
                if sub is not None:
                    inp[k] = sub
                    return inp
    return None


def _single_obj(t):
    """Name of the class if t is obj or opt(obj) (no union), else None."""
    if isinstance(t, list) and t[0] == "opt":
        t = t[1]
    if isinstance(t, list) and t[0] == "obj":
        return t[1]
    return None


# ------------------------------------------------------------------------------------------
# encodings towards the model

def jsx(j):
    if j is None:
        return "null"
    if isinstance(j, bool):
        return ["b", "T" if j else "F"]
    if isinstance(j, int):
        return ["i", str(j)]
    if isinstance(j, float):
        return ["f", repr(j)]
    if isinstance(j, str):
        return ["s", j]
    if isinstance(j, (list, tuple)):
        return ["a"] + [jsx(x) for x in j]
    if isinstance(j, dict):
        return ["o"] + [[str(k), jsx(v)] for k, v in j.items()]
    raise TypeError(type(j))


def canon_jsx(x):
    """Objects compared as maps: sort the members by key."""
    if isinstance(x, list) and x and x[0] == "o":
        return ["o"] + sorted(([kv[0], canon_jsx(kv[1])] for kv in x[1:]), key=lambda kv: kv[0])
    if isinstance(x, list) and x and x[0] == "a":
        return ["a"] + [canon_jsx(y) for y in x[1:]]
    return x


def canon_json_ty(env, t, x):
    """Type-directed: arrays at Set positions are compared as sets (sorted); objects as maps."""
    if isinstance(t, str) or x == "null" or not isinstance(x, list):
        return x
    k = t[0]
    if k == "opt":
        return canon_json_ty(env, t[1], x)
    if k == "set" and x and x[0] == "a":
        return ["a"] + sorted((canon_json_ty(env, t[1], y) for y in x[1:]), key=lambda y: json.dumps(y))
    if k == "list" and x and x[0] == "a":
        return ["a"] + [canon_json_ty(env, t[1], y) for y in x[1:]]
    if k == "union":
        if x and x[0] == "o":
            for a in t[1:]:
                if isinstance(a, list) and a[0] == "obj":
                    return canon_json_ty(env, a, x)
        return canon_jsx(x)
    if k == "obj" and x and x[0] == "o":
        by = {f[1]: f[2] for f in flat_fields(env, t[1])}
        out = []
        for kv in x[1:]:
            out.append([kv[0], canon_json_ty(env, by[kv[0]], kv[1]) if kv[0] in by else canon_jsx(kv[1])])
        return ["o"] + sorted(out, key=lambda kv: kv[0])
    return canon_jsx(x)


def canon_tval(x):
    """Sets compared as sets: sort the members of every set node."""
    if isinstance(x, list) and x:
        if x[0] == "set":
            return ["set"] + sorted((canon_tval(y) for y in x[1:]), key=lambda y: json.dumps(y))
        if x[0] in ("list", "obj"):
            return [x[0]] + [canon_tval(y) for y in x[1:]]
        if x[0] == "some":
            return ["some", canon_tval(x[1])]
        if x[0] == "un":
            return ["un", x[1], canon_tval(x[2])]
        if x[0] == "lit":
            return ["lit", canon_jsx(x[1])]
    return x


def default_tval(env, t, d):
    """tval of a declared (simple) default."""
    if d is None:
        return "none"
    if isinstance(t, list) and t[0] == "opt":
        return ["some", default_tval(env, t[1], d)]
    if isinstance(t, list) and t[0] == "obj":      # Nested(): every field at its own default
        return ["obj"] + [default_tval(env, f[2], f[4]) if f[3] else "none" for f in flat_fields(env, t[1])]
    if t == "int":
        return ["i", str(d)]
    if t == "float":
        return ["f", repr(float(d))]
    if t == "bool":
        return ["b", "T" if d else "F"]
    if t in ("str", "nestr"):
        return ["s", d]
    if t[0] in ("lit", "enum"):
        return ["lit", jsx(d)]
    if t[0] == "list":
        return ["list"]
    if t[0] == "set":
        return ["set"]
    raise ValueError((t, d))


def model_ty(env, t):
    if isinstance(t, str):
        return t
    k = t[0]
    if k == "lit":
        return ["lit"] + [jsx(v) for v in t[1:]]
    if k == "enum":       # an enum-typed field holds the member's value (use_enum_values)
        return ["lit"] + [jsx(m.value) for m in ENUMS[t[1]]]
    if k in ("opt", "list", "set"):
        return [k, model_ty(env, t[1])]
    if k == "union":
        return ["union"] + [model_ty(env, a) for a in t[1:]]
    if k == "obj":
        name = t[1]
        fs = []
        for (n, a, ft, has_d, d) in flat_fields(env, name):
            fs.append([n, a, model_ty(env, ft), [default_tval(env, ft, d)] if has_d else []])
        cs = [[k2, jsx(v)] for k2, v in flat_consts(env, name).items()]
        return ["obj", "T" if is_forbid(env, name) else "F", fs, cs]
    raise ValueError(t)


# ------------------------------------------------------------------------------------------
# implementation side (worker processes)

_ENC = {}


def _types():
    if not _ENC:
        import isodate
        from metador_core.schema.types import Duration, PintQuantity, PintUnit
        _ENC.update(dur=(Duration, isodate.duration_isoformat), unit=(PintUnit, str), qty=(PintQuantity, str))
    return _ENC


_NORM_CACHE: Dict[Tuple[str, str], Optional[str]] = {}


def real_norm(kind, s):
    """The real custom parser composed with the registered JSON encoder; None = refused."""
    key = (kind, s)
    if key not in _NORM_CACHE:
        from pydantic import parse_obj_as
        T, enc = _types()[kind]
        try:
            _NORM_CACHE[key] = enc(parse_obj_as(T, s))
        except Exception:  # noqa: BLE001
            _NORM_CACHE[key] = None
    return _NORM_CACHE[key]


def strings_in(j, acc):
    if isinstance(j, str):
        acc.add(j)
    elif isinstance(j, list):
        for x in j:
            strings_in(x, acc)
    elif isinstance(j, dict):
        for x in j.values():
            strings_in(x, acc)


def norm_table(kinds, jsons):
    """Finite normaliser table over every string in the given JSON values (closed under output)."""
    strs = set()
    for j in jsons:
        strings_in(j, strs)
    tab, bad = [], []
    for k in sorted(kinds):
        seen = set()
        todo = sorted(strs)
        while todo:
            s = todo.pop()
            if s in seen:
                continue
            seen.add(s)
            o = real_norm(k, s)
            if o is not None:
                tab.append([k, s, o])
                if o not in seen:
                    todo.append(o)
                o2 = real_norm(k, o)
                if o2 != o:
                    bad.append({"ckind": k, "input": s, "printed": o, "reparsed_printed": o2})
    return tab, bad


def pytype(env_cls, t):
    from typing import List as TList, Literal, Optional as TOpt, Set as TSet, Union
    from metador_core.schema import types as T
    if isinstance(t, str):
        return {"int": T.Int, "float": T.Float, "bool": T.Bool, "str": T.Str, "nestr": T.NonEmptyStr,
                "dur": T.Duration, "unit": T.PintUnit, "qty": T.PintQuantity}[t]
    k = t[0]
    if k == "lit":
        return Literal[tuple(t[1:])]
    if k == "enum":
        return ENUMS[t[1]]
    if k == "opt":
        return TOpt[pytype(env_cls, t[1])]
    if k == "union":
        return Union[tuple(pytype(env_cls, a) for a in t[1:])]
    if k == "list":
        return TList[pytype(env_cls, t[1])]
    if k == "set":
        return TSet[pytype(env_cls, t[1])]
    if k == "dict":
        from typing import Dict as TDict
        return TDict[str, pytype(env_cls, t[1])]
    if k == "obj":
        return env_cls[t[1]]
    raise ValueError(t)


def build_classes(uni):
    """Real MetadataSchema subclasses for a universe: name -> class."""
    from pydantic import Extra, Field
    from typing_extensions import Annotated
    from metador_core.schema import MetadataSchema
    from metador_core.schema.decorators import add_const_fields
    from metador_core.schema.ld import ld
    out: Dict[str, Any] = {}
    for c in uni["classes"]:
        ann, ns = {}, {"__module__": __name__, "__qualname__": c["name"]}
        for (n, a, t, has_d, d) in c["fields"]:
            T = pytype(out, t)
            if a != n:
                T = Annotated[T, Field(alias=a)]
            ann[n] = T
            if has_d:
                if isinstance(t, list) and t[0] == "set":
                    ns[n] = set()
                elif isinstance(t, list) and t[0] == "obj":
                    ns[n] = out[t[1]]()
                else:
                    ns[n] = copy.deepcopy(d)
        ns["__annotations__"] = ann
        if c["forbid"]:
            ns["Config"] = type("Config", (), {"extra": Extra.forbid})
        base = out[c["base"]] if c["base"] else MetadataSchema
        cls = type(base)(c["name"], (base,), ns)
        if c["ld"]:
            cls = ld(**c["ld"])(cls)
        if c["consts"]:
            cls = add_const_fields({k: const_py(v) for k, v in c["consts"]}, override=True)(cls)
        if c.get("spec"):
            cls = add_const_fields({k: const_py(v) for k, v in c["spec"]})(cls)
        out[c["name"]] = cls
    return out


class Untaggable(Exception):
    pass


def to_tval(env, t, v):
    """Typed value (model encoding) of what an instance holds; independent of the model's parser."""
    enc = _types()
    if t == "int":
        if type(v) is not int:
            raise Untaggable(f"int field holds {type(v).__name__}")
        return ["i", str(v)]
    if t == "float":
        if type(v) is not float:
            raise Untaggable(f"float field holds {type(v).__name__}")
        return ["f", repr(v)]
    if t == "bool":
        if type(v) is not bool:
            raise Untaggable(f"bool field holds {type(v).__name__}")
        return ["b", "T" if v else "F"]
    if t in ("str", "nestr"):
        if type(v) is not str:
            raise Untaggable(f"str field holds {type(v).__name__}")
        return ["s", v]
    if t in ("dur", "unit", "qty"):
        T, f = enc[t]
        if not isinstance(v, T):
            raise Untaggable(f"{t} field holds {type(v).__name__}")
        return ["cus", f(v)]
    k = t[0]
    if k == "lit":
        if not any(type(v) is type(x) and v == x for x in t[1:]):
            raise Untaggable(f"literal field holds {v!r}")
        return ["lit", jsx(v)]
    if k == "enum":
        if not any(type(v) is type(m.value) and v == m.value for m in ENUMS[t[1]]):
            raise Untaggable(f"enum field holds {v!r} ({type(v).__name__})")
        return ["lit", jsx(v)]
    if k == "opt":
        return "none" if v is None else ["some", to_tval(env, t[1], v)]
    if k == "union":
        for i, a in enumerate(t[1:]):
            try:
                return ["un", str(i), to_tval(env, a, v)]
            except Untaggable:
                continue
        raise Untaggable(f"union field holds {type(v).__name__}")
    if k == "list":
        if not isinstance(v, list):
            raise Untaggable("list field")
        return ["list"] + [to_tval(env, t[1], x) for x in v]
    if k == "set":
        if not isinstance(v, (set, frozenset)):
            raise Untaggable("set field")
        return ["set"] + [to_tval(env, t[1], x) for x in v]     # iteration order = dump order
    if k == "obj":
        if type(v).__name__ != t[1]:
            raise Untaggable(f"obj field holds {type(v).__name__}")
        return ["obj"] + [field_tval(env, f, getattr(v, f[0])) for f in flat_fields(env, t[1])]
    raise ValueError(t)


def field_tval(env, f, v):
    t = f[2]
    if v is None and not (isinstance(t, list) and t[0] == "opt"):
        raise Untaggable("None in a non-optional field")
    return to_tval(env, t, v)


FORMS = ("json", "bytes", "yaml")


def _ser(obj, form):
    if form == "json":
        return obj.json()
    if form == "bytes":
        return bytes(obj)
    return obj.yaml()


def _exc(e):
    return f"{type(e).__name__}: {str(e)}".replace("\n", " | ")[:300]


def load_text(text, form):
    """Parse an output text with a plain loader (no schema involved)."""
    if isinstance(text, bytes):
        text = text.decode("utf-8")
    if form in ("json", "bytes"):
        return json.loads(text)
    from ruamel.yaml import YAML      # YAML 1.2, as emitted (PyYAML is YAML 1.1: on/off/yes/no would read as booleans)
    return YAML(typ="safe", pure=True).load(text)


def consts_in_text(inst, tv, path=""):
    """Walk instance and parsed text in parallel: every schema value must show its declared constants."""
    from pydantic import BaseModel
    from metador_core.plugin.metaclass import UndefVersion
    out = []
    if isinstance(inst, BaseModel):
        cls = UndefVersion._unwrap(type(inst)) or type(inst)
        if not isinstance(tv, dict):
            return [{"path": path, "problem": f"schema value printed as {type(tv).__name__}"}]
        consts = getattr(cls, "__constants__", None) or {}
        for k, v in consts.items():
            v = const_json(v)
            if k not in tv or tv[k] != v:
                out.append({"path": path, "const": k, "expected": v, "got": tv.get(k, "<absent>")})
        for name, f in type(inst).__fields__.items():
            if name in consts:
                continue
            v = getattr(inst, name, None)
            if v is None:
                continue
            if f.alias not in tv:
                out.append({"path": f"{path}/{f.alias}", "problem": "field holding a value is absent from the output"})
                continue
            out.extend(consts_in_text(v, tv[f.alias], f"{path}/{f.alias}"))
    elif isinstance(inst, (list, tuple)) and isinstance(tv, list) and len(inst) == len(tv):
        for i, (a, b) in enumerate(zip(inst, tv)):
            out.extend(consts_in_text(a, b, f"{path}/{i}"))
    elif isinstance(inst, dict) and isinstance(tv, dict):
        for k, a in inst.items():
            if k in tv:
                out.extend(consts_in_text(a, tv[k], f"{path}/{k}"))
    return out


NONCANON: List[Dict[str, str]] = []   # per worker process: equal after a round trip, but printed differently


def oracle_instance(S, obj, consts, setfree, check_eq=True):
    """The property's oracle on one instance, code alone.  Returns (problems, reparsed object)."""
    consts = {k: const_json(v) for k, v in consts.items()}
    probs = []
    back = None
    texts = {}
    noncanon = NONCANON
    for form in FORMS:
        try:
            texts[form] = _ser(obj, form)
        except Exception as e:  # noqa: BLE001
            probs.append({"oracle": "serialise-raises", "form": form, "exc": _exc(e), "exc_type": type(e).__name__})
    try:
        jd = obj.json_dict()
    except Exception as e:  # noqa: BLE001
        jd = None
        if not probs:
            probs.append({"oracle": "serialise-raises", "form": "json_dict", "exc": _exc(e), "exc_type": type(e).__name__})
    for form, text in texts.items():
        try:
            miss = consts_in_text(obj, load_text(text, form))
        except Exception as e:  # noqa: BLE001
            miss = [{"problem": "plain loader failed: " + _exc(e)}]
        if miss:
            probs.append({"oracle": "constant-or-field-missing-in-output", "form": form, "missing": miss[:4],
                          "text": text if isinstance(text, str) else text.decode("utf-8", "replace")})
        try:
            o2 = S.parse_raw(text)
        except Exception as e:  # noqa: BLE001
            probs.append({"oracle": "parse-own-output-raises", "form": form, "exc": _exc(e), "exc_type": type(e).__name__,
                          "text": text if isinstance(text, str) else text.decode("utf-8", "replace")})
            continue
        if form == "bytes":
            back = o2
        if not check_eq:
            continue
        if not (o2 == obj):
            probs.append({"oracle": "roundtrip-not-equal", "form": form,
                          "text": text if isinstance(text, str) else text.decode("utf-8", "replace"),
                          "reparsed": repr(o2)[:300], "original": repr(obj)[:300]})
            continue
        try:
            t2 = _ser(o2, form)
            o3 = S.parse_raw(t2)
            if not (o3 == o2 and o3 == obj):
                probs.append({"oracle": "second-roundtrip-not-equal", "form": form})
            elif setfree and _ser(o3, form) != t2:
                # byte identity between the second and the first round trip (set-free instances)
                probs.append({"oracle": "second-dump-differs-setfree", "form": form,
                              "first_roundtrip": str(t2)[:300], "second_roundtrip": str(_ser(o3, form))[:300]})
            elif setfree and t2 != text and form == "json":
                noncanon.append({"original": str(text)[:200], "after_one_roundtrip": str(t2)[:200]})
        except Exception as e:  # noqa: BLE001
            probs.append({"oracle": "second-roundtrip-raises", "form": form, "exc": _exc(e), "exc_type": type(e).__name__})
    if jd is not None:
        for k, v in consts.items():
            if k not in jd or jd[k] != v:
                probs.append({"oracle": "constant-missing-or-wrong", "const": k, "expected": v, "got": jd.get(k, "<absent>")})
        if consts and check_eq and not probs:
            try:
                bare = {k: v for k, v in jd.items() if k not in consts}
                others = [bare]
                for mk in (lambda k, v: "Other" + (v if isinstance(v, str) else k), lambda k, v: {"junk": k},
                           lambda k, v: None, lambda k, v: [v]):
                    d2 = dict(jd)
                    for k, v in consts.items():
                        d2[k] = mk(k, v)
                    others.append(d2)
                for d2 in others:
                    o4 = S.parse_obj(d2)
                    j4 = o4.json_dict()
                    if not (o4 == obj and all(j4.get(k) == v for k, v in consts.items())):
                        probs.append({"oracle": "constant-not-ignored-on-input",
                                      "input_constants": {k: d2.get(k, "<absent>") for k in consts},
                                      "dumped_constants": {k: j4.get(k, "<absent>") for k in consts}})
                        break
                    for form in ("bytes", "yaml"):
                        if not (S.parse_raw(_ser(o4, form)) == obj):
                            probs.append({"oracle": "constant-not-ignored-on-input", "form": form,
                                          "input_constants": {k: d2.get(k, "<absent>") for k in consts}})
                            break
            except Exception as e:  # noqa: BLE001
                probs.append({"oracle": "constant-not-ignored-on-input", "exc": _exc(e), "exc_type": type(e).__name__})
    return probs, back, jd


def materialise(j):
    """Replace {"$py": ...} markers by real Python objects of the custom types."""
    if isinstance(j, list):
        return [materialise(x) for x in j]
    if isinstance(j, dict) and "$py" in j:
        import pint
        from metador_core.schema.types import Duration, PintQuantity, PintUnit
        k = j["$py"]
        if k == "dur":
            return Duration(**j["kw"])
        if k == "unit":
            u = PintUnit(j["s"])
            return u ** j["pow"] if "pow" in j else u
        if k == "unit-reg":
            return pint.application_registry.get().Unit(j["s"])
        if k == "qty-reg":
            return pint.application_registry.get().Quantity(j["m"], j["u"])
        if "s" in j:
            return PintQuantity(j["s"])
        return PintQuantity(j["m"], PintUnit(j["u"]) if j.get("unitobj") else j["u"])
    if isinstance(j, dict):
        return {k: materialise(v) for k, v in j.items()}
    return j


def derive(S, env, main, r):
    """An instance changed after construction.  r = {"$derive": op, "a": input, "b": input, "field": name}.
    Values put in always come from another validated instance (b), so the result is a valid instance."""
    from pydantic import BaseModel
    op, n = r["$derive"], r.get("field")
    f = {x[0]: x for x in flat_fields(env, main)}.get(n)
    b = S.parse_obj(r["b"])
    if op == "construct":      # the way the library's own parsers / partial models build instances
        consts = flat_consts(env, main)
        return S.construct(**{k: getattr(b, k) for k in b.__fields_set__ if k in S.__fields__ and k not in consts})
    bv = getattr(b, n)
    if bv is None:
        return None
    if op == "copy":
        return S.parse_obj(r["a"]).copy(update={n: bv})
    if op == "inplace":        # field left at its (mutable) default, then filled in place
        a_in = {k: v for k, v in r["a"].items() if k not in (f[0], f[1])}
        a = S.parse_obj(a_in)
        av = getattr(a, n)
        if isinstance(av, list):
            av.extend(bv)
        elif isinstance(av, set):
            av.update(bv)
        elif isinstance(av, dict):
            for k, v in bv.items():
                av[k] = v
        elif isinstance(av, BaseModel):
            for k in bv.__fields_set__:
                if k in type(av).__fields__ and k not in (getattr(type(av), "__constants__", None) or {}):
                    setattr(av, k, getattr(bv, k))
        else:
            return None
        return a
    if op == "nested-assign":  # attribute assignment on a nested instance
        a = S.parse_obj(r["a"])
        av = getattr(a, n)
        if not isinstance(av, BaseModel) or not isinstance(bv, BaseModel) or type(av) is not type(bv):
            return None
        for k in bv.__fields_set__:
            if k in type(av).__fields__ and k not in (getattr(type(av), "__constants__", None) or {}):
                setattr(av, k, getattr(bv, k))
        return a
    return None


def py_kwargs(env, classes, name, inp):
    """Constructor arguments with Python objects for the custom types where the input gives strings."""
    enc = _types()
    kw = {}
    by = {}
    for f in flat_fields(env, name):
        by[f[1]] = f
        by[f[0]] = f
    for k, v in inp.items():
        f = by.get(k)
        t = f[2] if f else None
        if isinstance(t, list) and t[0] == "opt":
            t = t[1]
        if t in ("dur", "unit", "qty") and isinstance(v, str):
            from pydantic import parse_obj_as
            v = parse_obj_as(enc[t][0], v)
        elif isinstance(t, list) and t[0] == "obj" and isinstance(v, dict):
            v = classes[t[1]].parse_obj(v)
        kw[k] = v
    return kw


_VARIANTS: Dict[Any, Any] = {}


def variants(S):
    """Indirections through which a schema class is used: marker subclass (multiple bases), plain subclass."""
    if S not in _VARIANTS:
        from metador_core.plugin.metaclass import UndefVersion
        out = []
        try:
            out.append(("version-less-marker", UndefVersion._mark_class(S)))
        except Exception:  # noqa: BLE001
            pass
        try:
            out.append(("subclass", type(S)(S.__name__ + "Sub", (S,), {"__module__": __name__})))
        except Exception:  # noqa: BLE001
            pass
        _VARIANTS[S] = out
    return _VARIANTS[S]


def eval_universe(job):
    """Worker: build the classes of a universe, evaluate inputs and mutants."""
    uni, inputs, mutants = job["uni"], job["inputs"], job["mutants"]
    res = {"uid": job["uid"], "status": "ok", "instances": [], "mutants": [], "norm_bad": []}
    try:
        with vlib.time_limit(180):
            env = env_of(uni)
            main = uni["main"]
            try:
                classes = build_classes(uni)
            except Exception as e:  # noqa: BLE001
                res["status"] = "class-build-failed: " + _exc(e)
                return res
            S = classes[main]
            mt = ["obj", main]
            consts = flat_consts(env, main)
            setfree = not has_set(env, mt)
            kinds = kinds_in(env, mt)
            code_only = has_dict(env, mt)
            del NONCANON[:]
            for (inp, how) in inputs:
                rec = {"input": inp, "how": how}
                try:
                    if how == "ctor":
                        obj = S(**py_kwargs(env, classes, main, inp))
                    elif how == "derived":
                        obj = derive(S, env, main, inp)
                        if obj is None:
                            rec["built"] = False
                            rec["err"] = "derive-skip"
                            res["instances"].append(rec)
                            continue
                    elif how in ("pyobj", "assign"):
                        obj = S.parse_obj(materialise(inp))
                        if how == "assign":     # validate_assignment: re-assign every given top-level field
                            a2n = {}
                            for f in flat_fields(env, main):
                                a2n[f[1]] = f[0]
                                a2n[f[0]] = f[0]
                            for k_, v_ in inp.items():
                                if k_ in a2n:
                                    setattr(obj, a2n[k_], materialise(v_))
                    else:
                        obj = S.parse_obj(inp)
                except Exception as e:  # noqa: BLE001
                    obj = None
                    if how == "ctor":
                        try:
                            obj = S.parse_obj(inp)
                            rec["ctor_rejected"] = _exc(e)
                        except Exception:  # noqa: BLE001
                            obj = None
                    if obj is None:
                        rec["built"] = False
                        rec["err"] = _exc(e)
                        res["instances"].append(rec)
                        continue
                rec["built"] = True
                expl = how == "explicit-none"
                probs, back, jd = oracle_instance(S, obj, consts, setfree, check_eq=not expl)
                rec["problems"] = probs
                rec["json_dict"] = jd
                try:
                    rec["json_dict_back"] = back.json_dict() if back is not None else None
                except Exception:  # noqa: BLE001
                    rec["json_dict_back"] = None
                if code_only:
                    rec["code_only"] = True
                else:
                    try:
                        rec["tval"] = to_tval(env, mt, obj)
                        rec["tval_back"] = to_tval(env, mt, back) if back is not None else None
                    except Untaggable as e:
                        rec["untaggable"] = str(e)
                tab, bad = norm_table(kinds, [inp, jd])
                rec["tab"] = tab
                res["norm_bad"].extend(bad)
                # the same input through indirections of the class: the version-less marker subclass the
                # plugin groups hand out (bases = (UndefVersion, S)) and a plain subclass
                if (len([r_ for r_ in res["instances"] if r_.get("variants_run")]) < job.get("n_variants", 3) and not expl
                        and how != "derived"):
                    rec["variants_run"] = True
                    for via, V in variants(S):
                        try:
                            if how in ("pyobj", "assign"):
                                ov = V.parse_obj(materialise(inp))
                            else:
                                ov = V.parse_obj(inp)
                        except Exception as e:  # noqa: BLE001
                            probs.append({"oracle": "handle-rejects-valid-input", "via": via, "exc": _exc(e), "exc_type": type(e).__name__})
                            continue
                        pv, _b, _j = oracle_instance(V, ov, consts, setfree)
                        for q in pv:
                            q["via"] = via
                        probs.extend(pv)
                        if not pv and not (ov == obj) and how != "assign":
                            probs.append({"oracle": "handle-instance-differs", "via": via})
                res["instances"].append(rec)
            res["noncanon"] = list(NONCANON[:3])
            res["noncanon_n"] = len(NONCANON)
            for m in mutants:
                rec = {"input": m}
                try:
                    o = S.parse_obj(m)
                    rec["ok"] = True
                    try:
                        rec["tval"] = to_tval(env, mt, o)
                    except Untaggable as e:
                        rec["untaggable"] = str(e)
                except Exception as e:  # noqa: BLE001
                    from pydantic import ValidationError
                    rec["ok"] = False
                    rec["validation_error"] = isinstance(e, ValidationError)
                    rec["err"] = _exc(e)
                tab, _bad = norm_table(kinds, [m])
                rec["tab"] = tab
                res["mutants"].append(rec)
    except vlib.CaseTimeout as e:
        res["status"] = "timeout: " + str(e)
    except Exception as e:  # noqa: BLE001
        import traceback
        res["status"] = "worker-exception: " + _exc(e) + " @ " + traceback.format_exc()[-400:]
    return res


# ---- installed schema plugins: generic valid-instance builder from the pydantic field types

class Unsupported(Exception):
    pass


def gen_for_type(tp, rng, depth):
    import datetime
    import enum
    import pathlib
    import typing
    from pydantic import AnyUrl, BaseModel, ConstrainedFloat, ConstrainedInt, ConstrainedList, ConstrainedStr
    from typing_extensions import Annotated, get_args, get_origin
    from metador_core.schema import types as T
    origin = get_origin(tp)
    if tp is typing.Any:
        return rng.choice([1, "any", [1, "x"], {"k": "v"}])
    if origin is Annotated:
        return gen_for_type(get_args(tp)[0], rng, depth)
    if origin is typing.Union:
        args = [a for a in get_args(tp) if a is not type(None)]
        if depth >= 2:
            simple = [a for a in args if not (isinstance(a, type) and issubclass(a, BaseModel))]
            args = simple or args
        return gen_for_type(rng.choice(args), rng, depth)
    if origin in (list, typing.List):
        (a,) = get_args(tp)
        return [gen_for_type(a, rng, depth) for _ in range(rng.choice([1, 1, 2]))]
    if origin in (set, frozenset):
        (a,) = get_args(tp)
        if get_origin(a) is typing.Union:      # models are unhashable: pick the hashable alternatives
            hs = [x for x in get_args(a) if not (isinstance(x, type) and issubclass(x, BaseModel))]
            if not hs:
                raise Unsupported("set of models (unhashable)")
            a = rng.choice(hs)
        elif isinstance(a, type) and issubclass(a, BaseModel):
            raise Unsupported("set of models (unhashable)")
        vals = []
        for _ in range(rng.choice([1, 2, 3])):
            v = gen_for_type(a, rng, depth)
            if v not in vals:
                vals.append(v)
        return vals
    if origin is typing.Literal:
        return rng.choice(get_args(tp))
    if origin in (dict, typing.Dict):
        return {"k": 1} if rng.random() < 0.5 else {}
    if origin is tuple:
        return [gen_for_type(a, rng, depth) for a in get_args(tp) if a is not Ellipsis]
    if isinstance(tp, type):
        if issubclass(tp, BaseModel):
            return gen_model_input(tp, rng, depth + 1)
        if issubclass(tp, T.Duration):
            return rng.choice(DUR_POOL)
        if issubclass(tp, T.PintUnit):
            return rng.choice(UNIT_POOL)
        if issubclass(tp, T.PintQuantity):
            return rng.choice(QTY_POOL)
        if issubclass(tp, AnyUrl):
            return rng.choice(["https://example.org/a/b?q=1", "http://w3id.org/x#y", "https://orcid.org/0000-0001-2345-6789"])
        if issubclass(tp, T.QualHashsumStr):
            return "sha256:" + "ab12" * 16
        if issubclass(tp, T.HashsumStr):
            return "0123abcdEF"
        if issubclass(tp, T.MimeTypeStr):
            return rng.choice(["text/plain", "image/png", "application/json;charset=utf-8"])
        if issubclass(tp, T.NonEmptyStr):
            return rng.choice(STR_POOL)
        if issubclass(tp, enum.Enum):
            return rng.choice(list(tp)).value
        if issubclass(tp, bool):
            return rng.choice([True, False])
        if issubclass(tp, ConstrainedInt) or tp is int:
            lo = 1 if getattr(tp, "gt", None) is not None or getattr(tp, "ge", None) is not None else -5
            return rng.choice([lo, lo + 1, 7, 1024])
        if issubclass(tp, ConstrainedFloat) or tp is float:
            return rng.choice([0.5, 2.25, 1e-3, 1234.5])
        if issubclass(tp, ConstrainedList):
            n = max(1, tp.min_items or 0)
            return [gen_for_type(tp.item_type, rng, depth) for _ in range(n)]
        if issubclass(tp, (ConstrainedStr, str)):
            return rng.choice(["abc", "some text", "x1"])
        if issubclass(tp, datetime.datetime):
            return rng.choice(["2020-01-02T03:04:05", "2021-12-31T23:59:59+00:00", "1999-06-15T12:00:00.250000"])
        if issubclass(tp, datetime.date):
            return rng.choice(["2020-01-02", "1999-12-31"])
        if issubclass(tp, datetime.time):
            return rng.choice(["03:04:05", "23:59:59.500000"])
        if issubclass(tp, pathlib.PurePath):
            return "/tmp/some/path"
    raise Unsupported(repr(tp))


def gen_model_input(S, rng, depth):
    from metador_core.schema.parser import get_parser
    consts = getattr(S, "__constants__", {}) or {}
    if depth > 0 and get_parser(S) is not None and rng.random() < 0.6:
        return rng.choice([5, 2.5, "5 px", "3 meter", "12"])    # custom-parser models (NumValue, SIValue)
    d = {}
    for name, f in S.__fields__.items():
        if name in consts:
            continue
        if not f.required and rng.random() < (0.5 if depth == 0 else 0.2 + 0.25 * depth):
            continue
        try:
            d[f.alias] = gen_for_type(f.outer_type_, rng, depth)
        except Unsupported:
            if f.required:
                raise
    return d


def eval_installed(job):
    """Worker: one installed schema plugin: build up to n valid instances, run the oracle."""
    import random
    name, ver, n, seed = job["name"], tuple(job["version"]), job["n"], job["seed"]
    res = {"name": name, "version": list(ver), "status": "ok", "instances": [], "attempts": 0, "last_err": None}
    try:
        with vlib.time_limit(240):
            from metador_core.plugins import schemas
            S = schemas.get(name, ver)
            consts = dict(getattr(S, "__constants__", {}) or {})
            handles = [("schemas[name]", schemas[name]), ("schemas.get(name)", schemas.get(name))]
            rng = random.Random(seed)
            fixed = job.get("inputs")
            seen = set()
            limit = len(fixed) if fixed else 40 * n
            while len(res["instances"]) < n and res["attempts"] < limit:
                k = res["attempts"]
                res["attempts"] += 1
                try:
                    inp = fixed[k] if fixed else gen_model_input(S, rng, 0)
                    obj = S.parse_obj(inp)
                except Exception as e:  # noqa: BLE001
                    res["last_err"] = _exc(e)
                    continue
                key = json.dumps(inp, sort_keys=True, default=str)
                if key in seen:
                    continue
                seen.add(key)
                try:
                    hasset = any(isinstance(v, (set, frozenset)) for v in _walk(obj.dict(by_alias=True)))
                except Exception:  # noqa: BLE001
                    hasset = True
                probs, _back, jd = oracle_instance(S, obj, consts, not hasset)
                for via, H in handles:
                    try:
                        oh = H.parse_obj(inp)
                    except Exception as e:  # noqa: BLE001
                        probs.append({"oracle": "handle-rejects-valid-input", "via": via, "exc": _exc(e), "exc_type": type(e).__name__})
                        continue
                    ph, _b, _j = oracle_instance(H, oh, consts, not hasset)
                    for q in ph:
                        q["via"] = via
                    probs.extend(ph)
                    if not ph and not (oh == obj):
                        probs.append({"oracle": "handle-instance-differs", "via": via})
                res["instances"].append({"input": inp, "problems": probs, "json_dict": jd})
    except vlib.CaseTimeout as e:
        res["status"] = "timeout: " + str(e)
    except Exception as e:  # noqa: BLE001
        res["status"] = "worker-exception: " + _exc(e)
    return res


def _walk(x):
    yield x
    if isinstance(x, dict):
        for v in x.values():
            yield from _walk(v)
    elif isinstance(x, (list, tuple, set, frozenset)):
        for v in x:
            yield from _walk(v)


def list_installed(_=None):
    from metador_core.plugins import schemas
    return sorted((str(k.name), [int(x) for x in k.version]) for k in schemas.keys()
                  if not str(k.name).startswith("vt."))


def probe_edges(_=None):
    """Observations outside the property's quantifier, recorded in the evidence notes (never a violation):
    an untagged Union with overlapping members, and strings the YAML text level does not preserve."""
    out = {"status": "ok"}
    try:
        with vlib.time_limit(120):
            from typing import Union
            from metador_core.schema import MetadataSchema
            from metador_core.schema.types import Duration, NonEmptyStr, Str
            mk = type(MetadataSchema)
            U = mk("ProbeUnion", (MetadataSchema,), {"__annotations__": {"v": Union[Duration, Str]}, "__module__": __name__})
            o = U(v=" PT1S ")
            b = U.parse_raw(o.json())
            out["union"] = {"held": type(o.v).__name__, "reparsed": type(b.v).__name__, "equal": bool(b == o)}
            Y = mk("ProbeYaml", (MetadataSchema,), {"__annotations__": {"s": NonEmptyStr}, "__module__": __name__})
            lost = []
            for s_ in ["\x85a", "a\u2028b", "a\u2029b", "\xa0a", "a\x0bb", "a\x0cb", "a\rb", "a\x1cb", "a\x7fb", "\ufeffa", "a\x00b", "a\x08b"]:
                y = Y(s=s_)
                for form in FORMS:
                    try:
                        ok = Y.parse_raw(_ser(y, form)) == y
                    except Exception as e:  # noqa: BLE001
                        ok = type(e).__name__
                    if ok is not True:
                        lost.append([repr(s_), form, ok])
            out["text_level_lost"] = lost
    except Exception as e:  # noqa: BLE001
        out["status"] = _exc(e)
    return out


# ------------------------------------------------------------------------------------------
# single-case evaluation in this process (shrinking and replay)

def eval_case_inproc(uni, inp, how):
    vlib._pool_init()
    r = eval_universe({"uid": "x", "uni": uni, "inputs": [(inp, how)], "mutants": []})
    if r["status"] != "ok":
        return [{"oracle": "harness", "status": r["status"]}]
    rec = r["instances"][0]
    if not rec.get("built"):
        return []
    return rec.get("problems", [])


_SHRINK_N = [0]


def _renamed(uni):
    """Copy of a universe under fresh class names (nothing is cached by name in the worker)."""
    _SHRINK_N[0] += 1
    ren = f"S{_SHRINK_N[0]}x"
    txt = json.dumps(uni)
    for c in uni["classes"]:
        txt = txt.replace('"' + c["name"] + '"', '"' + ren + c["name"] + '"')
    return json.loads(txt)


def _type_steps(t, v):
    """Simpler (type, value) candidates for one field."""
    out = []
    if not isinstance(t, list):
        return out
    k = t[0]
    if k == "opt":
        out.append((t[1], v))
    elif k in ("list", "set") and isinstance(v, list):
        for e in v[:3]:
            out.append((t[1], e))
        if len(v) > 1:
            for e in v[:3]:
                out.append((t, [e]))
    elif k == "dict" and isinstance(v, dict):
        for e in list(v.values())[:3]:
            out.append((t[1], e))
    elif k == "union":
        for a in t[1:]:
            out.append((a, v))
    return out


def _referenced(uni):
    env = env_of(uni)
    seen, todo = set(), [uni["main"]]

    def tys(t):
        if isinstance(t, list):
            if t[0] == "obj":
                todo.append(t[1])
            else:
                for x in t[1:]:
                    tys(x)

    while todo:
        n = todo.pop()
        if n in seen:
            continue
        seen.add(n)
        c = env[n]
        if c["base"]:
            todo.append(c["base"])
        for f in c["fields"]:
            tys(f[2])
    return seen


def shrink_case(uni, inp, how, oracle_kind, budget=70):
    """Shrink a failing case while the same oracle keeps failing: ddmin over the main class's own fields,
    then constants (@ld / add_const_fields of every class), then the field types (Optional, List/Set/Dict
    element, Union member) together with the input value, then unreferenced classes."""
    calls = [0]

    def fails(u, i):
        if calls[0] >= budget:
            return False
        calls[0] += 1
        return any(p.get("oracle") == oracle_kind for p in eval_case_inproc(_renamed(u), i, how))

    def main_of(u):
        return [c for c in u["classes"] if c["name"] == u["main"]][0]

    cur_u, cur_i = copy.deepcopy(uni), copy.deepcopy(inp)
    derived = how == "derived"
    # 1. fields
    if not derived:
        env = env_of(cur_u)
        inherited = set()
        if main_of(cur_u)["base"]:
            for f in flat_fields(env, main_of(cur_u)["base"]):
                inherited |= {f[0], f[1]}

        def with_fields(fields):
            u = copy.deepcopy(cur_u)
            main_of(u)["fields"] = [list(f) for f in fields]
            keep = {f[0] for f in fields} | {f[1] for f in fields} | inherited
            return u, {k: v for k, v in cur_i.items() if k in keep}

        small = vlib.ddmin([list(f) for f in main_of(cur_u)["fields"]], lambda fs: fails(*with_fields(fs)), budget=30)
        if small and len(small) < len(main_of(cur_u)["fields"]):
            u, i = with_fields(small)
            if fails(u, i):
                cur_u, cur_i = u, i
    # 2. constants of every class
    for ci in range(len(cur_u["classes"])):
        c = cur_u["classes"][ci]
        if c["ld"]:
            u = copy.deepcopy(cur_u)
            u["classes"][ci]["ld"] = None
            if fails(u, cur_i):
                cur_u = u
        k = 0
        while k < len(cur_u["classes"][ci]["consts"]):
            u = copy.deepcopy(cur_u)
            del u["classes"][ci]["consts"][k]
            if fails(u, cur_i):
                cur_u = u
            else:
                k += 1
    # 3. field types of the main class, with the input value
    if not derived:
        changed = True
        while changed and calls[0] < budget:
            changed = False
            for fi, f in enumerate(main_of(cur_u)["fields"]):
                key = f[1] if f[1] in cur_i else (f[0] if f[0] in cur_i else None)
                if key is None:
                    continue
                for (t2, v2) in _type_steps(f[2], cur_i[key]):
                    u = copy.deepcopy(cur_u)
                    mf = main_of(u)["fields"][fi]
                    mf[2], mf[3], mf[4] = t2, False, None
                    i = dict(cur_i)
                    i[key] = v2
                    if fails(u, i):
                        cur_u, cur_i, changed = u, i, True
                        break
                if changed:
                    break
    # 4. classes nothing refers to any more
    ref = _referenced(cur_u)
    if len(ref) < len(cur_u["classes"]):
        u = copy.deepcopy(cur_u)
        u["classes"] = [c for c in u["classes"] if c["name"] in ref]
        if fails(u, cur_i):
            cur_u = u
    if cur_u == uni and cur_i == inp:
        return uni, inp
    return _renamed(cur_u), cur_i


# ------------------------------------------------------------------------------------------
# main

def run(ctx: vlib.Ctx):
    proof = ctx.check_proofs()
    cov = ctx.coverage
    rng = ctx.rng
    cov["trusted_base"] = vlib.TRUSTED_COMMON + [
        "modelled, not verified: pydantic 1.10 field validation for the grammar (strict primitives, Literal, Optional, "
        "left-to-right Union, List, Set, nested models, alias/name population, defaults, Extra.forbid, exclude_none/by_alias dump) "
        "- transcribed in Schema/RoundTrip.v and compared with the code on generated instances and mutated inputs",
        "premise, not verified: the text-level printer/parser pairs (json.dumps/json.loads via pydantic, pydantic_yaml/ruamel.yaml, "
        "UTF-8 bytes + newline): Section hypotheses json_rt, json_nl_rt, yaml_rt, yaml_as_json of C12_raw_*_roundtrip; "
        "exercised on every instance by the code-only oracle",
        "premise, not verified: the custom normalisers (isodate parse_duration/duration_isoformat, pint Unit/Quantity parsing and str): "
        "abstract [norm]; the runner instantiates it by the finite table observed from the real parsers on each case; "
        "idempotence (hypothesis of C12_custom_parses_own_output) checked on every string met",
        "floats are opaque tokens (repr); Python set iteration order is taken from the instance (sets compared as sets)",
        "instances with undeclared extra fields, date/time/URL field types (installed schemas) are outside the model and covered by the code-only oracle",
    ]
    ctx.assumptions += [
        "a missing optional value is expressed by omission (explicit None for a field with a non-None default is the documented exception, checked separately)",
        "Union alternatives of generated classes have at most one string-accepting member and at most one schema member (untagged unions with overlapping members do not round-trip by construction of pydantic; C12_union_first_match)",
        "strings are Latin-1 without C1 controls / NEL / NBSP (YAML line-break normalisation is third-party text level)",
        "NaN quantities are excluded (not equal to themselves)",
    ]

    # ---- 1. generated universes
    n_uni = ctx.budget(130, 650)
    n_inst = ctx.budget(12, 26)
    jobs = []
    for uid in range(n_uni):
        uni = gen_universe(rng, uid)
        env = env_of(uni)
        inputs = []
        for i in range(n_inst):
            how = "ctor" if i % 6 == 5 else "obj"
            inputs.append((gen_obj_input(rng, env, uni["main"]), how))
        for _ in range(2):
            inputs.append((unicodify(rng, gen_obj_input(rng, env, uni["main"])), "obj-unicode"))
        inputs.extend((r_, "derived") for r_ in gen_derived(rng, env, uni["main"], [x[0] for x in inputs[:n_inst]], ctx.budget(5, 10)))
        if kinds_in(env, ["obj", uni["main"]]):
            for i in range(ctx.budget(4, 8)):
                inputs.append((gen_obj_input(rng, env, uni["main"], py=True), "assign" if i % 4 == 3 else "pyobj"))
        has_expl = any(f[3] and f[4] is not None and isinstance(f[2], list) and f[2][0] == "opt"
                       for f in flat_fields(env, uni["main"]))
        if has_expl:
            inputs.append((gen_obj_input(rng, env, uni["main"], explicit_none=True), "explicit-none"))
        mutants = []
        for (inp, how) in ([] if has_dict(env, ["obj", uni["main"]]) else inputs[: n_inst]):
            for _ in range(2):
                m = mutate(rng, env, uni["main"], inp)
                if m is not None:
                    mutants.append(m)
        jobs.append({"uid": uid, "uni": uni, "inputs": inputs, "mutants": mutants})
    results = vlib.pmap(eval_universe, jobs, chunksize=2)

    # ---- 2. installed schema plugins
    installed = vlib.pmap(list_installed, [None, None], procs=2)[0]
    ijobs = [{"name": n, "version": v, "n": ctx.budget(10, 30), "seed": rng.randrange(2 ** 31)} for (n, v) in installed]
    iresults = vlib.pmap(eval_installed, ijobs)

    edges = vlib.pmap(probe_edges, [None, None], procs=2)[0]
    umodel = vlib.run_model("c12", [["dump", [["dur", "PT1S", "PT1S"]], ["union", "dur", "str"], ["un", "1", ["s", "PT1S"]]]])[0]
    cov["observations"] = {
        "untagged_union_overlap": {"code": edges.get("union"), "model_wtb": umodel[1], "model_reparsed": umodel[4],
                                   "meaning": "Union[Duration, Str] given ' PT1S ': the instance holds the stripped str, its dump re-parses as a Duration; "
                                              "excluded from the quantifier by wtb (C12_union_first_match), not a violation"},
        "yaml_text_level": {"strings_not_preserved": edges.get("text_level_lost"),
                            "meaning": "control / line-separator characters the third-party YAML printer+parser pair does not preserve; "
                                       "outside the generated alphabet (premise yaml_rt), not a violation"},
        "probe_status": edges.get("status"),
    }
    u = edges.get("union") or {}
    if u and not (u.get("held") == "str" and u.get("reparsed") == "Duration" and umodel[1] == "F"
                  and umodel[4] == [["un", "0", ["cus", "PT1S"]]]):
        ctx.notes.append(f"overlap probe: model and code differ: code {u}, model {umodel}")

    # ---- 3. oracle verdicts (code alone)
    n_classes = sum(len(j["uni"]["classes"]) for j in jobs)
    built = 0
    evals = 0
    distinct = set()
    per_class_built = []
    oracle_hits: Dict[str, List[Dict[str, Any]]] = {}
    harness_problems = []
    type_hist: Dict[str, int] = {}
    for job, res in zip(jobs, results):
        if res["status"] != "ok":
            harness_problems.append({"uid": job["uid"], "status": res["status"]})
            continue
        for c in job["uni"]["classes"]:
            for f in c["fields"]:
                _count_types(f[2], type_hist)
        nb = 0
        for rec in res["instances"]:
            if not rec.get("built"):
                continue
            nb += 1
            built += 1
            evals += 3
            if rec.get("json_dict") is not None:
                distinct.add((job["uid"], json.dumps(rec["json_dict"], sort_keys=True)))
            for p in rec.get("problems", []):
                key = p["oracle"] + "/" + p.get("exc_type", "")
                oracle_hits.setdefault(key, []).append({"src": "generated", "uid": job["uid"], "uni": job["uni"],
                                                        "input": rec["input"], "how": rec["how"], "problem": p,
                                                        "json_dict": rec.get("json_dict")})
        per_class_built.append(nb)
    norm_bad = [b for res in results for b in res.get("norm_bad", [])]
    inst_summary = {}
    for res in iresults:
        key = res["name"]
        inst_summary[key] = {"instances": len(res["instances"]), "attempts": res["attempts"], "status": res["status"]}
        if res["status"] != "ok" or not res["instances"]:
            inst_summary[key]["last_err"] = res.get("last_err")
        for rec in res["instances"]:
            evals += 3
            if rec.get("json_dict") is not None:
                distinct.add((key, json.dumps(rec["json_dict"], sort_keys=True)))
            for p in rec.get("problems", []):
                k2 = p["oracle"] + "/" + p.get("exc_type", "")
                oracle_hits.setdefault(k2, []).append({"src": "installed", "schema": res["name"], "version": res["version"],
                                                       "input": rec["input"], "problem": p, "json_dict": rec.get("json_dict")})

    # failures explained by a custom parser refusing its own printed output are reported once, as that
    bad_printed = {b["printed"] for b in norm_bad}

    def explained(h):
        if h["problem"]["oracle"] != "parse-own-output-raises":
            return False
        strs = set()
        strings_in(h.get("json_dict"), strs)
        return bool(strs & bad_printed)

    n_explained = 0
    for key in sorted(oracle_hits):
        keep = [h for h in oracle_hits[key] if not explained(h)]
        n_explained += len(oracle_hits[key]) - len(keep)
        oracle_hits[key] = keep
    oracle_hits = {k: v for k, v in oracle_hits.items() if v}
    for key in sorted(oracle_hits):
        hits = oracle_hits[key]
        gen_hits = [h for h in hits if h["src"] == "generated"]
        first = gen_hits[0] if gen_hits else hits[0]
        p = first["problem"]
        affected_installed = sorted({h["schema"] for h in hits if h["src"] == "installed"})
        if first["src"] == "generated":
            uni, inp = shrink_case(first["uni"], first["input"], first["how"], p["oracle"])
            probs = [q for q in eval_case_inproc(uni, inp, first["how"]) if q.get("oracle") == p["oracle"]]
            p = probs[0] if probs else p
            rep = {"kind": "generated", "uni": uni, "input": inp, "how": first["how"], "oracle": p["oracle"], "problem": p,
                   "hits": len(hits), "installed_schemas_affected": affected_installed}
            mainf = [f[2] for f in env_of(uni)[uni["main"]]["fields"]]
            what = (f"generated schema {uni['main']} with field types {mainf} (instance built via {first['how']}"
                    f"{', used through ' + p['via'] if p.get('via') else ''}): {p['oracle']} "
                    f"({p.get('form', '')} {p.get('exc', '')} {p.get('input_constants', '')})"[:500])
        else:
            rep = {"kind": "installed", "schema": first["schema"], "version": first["version"], "input": first["input"],
                   "oracle": p["oracle"], "problem": p, "hits": len(hits), "installed_schemas_affected": affected_installed}
            what = (f"installed schema {first['schema']}{' through ' + p['via'] if p.get('via') else ''}: {p['oracle']} "
                    f"({p.get('form', '')} {p.get('exc', '')} {p.get('input_constants', '')})"[:500])
        if affected_installed:
            what += f"; installed schemas affected: {affected_installed}"
        ctx.violation(what, rep, sig_obj={"kind": p["oracle"], "exc_type": p.get("exc_type", "")})
    if norm_bad:
        b = sorted(norm_bad, key=lambda x: (x["ckind"], len(x["input"]), x["input"]))[0]
        ctx.violation(f"custom parser refuses / changes its own printed output: {b} "
                      f"({n_explained} generated or installed instances fail to re-parse because of it)",
                      {"kind": "normaliser", **b, "count": len(norm_bad), "instances_failing": n_explained},
                      sig_obj={"kind": "normaliser", "ckind": b["ckind"]})

    # ---- 4. model vs code
    n_code_only = 0
    disagreements: List[Dict[str, Any]] = []
    non_validation: List[Dict[str, Any]] = []
    dcases, dmeta = [], []
    pcases, pmeta = [], []
    for job, res in zip(jobs, results):
        if res["status"] != "ok":
            continue
        env = env_of(job["uni"])
        if has_dict(env, ["obj", job["uni"]["main"]]):
            n_code_only += 1
            continue
        mty = model_ty(env, ["obj", job["uni"]["main"]])
        for rec in res["instances"]:
            if not rec.get("built"):
                continue
            if "untaggable" in rec:
                disagreements.append({"kind": "untaggable-instance", "uid": job["uid"], "why": rec["untaggable"], "input": rec["input"]})
                continue
            if rec.get("json_dict") is None or rec["how"] == "obj-unicode":
                continue        # serialisation raised (reported by the oracle) / wire format is Latin-1
            dcases.append(["dump", rec["tab"], mty, rec["tval"]])
            dmeta.append((job, rec))
            if (rec["how"] in ("pyobj", "assign", "ctor") and rec.get("tval_back") is not None and rec.get("json_dict_back") is not None
                    and canon_tval(rec["tval_back"]) != canon_tval(rec["tval"])):
                # built from Python objects whose printed form is not the parser's canonical one (e.g. int magnitude
                # that pint re-reads as float): equal by ==, finer than the model's value equality.  The instance
                # itself is only compared on the dump; the premises are checked on its re-parsed (canonical) form.
                rec["noncanonical"] = True
                rec2 = dict(rec, tval=rec["tval_back"], json_dict=rec["json_dict_back"], noncanonical=False, how="obj-back")
                dcases.append(["dump", rec["tab"], mty, rec2["tval"]])
                dmeta.append((job, rec2))
        for rec in res["mutants"]:
            if "untaggable" in rec:
                disagreements.append({"kind": "untaggable-parse-result", "uid": job["uid"], "why": rec["untaggable"], "input": rec["input"]})
                continue
            if not rec["ok"] and not rec.get("validation_error"):
                non_validation.append({"uid": job["uid"], "err": rec["err"], "input": rec["input"]})
            pcases.append(["parse", rec["tab"], mty, jsx(rec["input"])])
            pmeta.append((job, rec))
    mres = vlib.run_model("c12", dcases) if dcases else []
    pres = vlib.run_model("c12", pcases) if pcases else []
    evals += len(dcases) + len(pcases)
    n_expl = 0
    n_noncanon = 0
    for case, (job, rec), out in zip(dcases, dmeta, mres):
        wf, wt, om, dj, rep, second = out
        expl = rec["how"] == "explicit-none"
        env = env_of(job["uni"])
        mt = ["obj", job["uni"]["main"]]
        want = canon_json_ty(env, mt, jsx(rec["json_dict"]))
        bad = []
        if wf != "T":
            bad.append("wfb false for a class the code accepted")
        if rec.get("noncanonical"):
            if canon_json_ty(env, mt, dj) != want and len(disagreements) < 40:
                disagreements.append({"kind": "dump", "uid": job["uid"], "problems": ["dump differs from json_dict()"],
                                      "input": rec["input"], "json_dict": rec["json_dict"], "model": out, "tval": rec["tval"]})
            n_noncanon += 1
            continue
        if wt != "T":
            bad.append("wtb false for an instance the code built")
        if canon_json_ty(env, mt, dj) != want:
            bad.append("dump differs from json_dict()")
        if expl and om == "F":
            n_expl += 1
            # documented exception: both sides must read the default back
            if rep and rec.get("tval_back") is not None and canon_tval(rep[0]) != canon_tval(rec["tval_back"]):
                bad.append("explicit-None instance: model and code read back different instances")
        else:
            if om != "T":
                bad.append("omitsb false for an instance built without explicit None")
            if rep != [case[3]]:
                bad.append("model: parse (dump v) <> Some v")
            if second and canon_json_ty(env, mt, second[0]) != canon_json_ty(env, mt, dj):
                bad.append("model: second dump differs")
            if (rec.get("tval_back") is not None and rec["how"] != "obj-back"
                    and canon_tval(rec["tval_back"]) != canon_tval(rec["tval"])):
                bad.append("code: re-parsed instance compares equal but holds different typed values")
        if bad and len(disagreements) < 40:
            disagreements.append({"kind": "dump", "uid": job["uid"], "problems": bad, "input": rec["input"],
                                  "json_dict": rec["json_dict"], "model": out, "tval": rec["tval"]})
    acc = {"both-accept": 0, "both-refuse": 0}
    for case, (job, rec), out in zip(pcases, pmeta, pres):
        m_ok = out != []
        if m_ok != rec["ok"]:
            if len(disagreements) < 40:
                disagreements.append({"kind": "parse-acceptance", "uid": job["uid"], "input": rec["input"],
                                      "model_accepts": m_ok, "code_accepts": rec["ok"], "err": rec.get("err")})
            continue
        if m_ok:
            acc["both-accept"] += 1
            env_p = env_of(job["uni"])
            opt_dflt = any(f[3] and f[4] is not None and isinstance(f[2], list) and f[2][0] == "opt"
                           for c_ in job["uni"]["classes"] for f in c_["fields"])
            if (out[1] != "T" or (out[2] != "T" and not opt_dflt)) and len(disagreements) < 40:
                disagreements.append({"kind": "parse-result-not-valid (C12_parse_valid)", "uid": job["uid"], "input": rec["input"],
                                      "wtb": out[1], "omitsb": out[2], "model": out[0]})
            if canon_tval(out[0]) != canon_tval(rec["tval"]) and len(disagreements) < 40:
                disagreements.append({"kind": "parse-result", "uid": job["uid"], "input": rec["input"],
                                      "model": out[0], "code": rec["tval"]})
        else:
            acc["both-refuse"] += 1
    xc = vlib.coq_crosscheck("c12", dcases, mres, "c12d", max_cases=25) if dcases else {"sampled": 0, "ok": True}
    xc2 = vlib.coq_crosscheck("c12", pcases, pres, "c12p", max_cases=25) if pcases else {"sampled": 0, "ok": True}

    # ---- 5. coverage
    if dcases:
        ctx.sample({"model_case": dcases[0], "model_result": mres[0], "json_dict": dmeta[0][1]["json_dict"]})
    if len(dcases) > 7:
        ctx.sample({"class": dmeta[7][0]["uni"], "input": dmeta[7][1]["input"], "json_dict": dmeta[7][1]["json_dict"]})
    if pcases:
        ctx.sample({"model_case": pcases[0], "model_result": pres[0], "code_accepts": pmeta[0][1]["ok"]})
    for res in iresults[:2]:
        if res["instances"]:
            ctx.sample({"installed": res["name"], "input": res["instances"][0]["input"]})
    cov["evaluations"] = evals
    cov["distinct_nontrivial"] = len(distinct)
    cov["rule"] = ("generated: universes of 1-3 MetadataSchema classes drawn from the mergeable-type grammar "
                   "(Optional[complex], complex = singular | List/Set of singular, singular = atom | schema | Union), "
                   "instances from JSON-like inputs (not necessarily canonical) via parse_obj or the constructor with Python objects; "
                   "installed: every plugin of the schema group, inputs from a generic type-directed builder, kept if the schema accepts them. "
                   "distinct_nontrivial = number of distinct (class, json_dict()) pairs of built instances; evaluations = 3 text forms per "
                   "instance + model runs")
    cov["input_distribution"] = {
        "universes": n_uni, "generated_classes": n_classes, "main_classes": len(per_class_built),
        "instances_built": built, "min_instances_per_main_class": min(per_class_built) if per_class_built else 0,
        "field_type_histogram": type_hist, "installed": inst_summary,
        "classes_specialising_inherited_enum_or_literal_field": sum(1 for j in jobs for c in j["uni"]["classes"] if c.get("spec")),
        "classes_with_enum_member_constants": sum(1 for j in jobs for c in j["uni"]["classes"]
                                                  if any(is_enum_marker(v) for _k, v in c["consts"] + c.get("spec", []))),
        "mutants": len(pcases), "parser_agreement": acc, "explicit_none_instances": n_expl,
        "object_built_noncanonical_instances": n_noncanon, "universes_code_only_dict_fields": n_code_only,
        "all_build_modes": _hist(rec["how"] for res in results if res["status"] == "ok" for rec in res["instances"] if rec.get("built")), "build_modes": _hist(rec["how"] for _j, rec in dmeta),
        "dump_cases": len(dcases),
    }
    cov["coq_crosscheck"] = {"dump": xc, "parse": xc2}
    cov["disagreements"] = len(disagreements)
    cov["correspondence"] = {
        "theorems_tied": ["C12_parse_dump", "C12_second_roundtrip_stable", "C12_consts_forced", "C12_consts_ignored",
                          "C12_explicit_none_default", "C12_custom_parses_own_output", "C12_parsed_atoms_valid",
                          "C12_parse_valid / C12_parse_idempotent (wtb, omitsb of every value the model parser returns for a mutated input "
                          "the code also accepts; generated Unions are unambiguous)", "C12_set_input_order_irrelevant (permuted / duplicated arrays)",
                          "C12_ambiguous_union_refuted (overlap probe on the code)",
                          "C12_dump_pinned_refuted (on the pinned tree: serialise-raises)"],
        "how": "dump/wfb/wtb/omitsb/parse of Schema/RoundTrip.v evaluated by the extracted runner on the harness-side typed value of "
               "every built instance and on mutated inputs, compared with json_dict()/parse_obj of the real classes",
    }
    if harness_problems:
        ctx.notes.append(f"{len(harness_problems)} universes not evaluated: {harness_problems[:3]}")
    nc = [x for res in results if res["status"] == "ok" for x in res.get("noncanon", [])]
    if nc:
        ctx.notes.append(f"observation: {sum(res.get('noncanon_n', 0) for res in results if res['status'] == 'ok')} set-free instances built from Python "
                         f"objects are equal after a round trip but printed differently the first time (pint re-reads an int magnitude as float "
                         f"for division / fractional-power units), e.g. {nc[0]}; the second and first round trips are byte-identical")
    ctor_rej = [rec["ctor_rejected"] for res in results if res["status"] == "ok" for rec in res["instances"] if rec.get("ctor_rejected")]
    if ctor_rej:
        ctx.notes.append(f"observation (not C12): the constructor rejected {len(ctor_rej)} inputs given as Python objects that the same "
                         f"schema accepts as strings (e.g. a zero PintQuantity is falsy: 'if not v' in PintParser.parse), first: {ctor_rej[0][:200]}")
    if non_validation:
        ctx.notes.append(f"observation (not C12): parse_obj raised something other than ValidationError on {len(non_validation)} "
                         f"invalid inputs, e.g. {non_validation[0]}")
    not_inst = sorted(k for k, v in inst_summary.items() if not v["instances"])
    if not_inst:
        ctx.notes.append(f"installed schemas for which no valid instance could be built in this environment: "
                         f"{[(k, inst_summary[k].get('last_err') or inst_summary[k]['status']) for k in not_inst]}")

    if not xc["ok"] or not xc2["ok"]:
        ctx.violation("extracted runner and in-Coq evaluation of the model disagree (stale or wrong extraction)",
                      {"kind": "crosscheck", "dump": xc, "parse": xc2}, found_input=False)
    if not proof["ok"]:
        ctx.violation("proof obligations of Properties/C12.v do not check: " + "; ".join(proof["problems"])[:500],
                      {"kind": "proof", "theorem_file": "coq/Properties/C12.v", "problems": proof["problems"]},
                      found_input=False)
    if harness_problems and len(harness_problems) > n_uni // 10:
        ctx.violation("more than 10% of the generated universes could not be evaluated (worker failure or timeout)",
                      {"kind": "harness", "problems": harness_problems[:5]}, found_input=False)
    if disagreements and not ctx.violations and not ctx.known_hits:
        ctx.violation("model/implementation correspondence broken but the property oracle found no failing input",
                      {"kind": "correspondence", "correspondence": "coq/Schema/RoundTrip.v run_c12 (dump/parse/wtb) vs "
                       "MetadataSchema.json_dict/parse_obj; theorem C12_parse_dump",
                       "smallest_disagreement": disagreements[0], "count": len(disagreements)},
                      found_input=False)
    elif disagreements:
        ctx.notes.append(f"{len(disagreements)} model/impl disagreements (first: {json.dumps(disagreements[0], default=str)[:600]})")


def _count_types(t, h):
    k = t if isinstance(t, str) else t[0]
    h[k] = h.get(k, 0) + 1
    if isinstance(t, list):
        if k in ("opt", "list", "set", "dict"):
            _count_types(t[1], h)
        elif k == "union":
            for a in t[1:]:
                _count_types(a, h)


def replay(rep) -> int:
    """Re-evaluate the recorded failing case on the current tree; 1 if it still fails."""
    vlib._pool_init()
    kind = rep.get("kind")
    if kind == "generated":
        probs = eval_case_inproc(rep["uni"], rep["input"], rep.get("how", "obj"))
        same = [p for p in probs if p.get("oracle") == rep.get("oracle")]
        for p in probs:
            print(p)
        print("still failing" if same else ("other problems" if probs else "no longer failing"))
        return 1 if probs else 0
    if kind == "installed":
        r = eval_installed({"name": rep["schema"], "version": rep["version"], "n": 1, "seed": 0, "inputs": [rep["input"]]})
        probs = [p for rec in r["instances"] for p in rec["problems"]]
        for p in probs:
            print(p)
        if r["status"] != "ok" or not r["instances"]:
            print("could not rebuild the instance:", r["status"], r.get("last_err"))
            return 1
        print("still failing" if probs else "no longer failing")
        return 1 if probs else 0
    if kind == "normaliser":
        o = real_norm(rep["ckind"], rep["input"])
        o2 = real_norm(rep["ckind"], o) if o is not None else None
        print(repr(o), repr(o2))
        return 0 if o == o2 else 1
    print("replay names a proof obligation or correspondence; re-run the check itself")
    return 1
