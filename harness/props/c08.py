"""C08 — the reserved ``metador_*`` namespace is invisible and untouchable for users.

Correspondence (model coq/Toc/UserView.v, entry ``run_c08``): random histories mixing data
operations (create/require group and dataset, ``g[p] = v``, delete, move, copy with and
without metadata, copy into a group object with ``name=``, attributes, lookups) with
metadata operations (attach/detach of installed schemas) and operations naming reserved
paths, run through ``MetadorContainer`` over both drivers (``h5py.File``, ``IH5Record``).
After every operation: result class, the user-visible tree, and keys / iter / len / items /
values / visit / visititems / ``in`` / reversed at *every* group are compared with the model;
the final raw (unwrapped) tree is compared modulo UUID renaming.

Oracles on the code alone (no model):
  (a) protocol enumeration: every name in ``dir()`` of the wrappers, of ``h5py.Group``/``File``,
      ``IH5Group``/``IH5Record`` and ``wrapt.ObjectProxy`` is looked up on the container and on a
      sub-group; it must be refused by ``__getattr__`` or it is probed: the reviewed path-taking
      methods with every reserved path form in every argument position (string, node object,
      ``name=`` keyword), every other callable generically with the same shapes -- expected:
      an exception for the path methods, and in all cases an identical raw dump and no
      reserved name in any returned value;
  (b) every listing at every group after every operation shows no reserved name and has
      exactly the non-reserved children of the raw dump;
  (c) the same user operations on a plain ``h5py.File`` give the same user-visible tree.
"""
from __future__ import annotations

import contextlib
import re
import signal
import time
from typing import Any, Dict, List, Optional, Tuple

import gentie
import vlib
from ih5lib import dec, enc

PREF = "metador_"
GUARD_MSG = "Trying to use a Metador-internal path"

# schema ep-name -> (plugin name, constructor kwargs)
SCHEMAS = {
    "core.person__0.1.0": ("core.person", {"name": "Jane Doe"}),
    "core.org__0.1.0": ("core.org", {"name": "Org"}),
}
SEGS = ["a", "b", "c", "d", "x", "metadorx", "xmetador_y", "meta", "A", "0d", "~t", "Mb"]
RES_SEGS = ["metador_x", "metador_meta_", "metador_meta_d", "metador_container", "metador_"]
VALUES = ["i:0", "i:1", "i:2", "i:3", "i:4", "i:5", "i:7", "i:42", "i:99"]
ATTR_KEYS = ["k", "m"]


# compound user operations: a loop over a lazily iterated group whose body mutates the group
#   ["each_del", cwd, mode]            for k in <iteration of g>: del g[k]
#   ["each_detach", cwd, schema, mode] for k, v in <iteration of g>: del v.meta[schema]
#   ["each_move", cwd, suffix, mode]   for k in <iteration of g>: g.move(k, k + suffix)
# mode: "iter" (for k in g), "keys" (g.keys()), "items" (g.items()).  Plain h5py snapshots the names
# when the iteration starts (GroupIter / KeysView), so the reference semantics is "the body runs once
# for every child present at loop start, in name order"; a failing body is caught and the loop goes on.
# Not included: visit/visititems callbacks that mutate -- HDF5 refuses to unlink inside the group
# being visited ("Target already protected"), so that form has no stable plain-tree semantics.
COMPOUND = ("each_del", "each_detach", "each_move")
MODES = ("iter", "keys", "items")


def reserved(path: str) -> bool:
    """Independent statement of 'is or contains a reserved segment'."""
    return any(seg.startswith(PREF) for seg in path.split("/"))


def op_paths(op) -> List[str]:
    k = op[0]
    if k in ("mkgrp", "reqgrp", "del", "get", "mkds", "reqds", "set", "aset", "adel"):
        return [op[1], op[2]]
    if k in ("move", "copy", "copyn"):
        return [op[1], op[2], op[3]]
    if k in ("copyinto", "copyinton"):
        return [op[1], op[2], op[3]] + list(op[4])
    if k in ("attach", "detach") or k in COMPOUND:
        return [op[1]]
    raise ValueError(k)


def to_model_op(op) -> list:
    """Wire form for the model: a node-object source is the lookup of its path by the receiver
    (same guard, same existence check, same order), so copyn/copyinton are copy/copyinto there."""
    if op[0] == "copyn":
        return ["copy"] + list(op[1:])
    if op[0] == "copyinton":
        return ["copyinto"] + list(op[1:])
    return op


def is_user_data_op(op) -> bool:
    return op[0] not in ("attach", "detach", "get") and not any(reserved(p) for p in op_paths(op))


def expand_compound(op, keys: Optional[List[str]]) -> List[list]:
    """The sequence of plain operations a compound operation stands for, given the names the
    group lists at loop start (None: the group cannot be entered).  Always ends with a lookup
    of the group itself, which carries the result class of entering the loop."""
    cwd = op[1]
    out: List[list] = []
    base = norm(cwd)
    for k in sorted(keys or []):
        if op[0] == "each_del":
            out.append(["del", cwd, k])
        elif op[0] == "each_move":
            out.append(["move", cwd, k, k + op[2]])
        else:
            out.append(["detach", absname(base + [k]), op[2]])
    out.append(["get", cwd, "/"])
    return out


# ---------------------------------------------------------------------------- path helpers

def norm(p: str) -> List[str]:
    return [s for s in p.split("/") if s not in ("", ".")]


def resolve(cwd: List[str], p: str) -> List[str]:
    return norm(p) if p.startswith("/") else cwd + norm(p)


def absname(segs: List[str]) -> str:
    return "/" + "/".join(segs)


# ---------------------------------------------------------------------------- generator

class Mirror:
    """Rough mirror of the user tree, only to bias the generator towards meaningful cases."""

    def __init__(self):
        self.nodes: Dict[Tuple[str, ...], str] = {(): "G"}
        self.meta: set = set()

    def groups(self):
        return [p for p, k in self.nodes.items() if k == "G"]

    def datasets(self):
        return [p for p, k in self.nodes.items() if k == "D"]

    def mk(self, p, kind):
        p = tuple(p)
        for i in range(1, len(p)):
            if self.nodes.get(p[:i]) == "D":
                return
            self.nodes.setdefault(p[:i], "G")
        if p and p not in self.nodes:
            self.nodes[p] = kind

    def rm(self, p):
        p = tuple(p)
        if not p:
            return
        for q in [q for q in self.nodes if q[:len(p)] == p]:
            del self.nodes[q]
        self.meta = {(q, s) for (q, s) in self.meta if q[:len(p)] != p}

    def cp(self, s, d, move=False, with_meta=True):
        s, d = tuple(s), tuple(d)
        if s not in self.nodes or d in self.nodes or not s or not d or (move and d[:len(s)] == s):
            return
        sub = {q: k for q, k in self.nodes.items() if q[:len(s)] == s}
        msub = {(q, sc) for (q, sc) in self.meta if q[:len(s)] == s}
        self.mk(d[:-1] + ("_",), "G")
        self.nodes.pop(d[:-1] + ("_",), None)
        if move:
            self.rm(s)
        for q, k in sub.items():
            self.nodes[d + q[len(s):]] = k
        if with_meta or move:
            self.meta |= {(d + q[len(s):], sc) for (q, sc) in msub}


def _spell(rng, cwd: List[str], target: List[str]) -> str:
    """A path string denoting `target` from group `cwd` (relative when possible).  User paths
    are spelled canonically: IH5 does not resolve "./x" and "a//b" like h5py does (a driver
    difference, property C09); those spellings are exercised with reserved paths only."""
    if target[:len(cwd)] == cwd and len(target) > len(cwd) and rng.random() < 0.7:
        return "/".join(target[len(cwd):])
    return absname(target)


def _reserved_path(rng, mir: Mirror) -> str:
    """Relative, absolute and nested reserved paths; some name existing bookkeeping entries."""
    r = rng.random()
    grp = list(rng.choice(mir.groups()))
    if r < 0.2:
        return rng.choice(RES_SEGS)
    if r < 0.35:
        return "/metador_container/" + rng.choice(["links", "version", "uuid", "schemas", "packages"])
    if r < 0.5:
        return absname(grp + ["metador_meta_"]).replace("//", "/")
    if r < 0.62 and mir.datasets():
        d = list(rng.choice(mir.datasets()))
        return absname(d[:-1] + ["metador_meta_" + d[-1]])
    if r < 0.8:
        return "/".join(grp + [rng.choice(RES_SEGS)]) if grp else rng.choice(RES_SEGS)
    if r < 0.9:
        return "/".join([rng.choice(SEGS), rng.choice(RES_SEGS), rng.choice(SEGS)])
    return "./" + rng.choice(RES_SEGS)


def gen_history(rng, nops: int, p_reserved: float = 0.12) -> List[list]:
    mir = Mirror()
    ops: List[list] = []
    if rng.random() < 0.5:
        # same-named children with different values at several depths
        nm, g1, g2 = rng.choice(SEGS), rng.choice(["g", "b", "Mb"]), rng.choice(["h", "c"])
        for j, t in enumerate([[nm], [g1, nm], [g1, g2, nm]]):
            ops.append(["set", "/", "/".join(t), VALUES[(j + rng.randrange(3) * 3) % len(VALUES)]])
            mir.mk(t, "D")
        ops = ops[rng.randrange(2):]
    while len(ops) < nops:
        groups = mir.groups()
        # the receiver of every operation: the root or an existing group of any depth
        deep = [g for g in groups if g]
        cwd = list(rng.choice(deep)) if deep and rng.random() < 0.65 else []
        if rng.random() < 0.03:
            cwd = [rng.choice(SEGS), "zz"]                    # missing group
        elif rng.random() < 0.03 and mir.datasets():
            cwd = list(rng.choice(mir.datasets()))            # not a group
        cwds = absname(cwd)
        existing = [list(p) for p in mir.nodes if p]

        def fresh():
            base = list(rng.choice(groups))
            return base + [rng.choice(SEGS) for _ in range(1 if rng.random() < 0.75 else 2)]

        def some_existing():
            return rng.choice(existing) if existing and rng.random() < 0.85 else fresh()

        r = rng.random()
        op: Optional[list] = None
        if rng.random() < 0.07:
            big = [g for g in groups if sum(1 for p in mir.nodes if p[:-1] == g and p) >= 2] or groups
            cg = list(rng.choice(big))
            kind = rng.choice(COMPOUND)
            if kind == "each_del":
                op = ["each_del", absname(cg), rng.choice(MODES)]
                for p in [p for p in mir.nodes if p and p[:-1] == tuple(cg)]:
                    mir.rm(p)
            elif kind == "each_move":
                op = ["each_move", absname(cg), "2", rng.choice(MODES)]
                for p in sorted(p for p in mir.nodes if p and p[:-1] == tuple(cg)):
                    mir.cp(p, p[:-1] + (p[-1] + "2",), move=True)
            else:
                sc = rng.choice(list(SCHEMAS))
                op = ["each_detach", absname(cg), sc, rng.choice(MODES)]
                mir.meta = {(q, s2) for (q, s2) in mir.meta if not (q[:-1] == tuple(cg) and s2 == sc)}
            if rng.random() < 0.08:
                op[1] = _reserved_path(rng, mir)
            ops.append(op)
            continue
        if r < 0.12:
            t = fresh()
            op = ["mkgrp", cwds, _spell(rng, cwd, t)]
            mir.mk(t, "G")
        elif r < 0.17:
            t = some_existing() if rng.random() < 0.5 else fresh()
            op = ["reqgrp", cwds, _spell(rng, cwd, t)]
            mir.mk(t, "G")
        elif r < 0.30:
            t = fresh()
            if mir.datasets() and rng.random() < 0.45:
                # a name that already exists elsewhere
                t = list(rng.choice(groups)) + [rng.choice(mir.datasets())[-1]]
            kind = rng.choice(["set", "set", "mkds", "reqds"])
            op = [kind, cwds, _spell(rng, cwd, t), rng.choice(VALUES)]
            mir.mk(t, "D")
        elif r < 0.34:
            t = some_existing()
            op = ["reqds", cwds, _spell(rng, cwd, t), rng.choice(VALUES)]
            mir.mk(t, "D")
        elif r < 0.42:
            t = some_existing()
            op = ["del", cwds, _spell(rng, cwd, t)]
            mir.rm(t)
        elif r < 0.52:
            s, d = some_existing(), fresh()
            if d[:len(s)] == s:
                continue
            op = ["move", cwds, _spell(rng, cwd, s), _spell(rng, cwd, d)]
            mir.cp(s, d, move=True)
        elif r < 0.62:
            s, d = some_existing(), fresh()
            if rng.random() < 0.12:
                # a COPY to a place strictly below the source itself grafts a snapshot of the source
                inner = [list(g) for g in groups if len(g) > len(s) and list(g[:len(s)]) == s]
                base = rng.choice(inner) if inner and rng.random() < 0.5 else list(s)
                d = base + [rng.choice(SEGS) for _ in range(1 if rng.random() < 0.5 else 2)]
            wm = rng.random() < 0.4
            op = [rng.choice(["copy", "copy", "copyn"]), cwds, _spell(rng, cwd, s), _spell(rng, cwd, d), wm]
            mir.cp(s, d, with_meta=not wm)
        elif r < 0.70:
            s, dg = some_existing(), list(rng.choice(groups))
            name = [rng.choice(SEGS)] if rng.random() < 0.7 else []
            own = [list(g) for g in groups if g and list(g[:len(s)]) == s]
            if own and rng.random() < 0.12:
                dg = rng.choice(own)        # into the source group itself or one of its sub-groups
            d = dg + (name if name else s[-1:])
            wm = rng.random() < 0.4
            op = [rng.choice(["copyinto", "copyinto", "copyinton"]), cwds, _spell(rng, cwd, s), absname(dg), name, wm]
            mir.cp(s, d, with_meta=not wm)
        elif r < 0.76:
            t = some_existing() if rng.random() < 0.8 else []
            op = ["aset", cwds, _spell(rng, cwd, t) if t else "/", rng.choice(ATTR_KEYS), rng.choice(VALUES)]
        elif r < 0.79:
            t = some_existing()
            op = ["adel", cwds, _spell(rng, cwd, t), rng.choice(ATTR_KEYS)]
        elif r < 0.83:
            op = ["get", cwds, _spell(rng, cwd, some_existing())]
        elif r < 0.95:
            t = some_existing() if rng.random() < 0.85 else []
            sc = rng.choice(list(SCHEMAS))
            op = ["attach", absname(t), sc, PKG.get(sc, "pkg__0.0.0"), "{}"]
            mir.meta.add((tuple(t), sc))
        else:
            have = sorted(mir.meta)
            if have and rng.random() < 0.8:
                t, sc = rng.choice(have)
                mir.meta.discard((t, sc))
            else:
                t, sc = tuple(some_existing()), rng.choice(list(SCHEMAS))
            op = ["detach", absname(list(t)), sc]
        # reserved probe inside the history: replace one path argument
        if rng.random() < p_reserved:
            idx = {"copyinto": [1, 2, 3, 4], "copyinton": [1, 2, 3, 4], "move": [1, 2, 3], "copy": [1, 2, 3],
                   "copyn": [1, 2, 3],
                   "attach": [1], "detach": [1]}.get(op[0], [1, 2])
            i = rng.choice(idx)
            if op[0] in ("copyinto", "copyinton") and i == 4:
                op[4] = [rng.choice(RES_SEGS + ["x/metador_y"])]
            else:
                op[i] = _reserved_path(rng, mir)
        ops.append(op)
    return ops


PKG: Dict[str, str] = {}


def load_pkg_names(_=None) -> Dict[str, str]:
    """Provider package ep-name of every schema in SCHEMAS (from the live plugin system)."""
    from metador_core.plugin.types import to_ep_name
    from metador_core.plugins import schemas
    out = {}
    for ep, (name, _kw) in SCHEMAS.items():
        cls = schemas.get(name)
        info = schemas.provider(cls.Plugin.ref())
        out[ep] = str(to_ep_name(str(info.name), tuple(info.version)))
    return out


# ---------------------------------------------------------------------------- implementation side

def _is_ds(node) -> bool:
    import h5py
    return hasattr(node, "ndim") or isinstance(node, h5py.Dataset)


def dump_tree(root) -> Dict[str, list]:
    """name -> [kind, value?, attrs] through whatever interface `root` offers."""
    out: Dict[str, list] = {}

    def rec(name, node):
        at = sorted([k, enc(node.attrs[k])] for k in node.attrs.keys())
        if _is_ds(node):
            out[name] = ["D", enc(node[()]), at]
        else:
            out[name] = ["G", at]

    rec("/", root)
    pairs = []
    root.visititems(lambda n, o: pairs.append((n, o)) or None)
    for n, o in pairs:
        rec("/" + n.strip("/"), o)
    return out


def classify(e: BaseException) -> str:
    if isinstance(e, vlib.CaseTimeout):
        return "timeout"
    if isinstance(e, ValueError) and GUARD_MSG in str(e):
        return "guard"
    return "fail"


def apply_container(m, op):
    from metador_core.plugins import schemas
    k = op[0]
    if k in COMPOUND:
        return run_compound(lambda p: m[p], op, container=True)
    if k == "attach":
        name, kw = SCHEMAS[op[2]]
        node = m[op[1]]
        node.meta[name] = schemas.get(name)(**kw)
        return
    if k == "detach":
        node = m[op[1]]
        del node.meta[SCHEMAS[op[2]][0]]
        return
    g = m[op[1]]
    _apply_group(g, lambda p: m[p], op, container=True)


def _apply_group(g, lookup, op, container: bool):
    k = op[0]
    if k == "mkgrp":
        g.create_group(op[2])
    elif k == "reqgrp":
        g.require_group(op[2])
    elif k == "mkds":
        g.create_dataset(op[2], data=dec(op[3]))
    elif k == "reqds":
        g.require_dataset(op[2], shape=(), dtype="int64", data=dec(op[3]))
    elif k == "set":
        g[op[2]] = dec(op[3])
    elif k == "del":
        del g[op[2]]
    elif k == "move":
        g.move(op[2], op[3])
    elif k in ("copy", "copyn", "copyinto", "copyinton") and not container:
        # reference semantics with full paths from the root (plain HDF5 checks an absolute copy
        # destination relative to the calling group, which is not what the operation means)
        if not hasattr(g, "keys") or _is_ds(g):
            raise TypeError("receiver is not a group")
        cw = norm(op[1])
        if k in ("copyinto", "copyinton"):
            dg = lookup(op[3])
            if not hasattr(dg, "keys") or _is_ds(dg):
                raise TypeError("destination is not a group")
        s_abs = resolve(cw, op[2])
        if not s_abs:
            raise KeyError("root as source")
        root = lookup("/")
        root[absname(s_abs)]
        if k in ("copy", "copyn"):
            d_abs = resolve(cw, op[3])
        else:
            d_abs = norm(op[3]) + (norm(op[4][0]) if op[4] else s_abs[-1:])
        root.copy(absname(s_abs), absname(d_abs))
    elif k in ("copy", "copyn"):
        src = g[op[2]] if k == "copyn" else op[2]
        g.copy(src, op[3], without_meta=bool(op[4]))
    elif k in ("copyinto", "copyinton"):
        dg = lookup(op[3])
        if not hasattr(dg, "keys") or _is_ds(dg):
            raise TypeError("destination is not a group")
        kw = {"name": op[4][0]} if op[4] else {}
        kw["without_meta"] = bool(op[5])
        src = g[op[2]] if k == "copyinton" else op[2]
        g.copy(src, dg, **kw)
    elif k == "aset":
        g[op[2]].attrs[op[3]] = dec(op[4])
    elif k == "adel":
        del g[op[2]].attrs[op[3]]
    elif k == "get":
        g[op[2]]
    else:
        raise ValueError(k)


def run_compound(lookup, op, container: bool) -> Dict[str, Any]:
    """Run the loop with the *lazy* iteration of the group object; returns visited names and the
    result class of every body execution."""
    g = lookup(op[1])
    if not hasattr(g, "keys") or _is_ds(g):
        raise TypeError("not a group")
    mode = op[-1]
    if mode == "iter":
        it = ((k, None) for k in g)
    elif mode == "keys":
        it = ((k, None) for k in g.keys())
    else:
        it = g.items()
    visited, sub = [], []
    for k, v in it:
        visited.append(k)
        try:
            if op[0] == "each_del":
                del g[k]
            elif op[0] == "each_move":
                g.move(k, k + op[2])
            elif container:
                node = v if v is not None else g[k]
                del node.meta[SCHEMAS[op[2]][0]]
            sub.append("ok")
        except (vlib.CaseTimeout, ProbeTimeout):
            raise
        except Exception as e:  # noqa: BLE001
            sub.append(classify(e))
    return {"visited": visited, "sub": sub}


def apply_plain(f, op):
    if op[0] in COMPOUND:
        return run_compound(lambda p: f[p], op, container=False)
    g = f[op[1]]
    _apply_group(g, lambda p: f[p], op, container=False)


def observe_listings(m, view: Dict[str, list], only=None) -> Dict[str, Any]:
    """Everything the wrapper lists, at every user group (or at the groups in `only`)."""
    out = {}
    for name, ent in view.items():
        if ent[0] != "G" or reserved(name) or (only is not None and name not in only):
            continue
        g = m[name]
        o: Dict[str, Any] = {}
        o["keys"] = sorted(g.keys())
        o["iter"] = sorted(iter(g))
        o["len"] = len(g)
        o["items"] = sorted([k, "D" if _is_ds(v) else "G", v.name] for k, v in g.items())
        o["values"] = sorted(v.name for v in g.values())
        vis: List[str] = []
        g.visit(lambda n: vis.append(n) or None)
        o["visit"] = sorted(vis)
        vi: List[list] = []
        g.visititems(lambda n, nd: vi.append([n, nd.name]) or None)
        o["visititems"] = sorted(vi)
        try:
            o["reversed"] = sorted(reversed(g))
        except Exception:  # noqa: BLE001  (IH5 groups are not reversible)
            o["reversed"] = None
        vis = [n for n in vis if not reserved(n)]     # leaks are reported from o["visit"]
        o["in"] = sorted(n for n in vis if n in g)
        sub = [n for n in vis if view.get("/" + (name.strip("/") + "/" + n).strip("/"), ["D"])[0] == "G"]
        absent = [n + "/zz" for n in sub[:3]] + ["zz", "/zz"]
        o["in_absent"] = [n for n in absent if n in g]
        if vis:
            o["in_abs"] = ("/" + (name.strip("/") + "/" + vis[0]).strip("/")) in g
        out[name] = o
    return out


def listing_names(o: Dict[str, Any]) -> List[Tuple[str, str]]:
    """(method, name) for every name a listing shows."""
    out = []
    for meth in ("keys", "iter", "values", "visit", "reversed"):
        for n in (o.get(meth) or []):
            out.append((meth if meth != "reversed" else "__reversed__", n))
    for it in o["items"]:
        out += [("items", it[0]), ("items", it[2])]
    for it in o["visititems"]:
        out += [("visititems", it[0]), ("visititems", it[1])]
    return out


def open_container(drv: str, d):
    import h5py
    from metador_core.container import MetadorContainer
    from metador_core.ih5.container import IH5Record
    raw = h5py.File(d / "cont.h5", "w") if drv == "h5" else IH5Record(d / "rec", "w")
    return raw, MetadorContainer(raw)


# ---- protocol enumeration

class ProbeTimeout(Exception):
    pass


_LIMITS: List[Tuple[float, type]] = []


def _on_tick(signum, frame):
    now = time.time()
    for deadline, exc in _LIMITS:          # outermost first
        if now >= deadline:
            raise exc("time limit exceeded")


@contextlib.contextmanager
def limit(seconds: float, exc: type):
    """Nestable time limit.  A repeating timer is used because an exception raised from a signal
    handler is swallowed when it lands in a weakref callback or __del__ (IH5 loops create many)."""
    _LIMITS.append((time.time() + seconds, exc))
    old = signal.signal(signal.SIGALRM, _on_tick) if len(_LIMITS) == 1 else None
    signal.setitimer(signal.ITIMER_REAL, 0.25, 0.25)
    try:
        yield
    finally:
        _LIMITS.pop()
        if not _LIMITS:
            signal.setitimer(signal.ITIMER_REAL, 0)
            if old is not None:
                signal.signal(signal.SIGALRM, old)


OP_METHOD = {"mkgrp": "create_group", "reqgrp": "require_group", "mkds": "create_dataset",
             "reqds": "require_dataset", "set": "__setitem__", "del": "__delitem__", "copyinto": "copy", "copyn": "copy", "copyinton": "copy",
             "get": "__getitem__", "attach": "__getitem__", "detach": "__getitem__", "aset": "__getitem__",
             "adel": "__getitem__"}

PROBE_CALL_LIMIT = 30

LIFECYCLE = {
    # reviewed: object life cycle / attribute protocol / pickling -- take no node path
    "__init__", "__new__", "__class__", "__del__", "close", "flush", "__enter__", "__exit__",
    "__init_subclass__", "__subclasshook__", "__reduce__", "__reduce_ex__", "__getstate__",
    "__setattr__", "__delattr__", "__self_setattr__", "__getattribute__", "__getattr__",
    "__copy__", "__deepcopy__", "__sizeof__", "__format__", "__mro_entries__", "restrict",
    "__aenter__", "__aexit__", "__await__", "__aiter__", "__anext__",
}
PATH_METHODS = {
    # reviewed: take one or two node paths
    "get": 1, "__getitem__": 1, "__contains__": 1, "__delitem__": 1, "__setitem__": 1,
    "create_group": 1, "require_group": 1, "create_dataset": 1, "require_dataset": 1,
    "move": 2, "copy": 2,
}
LISTING = {"keys", "values", "items", "__iter__", "__len__", "__reversed__", "visit", "visititems"}
REPR_LIKE = {"__repr__", "__str__", "__doc__", "__dict__", "__annotations__", "__module__",
             "__wrapped__", "__weakref__", "__slots__", "__qualname__", "__name__",
             "__abstractmethods__", "__orig_bases__", "__parameters__", "__match_args__"}


def all_names(m, g) -> List[str]:
    import h5py
    import wrapt
    from metador_core.container import MetadorContainer
    from metador_core.container.wrappers import MetadorGroup
    from metador_core.ih5.container import IH5Record
    from metador_core.ih5.overlay import IH5Group
    names = set()
    for c in (MetadorGroup, MetadorContainer, h5py.Group, h5py.File, IH5Group, IH5Record, wrapt.ObjectProxy):
        names |= set(dir(c))
    names |= set(dir(m)) | set(dir(g)) | set(dir(m.__wrapped__)) | set(dir(g.__wrapped__))
    return sorted(n for n in names if not (n.startswith("_") and not n.startswith("__")))


def scan(x, depth: int = 3, budget: Optional[List[int]] = None) -> List[str]:
    """Reserved names visible in a returned value (strings, node names, containers thereof)."""
    import numpy as np
    budget = budget if budget is not None else [400]
    if budget[0] <= 0 or depth < 0 or x is None or isinstance(x, (bool, int, float, np.generic, np.ndarray)):
        return []
    budget[0] -= 1
    if isinstance(x, bytes):
        try:
            x = x.decode()
        except Exception:  # noqa: BLE001
            return []
    if isinstance(x, str):
        return [x] if len(x) < 300 and reserved(x) else []
    out: List[str] = []
    nm = None
    try:
        nm = getattr(x, "name", None)
    except Exception:  # noqa: BLE001
        pass
    if isinstance(nm, str):
        return [nm] if reserved(nm) else []
    if isinstance(x, dict):
        x = list(x.items())
    if hasattr(x, "__iter__") and not _is_ds(x):
        try:
            for i, y in enumerate(x):
                if i > 60:
                    break
                out += scan(y, depth - 1, budget)
        except Exception:  # noqa: BLE001
            pass
    return out


def reserved_forms(view: Dict[str, list], raw: Dict[str, list]) -> List[str]:
    """Reserved paths: relative, absolute, nested; plain names and existing bookkeeping."""
    forms = ["metador_x", "./metador_x", "/metador_x", "metador_meta_", "/metador_container",
             "/metador_container/links", "metador_container/version", "zz/metador_y/q"]
    grp = sorted(n for n, e in view.items() if e[0] == "G" and n != "/")
    if grp:
        forms += [grp[0].lstrip("/") + "/metador_meta_b", grp[0] + "/metador_meta_", grp[-1] + "//metador_x"]
    internal = sorted(n for n in raw if reserved(n) and not n.startswith("/metador_container"))
    forms += internal[:2] + [n.lstrip("/") for n in internal[2:3]]
    seen, out = set(), []
    for f in forms:
        if f not in seen:
            seen.add(f)
            out.append(f)
    return out


def probe_protocol(env, only: Optional[str] = None) -> Tuple[List[dict], Dict[str, Any]]:
    """Oracle (a) on the live container `env` = dict(m, raw, view, rawdump, reopen)."""
    m = env["m"]
    view, raw0 = env["view"], env["rawdump"]
    viol: List[dict] = []
    stats = {"names": 0, "refused": 0, "probed_calls": 0, "unreviewed": []}
    groups = sorted(n for n, e in view.items() if e[0] == "G" and n != "/" and not reserved(n))
    nodes = sorted(n for n in view if n != "/" and not reserved(n))
    objs = [("container", "/")] + ([("group", groups[0])] if groups else [])
    forms = reserved_forms(view, raw0)
    u_exist = nodes[0] if nodes else None
    u_new = "/zz_new"

    def fresh_obj(where):
        return env["m"] if where == "/" and True else env["m"][where]

    def check_after(what: dict, result, raised: Optional[BaseException], must_raise: bool, echo=()):
        stats["probed_calls"] += 1
        try:
            now = dump_tree(env["m"].__wrapped__)
        except Exception as e:  # noqa: BLE001  (closed by the probe: reopen, not a finding)
            env["reopen"]()
            now = dump_tree(env["m"].__wrapped__)
            what = dict(what, note=f"container unusable after call: {type(e).__name__}")
        if now != raw0:
            diff = sorted(set(now) ^ set(raw0)) or sorted(k for k in now if now[k] != raw0.get(k))
            viol.append(dict(what, kind="reserved-effect", changed=diff[:6],
                             raised=type(raised).__name__ if raised else None))
            env["rebuild"]()
            return False
        if raised is None:
            leaked = [x for x in scan(result) if x not in echo]
            if leaked:
                viol.append(dict(what, kind="reserved-leak", leaked=leaked[:5]))
            elif must_raise:
                viol.append(dict(what, kind="reserved-accepted", result=repr(result)[:80]))
        return True

    for label, where in objs:
        names = all_names(env["m"], fresh_obj(where))
        for name in names:
            if only and name != only:
                continue
            stats["names"] += 1
            obj = fresh_obj(where)
            try:
                attr = getattr(obj, name)
            except AttributeError:
                stats["refused"] += 1
                continue
            except Exception:  # noqa: BLE001
                stats["refused"] += 1
                continue
            if name in REPR_LIKE or name in LIFECYCLE:
                continue
            base = {"object": label, "at": where, "method": name}
            if not callable(attr):
                leaked = scan(attr, 2)
                if leaked:
                    viol.append(dict(base, kind="reserved-leak", shape="value", leaked=leaked[:5]))
                continue
            reviewed = name in PATH_METHODS or name in LISTING
            if not reviewed and not name.startswith("__") and name not in stats["unreviewed"]:
                stats["unreviewed"].append(name)
            # listings: call without path
            if name in LISTING:
                acc: List[Any] = []
                try:
                    if name in ("visit",):
                        attr(lambda n: acc.append(n) or None)
                    elif name == "visititems":
                        attr(lambda n, nd: acc.append((n, nd)) or None)
                    else:
                        r = attr()
                        acc = [r] if isinstance(r, int) else list(r)
                except Exception:  # noqa: BLE001
                    acc = []
                leaked = scan(acc)
                if leaked:
                    viol.append(dict(base, kind="listing-leak", leaked=leaked[:5]))
                continue
            # calls with reserved paths
            node = None
            grpnode = None
            try:
                node = env["m"][u_exist] if u_exist else None
                grpnode = env["m"]["/"]      # never inside the source (IH5 would not terminate)
            except Exception:  # noqa: BLE001
                pass
            for R in ((forms if label == "container" else forms[:3] + forms[5:6] + forms[-2:]) if reviewed
                      else forms[:1] + forms[5:6] + forms[-1:]):
                shapes: List[Tuple[str, tuple, dict]] = [("(R)", (R,), {})]
                if name in ("__setitem__", "create_dataset") or not reviewed:
                    shapes.append(("(R,value)", (R, 5), {}))
                if name == "create_dataset":
                    shapes.append(("(R,data=)", (R,), {"data": 5}))
                if name == "require_dataset":
                    shapes.append(("(R,shape,dtype)", (R,), {"shape": (), "dtype": "int64"}))
                if name == "__setitem__" and node is not None:
                    shapes.append(("(R,node)", (R, node), {}))
                if not reviewed and not name.startswith("__"):
                    # unknown public method: put R into every positional parameter position
                    import inspect
                    try:
                        ps = [q for q in inspect.signature(attr).parameters.values()
                              if q.kind in (q.POSITIONAL_ONLY, q.POSITIONAL_OR_KEYWORD)]
                    except (TypeError, ValueError):
                        ps = []
                    for i in range(min(len(ps), 4)):
                        args = tuple(R if j == i else (u_exist or u_new) for j in range(len(ps)))
                        shapes.append((f"(R at position {i} of {len(ps)})", args, {}))
                if PATH_METHODS.get(name, 2) == 2:
                    shapes += [("(R,U_new)", (R, u_new), {}), ("(R,R)", (R, R + "_2"), {})]
                    if u_exist:
                        shapes += [("(U,R)", (u_exist, R), {}),
                                   ("(U,group,name=R)", (u_exist, grpnode), {"name": R}),
                                   ("(node,R)", (node, R), {}),
                                   ("(node,group,name=R)", (node, grpnode), {"name": R})]
                        if name == "copy":
                            shapes += [("(U,R,without_meta)", (u_exist, R), {"without_meta": True})]
                for sname, args, kw in shapes:
                    obj = fresh_obj(where)
                    try:
                        f = getattr(obj, name)
                    except Exception:  # noqa: BLE001
                        break
                    res, exc = None, None
                    what = dict(base, shape=sname, path=R)
                    try:
                        with limit(PROBE_CALL_LIMIT, ProbeTimeout):
                            res = f(*args, **kw)
                    except ProbeTimeout:
                        # not refused: the call went on working with the reserved path
                        viol.append(dict(what, kind="reserved-hang"))
                        stats["probed_calls"] += 1
                        env["rebuild"]()
                        view, raw0 = env["view"], env["rawdump"]
                        continue
                    except BaseException as e:  # noqa: BLE001
                        if isinstance(e, (KeyboardInterrupt, vlib.CaseTimeout)):
                            raise
                        exc = e
                    echo = [a for a in list(args) + list(kw.values()) if isinstance(a, str)]
                    if not check_after(what, res, exc, must_raise=name in PATH_METHODS, echo=echo):
                        # state was rebuilt: refresh handles
                        view, raw0 = env["view"], env["rawdump"]
                        try:
                            node = env["m"][u_exist] if u_exist else None
                            grpnode = env["m"]["/"]
                        except Exception:  # noqa: BLE001
                            pass
    return viol, stats


# ---- one history on one driver

def run_history(task) -> Dict[str, Any]:
    """task = dict(driver, ops, probe_at=[step indices], only=method or None, light=bool)."""
    drv, ops = task["driver"], task["ops"]
    probe_at = set(task.get("probe_at") or [])
    out: Dict[str, Any] = {"steps": [], "viol": [], "stats": None, "raw_final": None, "error": None}
    import h5py
    t_start = time.time()
    with vlib.workdir("c08") as d:
        env: Dict[str, Any] = {}

        def build(upto: int):
            """(Re-)create the container and replay ops[:upto] silently."""
            if env.get("raw") is not None:
                try:
                    env["raw"].close()
                except Exception:  # noqa: BLE001
                    pass
            sub = d / f"b{env.get('gen', 0)}"
            env["gen"] = env.get("gen", 0) + 1
            sub.mkdir()
            env["raw"], env["m"] = open_container(drv, sub)
            env["dir"] = sub
            for op in ops[:upto]:
                try:
                    apply_container(env["m"], op)
                except Exception:  # noqa: BLE001
                    pass
            env["rawdump"] = dump_tree(env["raw"])
            env["view"] = dump_tree(env["m"])

        def reopen():
            from metador_core.container import MetadorContainer
            from metador_core.ih5.container import IH5Record
            try:
                env["raw"].close()
            except Exception:  # noqa: BLE001
                pass
            env["raw"] = (h5py.File(env["dir"] / "cont.h5", "r+") if drv == "h5"
                          else IH5Record(env["dir"] / "rec", "r+"))
            env["m"] = MetadorContainer(env["raw"])

        try:
            with limit(task.get("limit", 300), vlib.CaseTimeout):
                build(0)
                plain = h5py.File(d / "plain.h5", "w")
                env["reopen"] = reopen
                for i, op in enumerate(ops):
                    before = env["rawdump"]
                    cls, err, info = "ok", None, None
                    try:
                        info = apply_container(env["m"], op)
                    except vlib.CaseTimeout:
                        raise
                    except Exception as e:  # noqa: BLE001
                        cls, err = classify(e), f"{type(e).__name__}: {e}"[:160]
                    raw_now = dump_tree(env["raw"])
                    view = dump_tree(env["m"])
                    # listings: everywhere at the last step (and in thorough runs), otherwise at the
                    # root, the groups the operation names and their parents
                    only = None
                    if task.get("light") and i != len(ops) - 1:
                        only = {"/"}
                        for ps in op_paths(op):
                            if not reserved(ps):
                                segs = resolve(norm(op[1]) if op[0] not in ("attach", "detach") else [], ps)
                                only |= {absname(segs), absname(segs[:-1])}
                    lst = observe_listings(env["m"], view, only)
                    env["rawdump"], env["view"] = raw_now, view
                    step = {"cls": cls, "err": err, "view": view, "listings": lst,
                            "raw_changed": raw_now != before}
                    if info:
                        step.update(info)
                    # oracle: reserved path => refused, raw unchanged
                    if any(reserved(p) for p in op_paths(op)):
                        if cls == "ok" or raw_now != before:
                            diff = sorted(set(raw_now) ^ set(before))
                            out["viol"].append({"kind": "reserved-effect" if raw_now != before else "reserved-accepted",
                                                "method": OP_METHOD.get(op[0], op[0]), "shape": "history-op", "step": i,
                                                "op": op, "cls": cls, "changed": diff[:6]})
                    # oracle (b): listings vs raw dump
                    for n in view:
                        if reserved(n):
                            out["viol"].append({"kind": "listing-leak", "method": "visititems", "step": i,
                                                "at": "/", "leaked": [n]})
                    for gname, o in lst.items():
                        for meth, n in listing_names(o):
                            if reserved(n):
                                out["viol"].append({"kind": "listing-leak", "method": meth, "step": i,
                                                    "at": gname, "leaked": [n]})
                        pre = gname.rstrip("/") + "/"
                        kids = sorted(n[len(pre):] for n in raw_now
                                      if n != "/" and n.startswith(pre) and "/" not in n[len(pre):]
                                      and not reserved(n[len(pre):]))
                        if o["keys"] != kids or o["len"] != len(kids):
                            out["viol"].append({"kind": "listing-wrong", "method": "keys/len", "step": i,
                                                "at": gname, "got": [o["keys"], o["len"]], "want": kids})
                    # oracle (c): plain file in lock-step
                    if is_user_data_op(op):
                        pcls, pinfo = "ok", None
                        try:
                            pinfo = apply_plain(plain, op)
                        except Exception:  # noqa: BLE001
                            pcls = "fail"
                        step["plain_cls"] = pcls
                        if pinfo and info and pinfo["visited"] != info["visited"] and not env.get("plain_off"):
                            out["viol"].append({"kind": "iteration-cut", "method": {"iter": "__iter__"}.get(op[-1], op[-1]),
                                                "step": i, "op": op, "visited": info["visited"],
                                                "plain_visited": pinfo["visited"]})
                    pview = dump_tree(plain) if not env.get("plain_off") else view
                    if pview != view:
                        env["plain_off"] = True
                        diff = sorted(k for k in set(pview) | set(view) if pview.get(k) != view.get(k))
                        out["viol"].append({"kind": "plain-mismatch", "method": op[0], "step": i, "op": op,
                                            "differs_at": diff[:6]})
                        step["plain_diff"] = diff[:6]
                    out["steps"].append(step)
                    if i in probe_at:
                        env["rebuild"] = lambda upto=i + 1: build(upto)
                        v, st = probe_protocol(env, task.get("only"))
                        for x in v:
                            x["step"] = i
                        out["viol"] += v
                        if out["stats"] is None:
                            out["stats"] = st
                        else:
                            for k in ("names", "refused", "probed_calls"):
                                out["stats"][k] += st[k]
                            out["stats"]["unreviewed"] = sorted(set(out["stats"]["unreviewed"]) | set(st["unreviewed"]))
                        if v:
                            build(i + 1)
                out["raw_final"] = dump_tree(env["raw"])
                plain.close()
        except vlib.CaseTimeout:
            out["error"] = "timeout"
        except Exception as e:  # noqa: BLE001
            import traceback
            out["error"] = f"{type(e).__name__}: {e}"[:300] + " | " + traceback.format_exc()[-600:]
        finally:
            try:
                env["raw"].close()
            except Exception:  # noqa: BLE001
                pass
    out["secs"] = round(time.time() - t_start, 1)
    return out


# ---------------------------------------------------------------------------- comparison with the model

_UUID = re.compile(r"[0-9a-f]{8}-[0-9a-f]{4}-[0-9a-f]{4}-[0-9a-f]{4}-[0-9a-f]{12}")
_MUID = re.compile(r"(?<![A-Za-z0-9])u[0-9]+$")


def canon_raw_names_impl(raw: Dict[str, list]) -> List[str]:
    return sorted(_UUID.sub("U", n) + ":" + e[0] for n, e in raw.items())


def canon_raw_names_model(tree: list) -> List[str]:
    out = []
    for e in tree:
        segs = e[0].split("/")
        segs[-1] = re.sub(r"=u[0-9]+$", "=U", segs[-1])
        if len(segs) >= 2 and segs[1] == "metador_container" and len(segs) == 5 and segs[2] == "links":
            segs[-1] = "U"
        out.append("/".join(segs) + ":" + e[1])
    return sorted(out)


def model_view(tree: list) -> Dict[str, list]:
    out = {}
    for e in tree:
        if e[1] == "G":
            out[e[0]] = ["G", sorted([list(kv) for kv in e[2]])]
        else:
            out[e[0]] = ["D", e[2], sorted([list(kv) for kv in e[3]])]
    return out


def compare_with_model(ops, mres, got, spans) -> List[dict]:
    """Disagreements between the model's prediction and one implementation run.  spans[i] =
    (a, b, names): operation i of the history is the model steps a..b-1 (a compound operation is
    the sequence of its body executions over `names`, then the lookup of the group)."""
    dis: List[dict] = []
    msteps, mraw, mplain = mres
    for i, ((a, b, names), st) in enumerate(zip(spans, got["steps"])):
        ms = msteps[b - 1]
        mcls, mview, mlst = ms[0], model_view(ms[1]), ms[2]
        ok = (mcls == st["cls"]) or (mcls == "late" and st["cls"] in ("ok", "fail"))
        if names is not None and st["cls"] == "ok":
            msub = [msteps[j][0] for j in range(a, b - 1)]
            if st.get("visited") != names:
                dis.append({"step": i, "op": ops[i], "what": "names visited by the loop", "model": names, "impl": st.get("visited")})
            elif any(not (x == y or (x == "late" and y in ("ok", "fail"))) for x, y in zip(msub, st.get("sub") or [])):
                dis.append({"step": i, "op": ops[i], "what": "result classes of the loop body", "model": msub, "impl": st.get("sub")})
        if not ok:
            dis.append({"step": i, "op": ops[i], "what": "result class", "model": mcls, "impl": st["cls"], "err": st["err"]})
        if mcls in ("guard", "fail") and st["raw_changed"] and names is None:
            dis.append({"step": i, "op": ops[i], "what": "refused operation changed the raw tree", "model": mcls})
        if mview != st["view"]:
            d = sorted(k for k in set(mview) | set(st["view"]) if mview.get(k) != st["view"].get(k))
            dis.append({"step": i, "op": ops[i], "what": "user view", "differs_at": d[:6]})
            break
        for gname, keys, visit, rev in mlst:
            o = st["listings"].get(gname)
            if o is None:
                if i == len(spans) - 1:
                    dis.append({"step": i, "what": "group missing in impl listings", "group": gname})
                continue
            want_vi = sorted([n, (gname.rstrip("/") + "/" + n)] for n in visit)
            exp = {"keys": sorted(keys), "iter": sorted(keys), "len": len(keys), "visit": sorted(visit),
                   "values": sorted(gname.rstrip("/") + "/" + k for k in keys),
                   "visititems": want_vi, "in": sorted(visit), "in_absent": []}
            for meth, want in exp.items():
                if o[meth] != want:
                    dis.append({"step": i, "op": ops[i], "what": f"listing {meth} at {gname}", "model": want, "impl": o[meth]})
            if sorted(k for k, _, _ in o["items"]) != sorted(keys):
                dis.append({"step": i, "what": f"listing items at {gname}", "model": sorted(keys), "impl": o["items"]})
            if o["reversed"] is not None and o["reversed"] != sorted(rev):
                dis.append({"step": i, "op": ops[i], "what": f"listing reversed at {gname}", "model": sorted(rev), "impl": o["reversed"]})
            if visit and o.get("in_abs") is not True:
                dis.append({"step": i, "what": f"absolute membership at {gname}", "impl": o.get("in_abs")})
        if len(dis) > 8:
            break
    if not dis and got["raw_final"] is not None and len(got["steps"]) == len(spans):
        a, b = canon_raw_names_model(mraw), canon_raw_names_impl(got["raw_final"])
        if a != b:
            d = sorted(set(a) ^ set(b))
            dis.append({"step": len(ops) - 1, "what": "final raw tree (names modulo UUIDs)", "differs_at": d[:8]})
    return dis


def run_model_expanding(hists: List[List[list]]):
    """Run the model on histories with compound operations: a compound operation is expanded with
    the names the *model* lists at the group when the loop starts, so the model is run in rounds
    (one more compound operation of every history resolved per round)."""
    n = len(hists)
    exp: List[List[list]] = [[] for _ in range(n)]
    spans: List[List[tuple]] = [[] for _ in range(n)]
    pos = [0] * n
    res: List[Any] = [None] * n
    dirty = [True] * n
    rounds = 0
    while True:
        waiting = []
        for h in range(n):
            ops = hists[h]
            while pos[h] < len(ops) and ops[pos[h]][0] not in COMPOUND:
                spans[h].append((len(exp[h]), len(exp[h]) + 1, None))
                exp[h].append(to_model_op(ops[pos[h]]))
                pos[h] += 1
                dirty[h] = True
            if pos[h] < len(ops):
                waiting.append(h)
        idx = [h for h in range(n) if dirty[h] and exp[h]]
        out = vlib.run_model("c08", [exp[h] for h in idx]) if idx else []
        for h, r in zip(idx, out):
            res[h] = r
            dirty[h] = False
        rounds += 1
        if not waiting:
            break
        for h in waiting:
            op = hists[h][pos[h]]
            keys = None
            if not reserved(op[1]):
                want = absname(norm(op[1]))
                if exp[h]:
                    for gname, ks, _vis, _rev in res[h][0][-1][2]:
                        if gname == want:
                            keys = sorted(ks)
                elif want == "/":
                    keys = []
            body = expand_compound(op, keys)
            spans[h].append((len(exp[h]), len(exp[h]) + len(body), keys))
            exp[h] += body
            pos[h] += 1
            dirty[h] = True
    return exp, spans, res, rounds


# ---------------------------------------------------------------------------- main

def w_run(task):
    return run_history(task)


def sig_of(v: dict) -> dict:
    return {"kind": v["kind"], "method": v.get("method") if v["kind"] != "plain-mismatch" else None}


def _same_finding(v, target) -> bool:
    return sig_of(v) == sig_of(target)


def w_shrink(job) -> list:
    """ddmin over the history for one finding (probes restricted to its method)."""
    task, target = job
    probe = "object" in target
    ops = list(task["ops"][: target["step"] + 1])

    def fails(cand):
        t = {"driver": task["driver"], "ops": cand, "limit": 120,
             "probe_at": [len(cand) - 1] if probe else [], "only": target.get("method") if probe else None}
        r = run_history(t)
        return any(_same_finding(v, target) for v in r["viol"])
    try:
        if not ops or not fails(ops):
            return [False, ops]
        return [True, vlib.ddmin(ops, fails, budget=24)]
    except Exception:  # noqa: BLE001
        return [False, ops]


def run(ctx: vlib.Ctx):
    t_run = time.time()
    proof = ctx.check_proofs()
    vlib.log(f"c08: proofs {time.time() - t_run:.1f}s")
    cov = ctx.coverage
    cov["trusted_base"] = vlib.TRUSTED_COMMON + [
        "modelled, not verified: the h5py/HDF5 semantics of the group protocol on a plain tree (u_apply: intermediate group "
        "creation, refusal classes, copy/move) and Python's str.split/startswith/find (Toc/Layout.v), tied by lock-step "
        "comparison with h5py.File and IH5Record through MetadorContainer; the TOC bookkeeping (schemas/packages/links "
        "clean-up) is compared only as final raw name sets modulo UUIDs; exception class 'guard' is recognised by the "
        "ValueError message of _guard_path",
        "not exhibited: MOVE into the source's own subtree (copies below the source itself are generated), copy/move of '/', hard/soft links, ACL flags (C15), deliberate "
        "bypasses (__wrapped__, private attributes, StoredMetadata.node handed out by meta.values()), concurrent access",
    ]
    global PKG
    PKG = vlib.pmap(load_pkg_names, [None, None], procs=2)[0]

    nh = ctx.budget(28, 500)
    nops = ctx.budget(16, 24)
    hists = [gen_history(ctx.rng, ctx.rng.randint(6, nops)) for _ in range(nh)]
    # fixed pattern histories: all reserved forms in every position of every operation
    hists += pattern_histories() + compound_histories()
    nprobe = {"h5": ctx.budget(4, 20), "ih5": ctx.budget(1, 8)}
    tasks = []
    for hi, ops in enumerate(hists):
        for drv in ("h5", "ih5"):
            probe_at = []
            if hi < nprobe[drv]:
                probe_at = [len(ops) - 1] if ctx.quick else sorted({len(ops) - 1, ctx.rng.randrange(len(ops))})
            tasks.append({"driver": drv, "ops": ops, "probe_at": probe_at, "hist": hi,
                          "limit": 600 if probe_at else 240, "light": ctx.quick})
    t0 = time.time()
    mhists, spans, mres, rounds = run_model_expanding(hists)
    t1 = time.time()
    results = vlib.pmap(w_run, tasks)
    t2 = time.time()
    xc = vlib.coq_crosscheck("c08", mhists, mres, "c08", max_cases=ctx.budget(6, 20))
    vlib.log(f"c08: model {t1 - t0:.1f}s, implementation {t2 - t1:.1f}s, crosscheck {time.time() - t2:.1f}s; slowest tasks "
             + str(sorted(((r.get("secs"), t["driver"], len(t["ops"]), len(t["probe_at"])) for t, r in zip(tasks, results)), reverse=True)[:8]))

    disagreements: List[dict] = []
    findings: Dict[str, Tuple[dict, dict, tuple]] = {}
    errors = []
    evals = 0
    stats = {"names": 0, "refused": 0, "probed_calls": 0, "unreviewed": set()}
    res_ops = 0
    for task, got in zip(tasks, results):
        if got["error"]:
            errors.append({"driver": task["driver"], "hist": task["hist"], "error": got["error"]})
            continue
        evals += len(got["steps"])
        res_ops += sum(1 for op in task["ops"] if any(reserved(p) for p in op_paths(op)))
        if got["stats"]:
            for k in ("names", "refused", "probed_calls"):
                stats[k] += got["stats"][k]
            stats["unreviewed"] |= set(got["stats"]["unreviewed"])
        for v in got["viol"]:
            key = vlib.signature(sig_of(v))
            rank = ("object" in v, task["driver"] != "h5", v["step"])
            if key not in findings or rank < findings[key][2]:
                findings[key] = (task, v, rank)
        # the model's own plain-tree run must equal its final user view (instance of C08_user_view)
        m = mres[task["hist"]]
        if model_view(m[0][-1][1]) != model_view(m[2]):
            disagreements.append({"what": "model: user_view (run ops) differs from run_u (user_ops ops)", "hist": task["hist"]})
        dis = compare_with_model(task["ops"], m, got, spans[task["hist"]])
        for x in dis[:3]:
            disagreements.append(dict(x, driver=task["driver"], hist=task["hist"]))

    # timeouts: re-run alone before believing them
    for e in list(errors):
        if e["error"] == "timeout":
            t = next(t for t in tasks if t["hist"] == e["hist"] and t["driver"] == e["driver"])
            again = vlib.pmap(w_run, [dict(t, limit=600)], procs=2)[0]
            if not again["error"]:
                errors.remove(e)

    vlib.log(f"c08: comparison done at {time.time() - t_run:.1f}s")
    flist = [(task, v) for _k, (task, v, _r) in sorted(findings.items())]
    smalls = vlib.pmap(w_shrink, flist)
    for (task, v), (reproduced, small) in zip(flist, smalls):
        if v["kind"] == "reserved-hang" and not reproduced:
            ctx.notes.append(f"probe call timed out once but not when re-run alone: {v}")
            continue
        rep = {"kind": v["kind"], "driver": task["driver"], "ops": small, "finding": v, "probe": "object" in v}
        ctx.violation(describe(v, task["driver"]), rep, sig_obj=sig_of(v))

    cov["evaluations"] = evals + stats["probed_calls"]
    distinct = len({vlib.signature([t["driver"], t["ops"][:i + 1]]) for t in tasks for i in range(len(t["ops"]))})
    cov["distinct_nontrivial"] = distinct
    cov["rule"] = ("histories of 6..N container operations (data ops on the container and on sub-groups with relative and "
                   "absolute paths, attach/detach of two installed schemas, ~12% operations with a reserved path "
                   "(relative, absolute, nested, dotted, double-slash, existing bookkeeping entries) in a random argument "
                   "position) + pattern histories placing 11 reserved path forms in every argument position of every "
                   "operation; both drivers; distinct = distinct (driver, history prefix); protocol probes: every dir() "
                   "name of wrappers/h5py/IH5/wrapt on container and sub-group x reserved forms x argument shapes")
    cov["input_distribution"] = {
        "histories": len(hists), "ops_total": sum(len(h) for h in hists), "model_rounds": rounds,
        "model_steps_after_expansion": sum(len(h) for h in mhists),
        "op_kinds": _hist(op[0] for h in hists for op in h),
        "ops_with_reserved_path": res_ops // 2,
        "protocol": {"names_looked_up": stats["names"], "refused_by_getattr": stats["refused"],
                     "probe_calls": stats["probed_calls"],
                     "unreviewed_public_members_passing": sorted(stats["unreviewed"])},
    }
    cov["coq_crosscheck"] = xc
    cov["disagreements"] = len(disagreements)
    cov["harness_errors"] = errors[:5]
    ctx.sample({"case": mhists[0][:4], "model": mres[0][0][:1]})
    ctx.assumptions += [
        "paths are ASCII, segments other than '.' and '' are kept verbatim by HDF5",
        "one providing package per schema in the environment",
        "no MOVE into the source's own subtree (h5py detaches the subtree)",
    ]
    if stats["unreviewed"]:
        ctx.notes.append(f"public members that pass the wrapper but are not in the reviewed lists (probed generically): {sorted(stats['unreviewed'])}")
    if errors:
        ctx.violation(f"implementation run did not complete for {len(errors)} (driver, history) pairs: {errors[0]}",
                      {"kind": "harness-exception", "errors": errors[:5], "correspondence": "harness/props/c08.py run_history"},
                      found_input=False)
    if not xc["ok"]:
        ctx.violation("extracted runner and in-Coq evaluation of the model disagree (stale or wrong extraction)",
                      {"kind": "crosscheck", "xc": xc}, found_input=False)
    if not proof["ok"]:
        ctx.violation("proof obligations of Properties/C08.v do not check: " + "; ".join(proof["problems"])[:500],
                      {"kind": "proof", "theorem_file": "coq/Properties/C08.v", "problems": proof["problems"]},
                      found_input=False)
    if disagreements and not ctx.violations and not ctx.known_hits:
        ctx.violation("model/implementation correspondence broken but the property oracle found no failing input",
                      {"kind": "correspondence", "correspondence": "coq/Toc/UserView.v run_c08 vs metador_core.container.wrappers/interface",
                       "smallest_disagreement": disagreements[0], "count": len(disagreements)},
                      found_input=False)
    elif disagreements:
        ctx.notes.append(f"{len(disagreements)} model/impl disagreements (first: {disagreements[0]})")
    # generated tie: container/utils.py is re-translated from the current source and proved equal
    # to Toc/Layout.v (coq/Gen/Equiv_utils.v); string-level laws are also evaluated on the code alone
    gentie.report(ctx)


def describe(v: dict, drv: str) -> str:
    d = {"h5": "h5py.File", "ih5": "IH5Record"}[drv]
    shape = v.get("shape", "")
    shape = " (operation of the history)" if shape == "history-op" else shape
    if v["kind"] == "reserved-effect":
        return (f"[{d}] {v.get('method')}{shape} with reserved path {v.get('path', v.get('op'))!r} changed the raw tree "
                f"({v.get('changed')}; raised {v.get('raised', v.get('cls'))})")
    if v["kind"] == "reserved-hang":
        return f"[{d}] {v.get('method')}{shape} with reserved path {v.get('path')!r} was not refused: the call did not return within {PROBE_CALL_LIMIT}s"
    if v["kind"] == "reserved-accepted":
        return f"[{d}] {v.get('method')}{shape} accepted reserved path {v.get('path', v.get('op'))!r} without raising"
    if v["kind"] in ("listing-leak", "reserved-leak"):
        return f"[{d}] {v.get('method')} at {v.get('at')} exposes reserved names {v.get('leaked')}"
    if v["kind"] == "iteration-cut":
        return (f"[{d}] loop {v.get('op')} over a lazily iterated group visited {v.get('visited')} but the same loop on a "
                f"plain h5py.File visits {v.get('plain_visited')}")
    if v["kind"] == "listing-wrong":
        return f"[{d}] keys/len at {v.get('at')} = {v.get('got')} but the user children are {v.get('want')}"
    if v["kind"] == "plain-mismatch":
        return f"[{d}] user-visible tree differs from the same user operations on a plain h5py.File after {v.get('op')} at {v.get('differs_at')}"
    return f"[{d}] {v}"


def pattern_histories() -> List[List[list]]:
    """Every operation kind x every argument position x reserved path forms, in a populated state."""
    setup = [["mkgrp", "/", "a/b"], ["set", "/", "a/d", "i:5"], ["set", "/", "x", "i:7"],
             ["attach", "/a", "core.person__0.1.0", None, "{}"], ["attach", "/x", "core.person__0.1.0", None, "{}"],
             ["attach", "/a/d", "core.org__0.1.0", None, "{}"], ["attach", "/", "core.org__0.1.0", None, "{}"]]
    for op in setup:
        if op[0] == "attach":
            op[3] = PKG.get(op[2], "pkg__0.0.0")
    forms = ["metador_x", "/metador_x", "a/metador_meta_b", "/metador_container/links", "/a/metador_meta_",
             "/metador_meta_x", "a/metador_meta_d/q", "./metador_x", "a//metador_y", "metador_", "zz/metador_q/r"]
    out = []
    for fi in range(0, len(forms), 4):
        h = [list(o) for o in setup]
        for R in forms[fi:fi + 4]:
            h += [["mkgrp", "/", R], ["mkgrp", R, "n"], ["reqgrp", "/a", R], ["mkds", "/", R, "i:1"], ["reqds", "/", R, "i:1"],
                  ["set", "/a", R, "i:1"], ["del", "/", R], ["get", "/", R], ["get", R, "a"],
                  ["move", "/", R, "m1"], ["move", "/", "x", R], ["move", R, "x", "m2"],
                  ["copy", "/", R, "c1", False], ["copy", "/", "x", R, False], ["copy", "/", "a", R, True],
                  ["copyinto", "/", "x", "/a", [R], False], ["copyinto", "/", R, "/a", ["n"], False],
                  ["copyinto", "/", "x", R, [], False], ["copyinto", R, "x", "/a", [], True],
                  ["aset", "/", R, "k", "i:1"], ["adel", "/", R, "k"], ["attach", R, "core.person__0.1.0", PKG.get("core.person__0.1.0", "p"), "{}"],
                  ["detach", R, "core.person__0.1.0"]]
        h += [["copy", "/", "x", "x2", False], ["move", "/", "a", "e"], ["del", "/", "x"], ["detach", "/", "core.org__0.1.0"]]
        out.append(h)
    # copies to places strictly below the source itself: new intermediate groups, an existing
    # sub-group, into the own group object, of a dataset (refused: a dataset is in the way)
    for wm in (False, True):
        out.append([list(o) for o in setup] + [["copy", "/", "a", "a/n1/n2", wm], ["copy", "/", "a", "a/b/cp", wm],
                                                ["copyinto", "/", "a/b", "/a/b", ["in"], wm], ["copyinto", "/", "a", "/a", [], not wm],
                                                ["copyn", "/", "a", "a/n1/again", wm], ["copy", "/", "x", "x/y", wm], ["copy", "/", "a", "a", wm],
                                                ["copy", "/a", "b", "b/in/deeper", wm], ["get", "/", "a/n1/n2/b"], ["del", "/", "a"]])
    return out


def compound_histories() -> List[List[list]]:
    """Loops that mutate the group they iterate, over children with and without metadata whose
    names sort before ("0d", "A", "Mb") and after ("x", "y", "~t") their "metador_meta_<name>"
    sidecars; group deletes / copies without metadata over such children; then everything is listed."""
    pk = lambda s: PKG.get(s, "pkg__0.0.0")   # noqa: E731
    P, O = "core.person__0.1.0", "core.org__0.1.0"

    def setup(g="/g"):
        h = [["mkgrp", "/", g]]
        for n in ["A", "0d", "x", "y", "~t"]:
            h.append(["set", g, n, "i:1"])
        h += [["mkgrp", g, "Mb"], ["set", g, "Mb/B", "i:2"], ["set", g, "Mb/z", "i:3"]]
        for n, sc in [("A", P), ("0d", P), ("0d", O), ("y", P), ("Mb", P), ("Mb/B", O)]:
            h.append(["attach", g + "/" + n, sc, pk(sc), "{}"])
        return h
    out = []
    for mode in MODES:
        out.append(setup() + [["each_detach", "/g", P, mode], ["each_detach", "/g", O, mode], ["get", "/", "g"]])
        out.append(setup() + [["each_del", "/g", mode], ["get", "/", "g"]])
        out.append(setup() + [["each_move", "/g", "2", mode], ["each_detach", "/g/Mb2", O, mode], ["each_del", "/g", mode]])
    out.append(setup() + [["copy", "/", "g", "h", True], ["copy", "/", "g", "k", False], ["del", "/", "g"],
                          ["each_del", "/", "iter"]])
    out.append(setup() + [["del", "/g", "Mb"], ["del", "/", "g"], ["get", "/", "/"]])
    out.append(setup() + [["each_del", "/g/Mb", "items"], ["each_move", "/", "~", "keys"], ["each_del", "/g~", "keys"]])
    return out


def _hist(it):
    h: Dict[str, int] = {}
    for x in it:
        h[str(x)] = h.get(str(x), 0) + 1
    return h


def replay(rep) -> int:
    """Re-run the recorded history (and probe) on the current tree; 1 if the finding is still there."""
    vlib._pool_init()
    global PKG
    PKG = load_pkg_names()
    if rep.get("kind") == "utils-string-law":
        return gentie.replay(rep)
    if "ops" not in rep:
        print("replay names a proof obligation or correspondence; re-run the check itself")
        return 1
    f = rep["finding"]
    ops = rep["ops"]
    t = {"driver": rep["driver"], "ops": ops, "limit": 300,
         "probe_at": [len(ops) - 1] if rep.get("probe") else [], "only": f.get("method") if rep.get("probe") else None}
    r = run_history(t)
    if r["error"]:
        print("error:", r["error"])
        return 1
    hits = [v for v in r["viol"] if _same_finding(v, f)]
    for v in hits[:3]:
        print(describe(v, rep["driver"]))
    print("still failing" if hits else "no longer failing")
    return 1 if hits else 0
